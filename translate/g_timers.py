"""C15: translated parts of banana.py that implement the keepalive / idle-disconnect timers.

Output gen/TimersGen.v:
  * eps_ms                      -- banana.EPSILON, float literal read as an exact decimal, in milliseconds
  * connectionMade_ka / _dc     -- the two `if self.<x>Timeout is not None:` blocks of Banana.connectionMade
  * dataReceived_stamp          -- the prefix of Banana.dataReceived in front of `try:`
  * keepaliveTimerFired, disconnectTimerFired   -- whole bodies
  * connectionLost_ka / _dc     -- the two cancel blocks of Banana.connectionLost
  * sendPING / sendPONG         -- whole bodies (on top of gen/BananaGen.v's int2b128, tok_PING, tok_PONG)
  * on_PING / on_PONG / ping_exempt / header_limit -- shape facts of Banana.handleData
  * connectionTimedOut_exc / Broker_shutdown / Broker_connectionLost -- the teardown chain, statement by statement:
                                   the exception class handed to shutdown, shutdown's and connectionLost's statement lists

The timer fragments are written in a tiny effect language.  Every fragment becomes a function
    now last_rx timeout (ms, Z)  ->  use_ka abandoned (bool)  ->  timer (option Z: absolute expiry of *this* timer)
    ->  fx  := (timer', last_rx', use_ka', pings, teardowns)
Anything that is not recognised raises Untranslatable (fail closed).

Accepted equivalent forms (beyond the literal text of the reference tree), with the equivalence argument:

 1. connectionLost cancel block through a local:   v = self.<timer>            instead of   if self.<timer>:
                                                   if v:                                       self.<timer>.cancel()
                                                       v.cancel()                              self.<timer> = None
                                                       self.<timer> = None
    (the Assign must be immediately followed by the `if v:`; v counts as an alias of the attribute's value only until
    the attribute is assigned or cancelled, after which any further use of v is Untranslatable.)
    Argument: in the reference form the attribute is read twice -- for the truth test and as receiver of .cancel() --
    and both reads happen before any call other than bool(value).  The generator itself establishes that no method
    but connectionMade / the two callbacks / connectionLost stores to the attribute and that the only values stored
    are None and the handle returned by reactor.callLater; the model already relies on exactly this when it reads
    `if self.<timer>:` as "a delayed call is pending" (bool() of None / of a handle has no effect on self).  Under
    that same, already made, assumption two consecutive reads return the same object, so testing and cancelling the
    cached object is the same as testing and cancelling the attribute; no read happens after a call in either form.
 2. Broker.connectionTimedOut may pass the Failure to self.shutdown(..) directly or through locals each assigned
    exactly once immediately before their only use (err = ..; why = Failure(err); self.shutdown(why)  ==
    self.shutdown(Failure(..))): the same constructor calls with the same constant arguments run in the same order
    and the locals are dead afterwards.  A leading docstring is ignored.
 3. "touches the timer state" is decided on the AST (attribute accesses, names, and string constants that contain one
    of the attribute names, so getattr/setattr by string still count), not on the source text: a docstring or bare
    string statement is evaluated and dropped, it cannot touch anything.
 4. handleData's list of token types exempt from the schema check may be the inline tuple or a module-level constant assigned
    exactly once to that tuple (tuples are immutable; the generator checks there is no other store to the name); the header
    decode may be the if/else statement or the equivalent conditional expression.
(The shared front-end translate/normalize.py additionally inlines calls to NEW private helpers and canonicalises renamed
locals before this module sees the code.)
"""
import ast
from fractions import Fraction
from translate import pylite as P

PROPERTIES = ["C15"]
OUTPUTS = ["TimersGen.v"]

CMP = {ast.Gt: "Z.gtb", ast.GtE: "Z.geb", ast.Lt: "Z.ltb", ast.LtE: "Z.leb", ast.Eq: "Z.eqb"}


def un(n):
    return ast.unparse(n)


class Frag:
    """translator of one timer fragment"""

    def __init__(self, what, timer_attr, timeout_attr, callback, eps_ms, pending_on_entry):
        self.what = what
        self.timer_attr = timer_attr          # e.g. keepaliveTimer
        self.timeout_attr = timeout_attr      # e.g. keepaliveTimeout
        self.callback = callback              # e.g. keepaliveTimerFired
        self.eps = eps_ms
        self.pending_on_entry = pending_on_entry

    def bail(self, node, why):
        raise P.Untranslatable("%s: %s at line %s: %s" % (self.what, why, getattr(node, "lineno", "?"), un(node)[:160]))

    # ---- expressions over Z
    def ex(self, e, env):
        if isinstance(e, ast.Constant) and isinstance(e.value, int) and not isinstance(e.value, bool):
            return P.zlit(e.value)
        if isinstance(e, ast.Constant) and isinstance(e.value, float):
            return P.zlit(to_ms(e, un(e)))
        if isinstance(e, ast.Name):
            if e.id == "EPSILON":
                return "eps"
            if env.get(e.id) == "Z":
                return e.id
            self.bail(e, "unknown name in arithmetic")
        if isinstance(e, ast.Call) and un(e) == "time.time()":
            return "now"
        if isinstance(e, ast.Attribute) and un(e) == "self.dataLastReceivedAt":
            return "last_rx"
        if isinstance(e, ast.Attribute) and un(e) == "self." + self.timeout_attr:
            return "timeout"
        if isinstance(e, ast.BinOp) and isinstance(e.op, (ast.Add, ast.Sub)):
            # time arithmetic goes through the parameters add / sub (exact instance: Z.add / Z.sub; lib/TimersRound.v
            # instantiates them with any operations that are within delta of the exact result: IEEE doubles)
            f = "add" if isinstance(e.op, ast.Add) else "sub"
            return "(%s %s %s)" % (f, self.ex(e.left, env), self.ex(e.right, env))
        self.bail(e, "expression outside the timer fragment language")

    def cond(self, e, env):
        if isinstance(e, ast.Compare) and len(e.ops) == 1 and type(e.ops[0]) in CMP:
            return "(%s %s %s)" % (CMP[type(e.ops[0])], self.ex(e.left, env), self.ex(e.comparators[0], env))
        s = un(e)
        if s == "self.connectionAbandoned":
            return "abandoned"
        if s == "self.useKeepalives":
            return "use_ka"
        if s == "self." + self.timer_attr or (isinstance(e, ast.Name) and env.get(e.id) == "timer-alias"):
            return "(match timer with Some _ => true | None => false end)"
        if s == "self.%s is not None" % self.timeout_attr:
            return "true"      # the fragment is only used when the timeout is configured
        self.bail(e, "condition outside the timer fragment language")

    # ---- statements;  k = text of the final tuple
    K = "(timer, last_rx, use_ka, pings, teardowns)"

    def block(self, stmts, env, nxt):
        if not stmts:
            return nxt(env)
        st, rest = stmts[0], stmts[1:]
        go = lambda env2: self.block(rest, env2, nxt)
        s = un(st)
        if isinstance(st, ast.Pass) or (isinstance(st, ast.Expr) and isinstance(st.value, ast.Constant)):
            return go(env)
        if isinstance(st, ast.Return) and st.value is None:
            return self.K
        if isinstance(st, ast.If):
            c = self.cond(st.test, env)
            return "(if %s\n  then %s\n  else %s)" % (c, self.block(st.body, dict(env), go), self.block(st.orelse, dict(env), go))
        if isinstance(st, ast.Assign) and len(st.targets) == 1:
            tgt, val = un(st.targets[0]), st.value
            if isinstance(st.targets[0], ast.Name) and un(val) == "self." + self.timer_attr:
                # v = self.<timer>: v names the value the attribute holds now (see docstring, accepted form 1)
                env2 = dict(env)
                env2[st.targets[0].id] = "timer-alias"
                return go(env2)
            if tgt == "self." + self.timer_attr:
                env = {k: v for k, v in env.items() if v != "timer-alias"}    # the alias is stale from here on
                if un(val) == "None":
                    if env.get("@pending"):
                        self.bail(st, "timer handle forgotten while the delayed call is still pending (no cancel)")
                    return "(let timer := @None Z in\n %s)" % go(env)
                if isinstance(val, ast.Name) and env.get(val.id) == "handle":
                    env2 = dict(env)
                    env2["@pending"] = True
                    return "(let timer := %s in\n %s)" % (val.id, go(env2))
                self.bail(st, "timer attribute assigned something else")
            if tgt == "self.dataLastReceivedAt":
                return "(let last_rx := %s in\n %s)" % (self.ex(val, env), go(env))
            if tgt == "self.useKeepalives" and un(val) in ("True", "False"):
                return "(let use_ka := %s in\n %s)" % (un(val).lower(), go(env))
            if isinstance(st.targets[0], ast.Name):
                name = st.targets[0].id
                if name in ("now", "last_rx", "timeout", "timer", "use_ka", "abandoned", "pings", "teardowns", "add", "sub", "eps"):
                    self.bail(st, "local variable clashes with a model variable")
                # t = reactor.callLater(delay, self.<callback>)
                if isinstance(val, ast.Call) and un(val.func) == "reactor.callLater":
                    if len(val.args) != 2 or val.keywords or un(val.args[1]) != "self." + self.callback:
                        self.bail(st, "callLater does not schedule self.%s" % self.callback)
                    if env.get("@pending"):
                        self.bail(st, "second callLater while one is pending")
                    env2 = dict(env)
                    env2[name] = "handle"
                    return "(let %s := Some (add now %s) in\n %s)" % (name, self.ex(val.args[0], env), go(env2))
                env2 = dict(env)
                env2[name] = "Z"
                return "(let %s := %s in\n %s)" % (name, self.ex(val, env), go(env2))
            self.bail(st, "assignment outside the timer fragment language")
        if isinstance(st, ast.Expr) and isinstance(st.value, ast.Call):
            if s == "self.sendPING()":
                return "(let pings := Z.add pings 1 in\n %s)" % go(env)
            if s == "self.connectionTimedOut()":
                return "(let teardowns := Z.add teardowns 1 in\n %s)" % go(env)
            c = st.value
            via_alias = isinstance(c.func, ast.Attribute) and c.func.attr == "cancel" and isinstance(c.func.value, ast.Name) \
                and env.get(c.func.value.id) == "timer-alias" and not c.args and not c.keywords
            if s == "self.%s.cancel()" % self.timer_attr or via_alias:
                env2 = {k: v for k, v in env.items() if v != "timer-alias"}
                env2["@pending"] = False
                return "(let timer := @None Z in\n %s)" % go(env2)
            if s.startswith("log.msg("):
                return go(env)
        self.bail(st, "statement outside the timer fragment language")

    def emit(self, name, stmts):
        env = {"@pending": self.pending_on_entry}
        body = self.block(stmts, env, lambda e: self.K)
        return ("Definition %s_g (add sub : Z -> Z -> Z) (eps : Z) (now last_rx timeout : Z) (use_ka abandoned : bool) "
                "(timer : option Z) : fx :=\n let pings := 0 in let teardowns := 0 in\n %s.\n"
                "Definition %s := %s_g Z.add Z.sub eps_ms." % (name, body, name, name))


def to_ms(node, text):
    """seconds literal -> exact integer milliseconds, from the literal's decimal text (never via binary float)"""
    try:
        fr = Fraction(text) * 1000
    except (ValueError, ZeroDivisionError):
        raise P.Untranslatable("EPSILON is not a decimal literal: %r" % text)
    if fr.denominator != 1:
        raise P.Untranslatable("EPSILON %s is not a whole number of milliseconds" % text)
    return int(fr)


def epsilon_ms(mod, src):
    cands = [st for st in mod.body if isinstance(st, ast.Assign) and len(st.targets) == 1
             and isinstance(st.targets[0], ast.Name) and st.targets[0].id == "EPSILON"]
    if len(cands) != 1 or not isinstance(cands[0].value, ast.Constant) or isinstance(cands[0].value.value, (bool, str, bytes)) \
            or not isinstance(cands[0].value.value, (int, float)):
        raise P.Untranslatable("expected exactly one module-level `EPSILON = <number literal>`")
    text = ast.get_source_segment(src, cands[0].value)
    return to_ms(cands[0].value, text)


def the_if(fn, test_src, what):
    ifs = [n for n in fn.body if isinstance(n, ast.If) and un(n.test) == test_src]
    if len(ifs) != 1:
        raise P.Untranslatable("%s: expected exactly one top-level `if %s:`, found %d" % (what, test_src, len(ifs)))
    if ifs[0].orelse:
        raise P.Untranslatable("%s: `if %s:` has an else branch" % (what, test_src))
    return ifs[0]


def mentions(node, names):
    """names of the timer state that `node` can touch: attribute accesses, bare names, and string constants that
    contain one of the names (getattr/setattr/__dict__ access by string) -- but not docstrings / bare string
    statements, which are evaluated and dropped without any effect"""
    inert = set()
    for n in ast.walk(node):
        if isinstance(n, ast.Expr) and isinstance(n.value, ast.Constant) and isinstance(n.value.value, str):
            inert.add(id(n.value))
    found = []
    for n in ast.walk(node):
        hit = None
        if isinstance(n, ast.Attribute) and n.attr in names:
            hit = n.attr
        elif isinstance(n, ast.Name) and n.id in names:
            hit = n.id
        elif isinstance(n, ast.Constant) and isinstance(n.value, (str, bytes)) and id(n) not in inert:
            v = n.value if isinstance(n.value, str) else n.value.decode("latin-1")
            for nm in names:
                if nm in v:
                    hit = nm
        if hit and hit not in found:
            found.append(hit)
    return found


TIMER_WORDS = ["keepaliveTimer", "disconnectTimer", "dataLastReceivedAt", "useKeepalives", "callLater", "keepaliveTimeout",
               "disconnectTimeout"]


def generate():
    mod = P.load("banana.py")
    src = P.source("banana.py")
    eps = epsilon_ms(mod, src)
    out = [P.PRELUDE % dict(src="banana.py (timers, PING/PONG), broker.py (connectionTimedOut)")]
    out.append("Require Import Verif.gen.BananaGen.")
    out.append("Definition eps_ms : Z := %d.  (* EPSILON = %s s *)" % (eps, ast.get_source_segment(
        src, [st for st in mod.body if isinstance(st, ast.Assign) and un(st.targets[0]) == "EPSILON"][0].value)))
    out.append("(* (timer', last_rx', use_ka', number of PINGs sent, number of connectionTimedOut calls) *)\n"
               "Definition fx : Type := (option Z * Z * bool * Z * Z)%type.")

    ka = dict(timer_attr="keepaliveTimer", timeout_attr="keepaliveTimeout", callback="keepaliveTimerFired", eps_ms=eps)
    dc = dict(timer_attr="disconnectTimer", timeout_attr="disconnectTimeout", callback="disconnectTimerFired", eps_ms=eps)

    # ---- class attributes: timers and timeouts start as None, useKeepalives False
    cls = P.find_class(mod, "Banana")
    cc = {}
    for st in cls.body:
        if isinstance(st, ast.Assign) and len(st.targets) == 1 and isinstance(st.targets[0], ast.Name):
            cc[st.targets[0].id] = un(st.value)
    for k, v in dict(useKeepalives="False", keepaliveTimeout="None", keepaliveTimer="None", disconnectTimeout="None",
                     disconnectTimer="None").items():
        if cc.get(k) != v:
            raise P.Untranslatable("Banana.%s default is %r, expected %s" % (k, cc.get(k), v))

    # ---- connectionMade: the two arming blocks; nothing else in the method touches the timers
    cm = P.find_def(mod, "Banana.connectionMade")
    for tag, spec in (("ka", ka), ("dc", dc)):
        blk = the_if(cm, "self.%s is not None" % spec["timeout_attr"], "connectionMade")
        out.append(Frag("connectionMade/" + tag, pending_on_entry=False, **spec).emit("connectionMade_" + tag, blk.body))
    others = [st for st in cm.body if not (isinstance(st, ast.If) and un(st.test) in
                                           ("self.keepaliveTimeout is not None", "self.disconnectTimeout is not None"))]
    for st in others:
        if mentions(st, TIMER_WORDS):
            raise P.Untranslatable("connectionMade touches the timers outside the two arming blocks: " + un(st)[:120])

    # ---- dataReceived: everything in front of `try:`
    dr = P.find_def(mod, "Banana.dataReceived")
    pre = []
    for st in dr.body:
        if isinstance(st, ast.Try):
            break
        pre.append(st)
    else:
        raise P.Untranslatable("dataReceived: no try block")
    rest = dr.body[len(pre):]
    for st in rest:
        if mentions(st, TIMER_WORDS):
            raise P.Untranslatable("dataReceived touches the timers after the stamp: " + un(st)[:120])
    out.append(Frag("dataReceived", pending_on_entry=False, **ka).emit("dataReceived_stamp", pre))
    if "self.connectionAbandoned = True" not in un(rest[0]):
        raise P.Untranslatable("dataReceived no longer abandons the connection after a receive error")
    # handleData must not touch the clock state
    hd = P.find_def(mod, "Banana.handleData")
    if mentions(hd, TIMER_WORDS):
        raise P.Untranslatable("handleData touches the timers")

    # ---- the two timer callbacks (whole bodies); on entry the delayed call has fired, so nothing is pending
    out.append(Frag("keepaliveTimerFired", pending_on_entry=False, **ka).emit(
        "keepaliveTimerFired", P.find_def(mod, "Banana.keepaliveTimerFired").body))
    out.append(Frag("disconnectTimerFired", pending_on_entry=False, **dc).emit(
        "disconnectTimerFired", P.find_def(mod, "Banana.disconnectTimerFired").body))

    # ---- connectionLost: the two cancel blocks
    cl = P.find_def(mod, "Banana.connectionLost")
    used = set()
    for tag, spec in (("ka", ka), ("dc", dc)):
        attr = spec["timer_attr"]
        blocks = []
        for i, st in enumerate(cl.body):
            if isinstance(st, ast.If) and un(st.test) == "self." + attr:
                blocks.append((i, [st]))
            # accepted form 1:  v = self.<timer>  immediately followed by  if v: ...
            if isinstance(st, ast.Assign) and len(st.targets) == 1 and isinstance(st.targets[0], ast.Name) \
                    and un(st.value) == "self." + attr and i + 1 < len(cl.body) and isinstance(cl.body[i + 1], ast.If) \
                    and un(cl.body[i + 1].test) == st.targets[0].id:
                blocks.append((i, [st, cl.body[i + 1]]))
        if len(blocks) != 1:
            raise P.Untranslatable("connectionLost: expected exactly one cancel block for self.%s, found %d" % (attr, len(blocks)))
        i, stmts = blocks[0]
        if stmts[-1].orelse:
            raise P.Untranslatable("connectionLost: cancel block of self.%s has an else branch" % attr)
        for k in range(len(stmts)):
            used.add(i + k)
        out.append(Frag("connectionLost/" + tag, pending_on_entry=True, **spec).emit("connectionLost_" + tag, stmts))
    for i, st in enumerate(cl.body):
        if i not in used and mentions(st, TIMER_WORDS):
            raise P.Untranslatable("connectionLost touches the timers outside the two cancel blocks: " + un(st)[:120])

    # ---- nobody else arms, cancels or stamps: list every method of banana.py/broker.py that mentions the timer state
    allowed = {"connectionMade", "connectionLost", "dataReceived", "keepaliveTimerFired", "disconnectTimerFired",
               "getDataLastReceivedAt"}
    for rel, clsname in (("banana.py", "Banana"), ("broker.py", "Broker")):
        c = P.find_class(P.load(rel), clsname)
        for fn in c.body:
            if isinstance(fn, ast.FunctionDef) and fn.name not in allowed and \
                    mentions(fn, ["keepaliveTimer", "disconnectTimer", "dataLastReceivedAt", "useKeepalives"]):
                raise P.Untranslatable("%s.%s touches the timer state" % (clsname, fn.name))

    # ---- sendPING / sendPONG
    for meth, tok in (("sendPING", "PING"), ("sendPONG", "PONG")):
        f = P.find_def(mod, "Banana." + meth)
        body = [st for st in f.body if not (isinstance(st, ast.Expr) and isinstance(st.value, ast.Constant))]
        args = [a.arg for a in f.args.args]
        if args != ["self", "number"]:
            raise P.Untranslatable("%s parameters are %s" % (meth, args))
        if len(body) != 2 or not isinstance(body[0], ast.If) or un(body[0].test) != "number" or body[0].orelse \
                or [un(s) for s in body[0].body] != ["int2b128(number, self.transport.write)"] \
                or un(body[1]) != "self.transport.write(%s)" % tok:
            raise P.Untranslatable("%s body changed: %s" % (meth, un(f)[:300]))
        out.append("Definition %s (number : Z) (w : list Z) : res (list Z) :=\n"
                   " match (if negb (Z.eqb number 0) then int2b128 number w else Ok w) with\n"
                   " | Exc tag => Exc tag\n | Ok w => Ok (w ++ [tok_%s])\n end." % (meth, tok))
    dflt = P.find_def(mod, "Banana.sendPING").args.defaults
    if len(dflt) != 1 or un(dflt[0]) != "0":
        raise P.Untranslatable("sendPING default number is not 0")
    out.append("Definition keepalive_ping_number : Z := 0.  (* keepaliveTimerFired calls self.sendPING() *)")

    # ---- handleData: PING / PONG branches, exemption from the schema check, header length limit
    branches = {}
    for n in ast.walk(hd):
        if isinstance(n, ast.If) and isinstance(n.test, ast.Compare) and un(n.test.left) == "typebyte" \
                and len(n.test.ops) == 1 and isinstance(n.test.ops[0], ast.Eq):
            branches.setdefault(un(n.test.comparators[0]), []).append(n)
    for tok, want, act in (("PING", ["self.sendPONG(header)", "continue"], "ActPongHeader"),
                           ("PONG", ["continue"], "ActIgnore")):
        bs = branches.get(tok, [])
        if len(bs) != 1:
            raise P.Untranslatable("handleData: expected one `typebyte == %s` branch, found %d" % (tok, len(bs)))
        got = [un(s) for s in bs[0].body]
        if got != want:
            raise P.Untranslatable("handleData: `typebyte == %s` branch is %r, expected %r" % (tok, got, want))
    out.append("Inductive tok_action := ActPongHeader | ActIgnore.")
    out.append("Definition on_PING : tok_action := ActPongHeader.  (* self.sendPONG(header); continue *)")
    out.append("Definition on_PONG : tok_action := ActIgnore.      (* continue *)")
    # the PING/PONG branches sit in the token dispatch chain of the while loop, not under `if not rejected`
    loops = [n for n in hd.body if isinstance(n, ast.While)]
    if len(loops) != 1:
        raise P.Untranslatable("handleData: expected one top-level while loop")
    chain = [n for n in loops[0].body if isinstance(n, ast.If) and un(n.test) == "typebyte == OPEN" and n.orelse]
    found = False
    for top in chain:
        n = top
        seen = []
        while True:
            seen.append(un(n.test))
            if len(n.orelse) == 1 and isinstance(n.orelse[0], ast.If):
                n = n.orelse[0]
            else:
                break
        if "typebyte == PING" in seen and "typebyte == PONG" in seen:
            found = True
    if not found:
        raise P.Untranslatable("handleData: PING/PONG are not alternatives of the top-level token dispatch chain")
    ex = [n for n in ast.walk(hd) if isinstance(n, ast.Compare) and un(n.left) == "typebyte"
          and len(n.ops) == 1 and isinstance(n.ops[0], ast.NotIn)]
    if len(ex) != 1:
        raise P.Untranslatable("handleData: schema-check exemption list not found")
    lst = ex[0].comparators[0]
    if isinstance(lst, ast.Name):
        # accepted form 4: the tuple named by a module-level constant that is assigned exactly once (and never stored to
        # or mutated: a tuple) -- `typebyte not in NAME` then reads the same tuple
        defs = [st for st in mod.body if isinstance(st, ast.Assign) and any(isinstance(t, ast.Name) and t.id == lst.id for t in st.targets)]
        stores = [n for n in ast.walk(mod) if isinstance(n, ast.Name) and n.id == lst.id and isinstance(n.ctx, (ast.Store, ast.Del))]
        if len(defs) != 1 or len(stores) != 1 or len(defs[0].targets) != 1:
            raise P.Untranslatable("handleData: exemption list %s is not a module constant assigned once" % lst.id)
        lst = defs[0].value
    if not isinstance(lst, ast.Tuple):
        raise P.Untranslatable("handleData: schema-check exemption list not found")
    names = [un(e) for e in lst.elts]
    out.append("Definition ping_exempt_from_check : bool := %s." % ("true" if "PING" in names and "PONG" in names else "false"))
    # header limit:  `if pos > 64: raise BananaError`, popleft(65)
    lim = [n for n in ast.walk(hd) if isinstance(n, ast.If) and isinstance(n.test, ast.Compare) and un(n.test.left) == "pos"
           and isinstance(n.test.ops[0], ast.Gt) and isinstance(n.test.comparators[0], ast.Constant)
           and any(isinstance(s, ast.Raise) for s in n.body)]
    if len(lim) != 1:
        raise P.Untranslatable("handleData: header length limit not found")
    out.append("Definition header_limit : Z := %d.  (* if pos > %d: raise BananaError *)" % ((lim[0].test.comparators[0].value,) * 2))
    hs = un(hd)
    for frag in ("if ch >= 128:", "typebyte = first65[pos:pos + 1]"):
        if frag not in hs:
            raise P.Untranslatable("handleData no longer contains " + frag)
    # `if pos: header = b1282int(first65[:pos]) else: header = 0`, or the same as a conditional expression
    if not (("header = b1282int(first65[:pos])" in hs and "header = 0" in hs and "if pos:" in hs)
            or "header = b1282int(first65[:pos]) if pos else 0" in hs):
        raise P.Untranslatable("handleData no longer computes header = b1282int(first65[:pos]) if pos else 0")

    # ---- Broker.connectionTimedOut -> shutdown -> finish + loseConnection ; finish -> abandonAllRequests
    bm = P.load("broker.py")
    # accepted form 2: the argument of self.shutdown(..) directly, or through single-use locals each assigned exactly
    # once immediately before its only use
    body = [st for st in P.find_def(bm, "Broker.connectionTimedOut").body
            if not (isinstance(st, ast.Expr) and isinstance(st.value, ast.Constant) and isinstance(st.value.value, str))]
    if not body or not (isinstance(body[-1], ast.Expr) and isinstance(body[-1].value, ast.Call)
                        and un(body[-1].value.func) == "self.shutdown" and len(body[-1].value.args) == 1
                        and not body[-1].value.keywords):
        raise P.Untranslatable("Broker.connectionTimedOut does not end in self.shutdown(<failure>)")
    arg = body[-1].value.args[0]
    for st in reversed(body[:-1]):
        if not (isinstance(st, ast.Assign) and len(st.targets) == 1 and isinstance(st.targets[0], ast.Name)):
            raise P.Untranslatable("Broker.connectionTimedOut: unexpected statement " + un(st)[:100])
        nm = st.targets[0].id
        uses = [n for n in ast.walk(arg) if isinstance(n, ast.Name) and n.id == nm]
        if len(uses) != 1:
            raise P.Untranslatable("Broker.connectionTimedOut: local %s is not used exactly once by the next statement" % nm)

        class Sub(ast.NodeTransformer):
            def visit_Name(self, node):
                return st.value if node.id == nm else node
        arg = Sub().visit(arg)
    a = un(arg)
    if not (isinstance(arg, ast.Call) and un(arg.func) == "failure.Failure" and len(arg.args) == 1 and not arg.keywords
            and isinstance(arg.args[0], ast.Call) and isinstance(arg.args[0].func, ast.Attribute)
            and un(arg.args[0].func.value) == "error" and not arg.args[0].keywords
            and all(isinstance(x, ast.Constant) for x in arg.args[0].args)):
        raise P.Untranslatable("Broker.connectionTimedOut passes %s to shutdown" % a[:120])
    exc_name = arg.args[0].func.attr
    exc = {"ConnectionLost": "ExcConnectionLost", "ConnectionDone": "ExcConnectionDone"}.get(exc_name, "ExcOther")
    out.append("(* the exception class Broker.connectionTimedOut wraps in the Failure it hands to self.shutdown *)\n"
               "Inductive timeout_exc := ExcConnectionLost | ExcConnectionDone | ExcOther.\n"
               "Definition connectionTimedOut_exc : timeout_exc := %s.  (* self.shutdown(%s) *)" % (exc, a[:100].replace('"', "'").replace("*)", "* )")))

    # Broker.shutdown, statement by statement
    sh = P.find_def(bm, "Broker.shutdown")
    if [x.arg for x in sh.args.args] != ["self", "why", "fireDisconnectWatchers"] or [un(d) for d in sh.args.defaults] != ["True"]:
        raise P.Untranslatable("Broker.shutdown signature changed")
    prog = []
    for st in sh.body:
        t = un(st)
        if isinstance(st, ast.Expr) and isinstance(st.value, ast.Constant):
            continue
        if isinstance(st, ast.Assert) and t == "assert isinstance(why, failure.Failure)":
            prog.append("SAssertFailure")
        elif isinstance(st, ast.If) and un(st.test) == "not fireDisconnectWatchers" and not st.orelse \
                and [un(x) for x in st.body] == ["self.disconnectWatchers = []"]:
            prog.append("SDropWatchers")
        elif t == "self.finish(why)":
            prog.append("SFinish")
        elif t == "self.transport.loseConnection()":
            prog.append("SLoseConnection")
        elif t.startswith("log.msg(") and not mentions(st, TIMER_WORDS):
            continue
        else:
            raise P.Untranslatable("Broker.shutdown: statement outside the teardown language: " + t[:120])
    out.append("(* Broker.shutdown(why), statement by statement *)\n"
               "Inductive sstmt := SAssertFailure | SDropWatchers | SFinish | SLoseConnection.\n"
               "Definition Broker_shutdown : list sstmt := [%s]." % "; ".join(prog))

    # Broker.connectionLost(why), statement by statement: statements that neither touch the timers nor call into the
    # teardown (finish / shutdown / abandonAllRequests / connectionLost) nor leave the method are LOther
    bl = P.find_def(bm, "Broker.connectionLost")
    prog = []
    for st in bl.body:
        t = un(st)
        if isinstance(st, ast.Expr) and isinstance(st.value, ast.Constant):
            continue
        if t in ("banana.Banana.connectionLost(self, why)", "super().connectionLost(why)",
                 "super(Broker, self).connectionLost(why)"):
            prog.append("LBananaConnectionLost")
        elif t == "self.finish(why)":
            prog.append("LFinish")
        elif t == "self._notifyConnectionLostWatchers()":
            prog.append("LNotifyWatchers")
        else:
            leaves = any(isinstance(n, (ast.Return, ast.Raise, ast.Try, ast.While, ast.For, ast.With)) for n in ast.walk(st))
            if leaves or mentions(st, TIMER_WORDS + ["finish", "shutdown", "abandonAllRequests", "connectionLost",
                                                     "waitingForAnswers", "disconnected"]):
                raise P.Untranslatable("Broker.connectionLost: statement outside the teardown language: " + t[:120])
            prog.append("LOther")
    out.append("(* Broker.connectionLost(why), statement by statement *)\n"
               "Inductive lstmt := LOther | LBananaConnectionLost | LFinish | LNotifyWatchers.\n"
               "Definition Broker_connectionLost : list lstmt := [%s]." % "; ".join(prog))
    fi = [un(s) for s in P.find_def(bm, "Broker.finish").body]
    if "self.abandonAllRequests(why)" not in fi:
        raise P.Untranslatable("Broker.finish no longer abandons the pending requests")
    return {"TimersGen.v": "\n\n".join(out) + "\n"}
