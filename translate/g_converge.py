"""C14: translated parts of negotiate.py / connection.py / pb.py / broker.py used by lib/Converge.v

* `Negotiation.compareOfferAndExisting` + `handle_old` -> Gallina decision function `compare_offer`
  (a dedicated walker: every statement / condition must be one of the recognised forms, else Untranslatable).
  Strings are abstracted to integer codes compared for equality only: the literal "none" is IR_NONE = 0,
  a missing or empty `my-incarnation` is None, a missing `last-connection` is None.
* constants (CONNECTION_TIMEOUT) and shape facts of the connect/attach/fail paths (seqnum bump, who is told what).

Alternative source forms that are accepted (each is equivalent to the reference form for all inputs; the side
condition is CHECKED, never assumed; anything else fails closed):

 F1  `if bool(E):` is read as `if E:`  (strip_bool).  An `if` test and `bool()` both determine truth by the same
     protocol (__bool__, else __len__, else True), evaluate E exactly once and propagate the same exception;
     side condition: the name `bool` is not bound anywhere in the module (no assignment, def, class, import,
     parameter or global of that name), so it is the builtin.
 F2  on an attribute A that is a PLAIN DICT (plain_dict_attr: every store to `<anything>.A` in every module of the
     package -- tests included -- assigns a `{}` display; A is never deleted and never the target of an augmented /
     annotated / tuple / for / with assignment; the name A occurs in no string literal, so no setattr/getattr by
     name): every object A can hold is then a builtin dict, whose methods run no user code except the key's
     __hash__/__eq__.  Each form below is accepted because it establishes, by the semantics of builtin dict, the
     SAME FACT the model uses as the reference form (final table state and the moment it is reached); the forms may
     differ in how often the key is hashed/compared, which the model does not depend on:
       F2a `list(self.A)`  for  `list(self.A.keys())`: one snapshot of the same keys in the same order (no key is
           hashed by either); also needs `list` unbound in the module.
       F2b `v = self.A.pop(k)` directly under `if k in self.A:`  for  `v = self.A[k]; del self.A[k]`:
           v is the stored value and the entry is gone when the statement completes, i.e. before the errbacks run.
       F2c `self.A.setdefault(k, []).append(d)`  for  `if k not in self.A: self.A[k] = []` + `self.A[k].append(d)`:
           afterwards self.A[k] is the previously stored list (or a new one) with d appended; the unused `[]` is
           unobservable.
       F2d `for k, v in list(self.A.items()): if v is X: del self.A[k]`  for
           `for k in list(self.A.keys()): if self.A[k] is X: del self.A[k]`: the snapshot holds the same pairs and
           the body deletes only the current key, so the value read later by the reference form is the snapshot's
           value; side condition: the loop body is exactly that `if`, v is a fresh local.
     Not accepted: any of these on an attribute whose stores are not all `{}` displays.
"""
import ast
from translate import pylite as P

PROPERTIES = ["C14"]
OUTPUTS = ["ConvergeGen.v"]

U = P.Untranslatable


def un(n):
    return ast.unparse(n)


# ---------------------------------------------------------------- compareOfferAndExisting
class Walker:
    def __init__(self):
        # python local name -> (gallina term, type)   types: "optZ", "Z", "bool", "optlast", "thr"
        self.atoms = {
            "existing.current_slave_IR": ("e_ir", "optZ"),
            "existing.current_seqnum": ("e_seq", "Z"),
            "self.tub.getIncarnationString()": ("my_ir", "Z"),
            "self.tub._handle_old_duplicate_connections": ("handle_old", "thr"),
            "offer['my-incarnation']": ("o_inc", "optZ"),
            "offer.get('my-incarnation')": ("o_inc", "optZ"),
            "'none'": ("IR_NONE", "Z"),
        }

    def expr(self, e, env):
        s = un(e)
        if isinstance(e, ast.Name) and e.id in env:
            return env[e.id]
        if s in self.atoms:
            return self.atoms[s]
        raise U("compareOfferAndExisting: unrecognised operand %r (line %d)" % (s, e.lineno))

    def cond(self, e, env):
        if isinstance(e, ast.BoolOp):
            f = "orb" if isinstance(e.op, ast.Or) else "andb"
            parts = [self.cond(v, env) for v in e.values]
            out = parts[0]
            for p in parts[1:]:
                out = "(%s %s %s)" % (f, out, p)
            return out
        if isinstance(e, ast.UnaryOp) and isinstance(e.op, ast.Not):
            t, ty = self.expr(e.operand, env)
            if ty == "optZ":          # python truthiness of offer.get(...): None or '' are false
                return "(negb (is_some %s))" % t
            if ty == "bool":
                return "(negb %s)" % t
            raise U("compareOfferAndExisting: `not` on %s" % ty)
        if isinstance(e, ast.Compare) and len(e.ops) == 1:
            op, l, r = e.ops[0], e.left, e.comparators[0]
            if isinstance(op, (ast.In, ast.NotIn)) and un(r) == "offer":
                if un(l) == "'last-connection'":
                    t = "(is_some_last o_last)"
                elif un(l) == "'my-incarnation'":
                    t = "(is_some o_inc)"
                else:
                    raise U("compareOfferAndExisting: membership test on key %s" % un(l))
                return t if isinstance(op, ast.In) else "(negb %s)" % t
            if isinstance(op, (ast.IsNot, ast.Is)) and un(r) == "False":
                t, ty = self.expr(l, env)
                if ty != "thr":
                    raise U("compareOfferAndExisting: `is not False` on %s" % ty)
                return "(is_some %s)" % t if isinstance(op, ast.IsNot) else "(negb (is_some %s))" % t
            a, ta = self.expr(l, env)
            b, tb = self.expr(r, env)
            if ta == "optZ" or tb == "optZ":
                if ta == "Z":
                    a = "(Some %s)" % a
                if tb == "Z":
                    b = "(Some %s)" % b
                if isinstance(op, ast.Eq):
                    return "(optZ_eqb %s %s)" % (a, b)
                if isinstance(op, ast.NotEq):
                    return "(negb (optZ_eqb %s %s))" % (a, b)
                raise U("compareOfferAndExisting: ordering comparison on strings")
            if ta == tb == "Z":
                tab = {ast.Eq: "Z.eqb", ast.Lt: "Z.ltb", ast.LtE: "Z.leb", ast.Gt: "Z.gtb", ast.GtE: "Z.geb"}
                if isinstance(op, ast.NotEq):
                    return "(negb (Z.eqb %s %s))" % (a, b)
                for k, f in tab.items():
                    if isinstance(op, k):
                        return "(%s %s %s)" % (f, a, b)
            raise U("compareOfferAndExisting: comparison %s" % un(e))
        raise U("compareOfferAndExisting: condition %s" % un(e))

    def is_log(self, call):
        return isinstance(call, ast.Call) and (un(call.func) in ("log", "self.log"))

    def block(self, stmts, env):
        if not stmts:
            raise U("compareOfferAndExisting: control can fall off the end of a block")
        st, rest = stmts[0], stmts[1:]
        if isinstance(st, ast.FunctionDef) and st.name == "log":
            return self.block(rest, env)
        if isinstance(st, ast.Expr) and (isinstance(st.value, ast.Constant) or self.is_log(st.value)):
            return self.block(rest, env)
        if isinstance(st, ast.Assign) and len(st.targets) == 1 and isinstance(st.targets[0], ast.Name):
            name, v = st.targets[0].id, st.value
            if self.is_log(v):
                return self.block(rest, env)
            s = un(v)
            env2 = dict(env)
            if s == "offer['last-connection'].split()":
                # KeyError when the header is absent
                env2[name] = ("@pieces", "pieces")
                return "(match o_last with None => Exc \"KeyError\" | Some (last_ir, last_seq) =>\n %s end)" % self.block(rest, env2)
            if isinstance(v, ast.Subscript) and isinstance(v.value, ast.Name) and env.get(v.value.id, (0, 0))[1] == "pieces" \
                    and isinstance(v.slice, ast.Constant) and v.slice.value == 0:
                env2[name] = ("last_ir", "Z")
                return self.block(rest, env2)
            if s.startswith("int(") and isinstance(v, ast.Call) and len(v.args) == 1 and isinstance(v.args[0], ast.Subscript) \
                    and isinstance(v.args[0].value, ast.Name) and env.get(v.args[0].value.id, (0, 0))[1] == "pieces" \
                    and isinstance(v.args[0].slice, ast.Constant) and v.args[0].slice.value == 1:
                env2[name] = ("last_seq", "Z")
                return self.block(rest, env2)
            if s in self.atoms:
                env2[name] = self.atoms[s]
                return self.block(rest, env2)
            raise U("compareOfferAndExisting: assignment %s" % un(st))
        if isinstance(st, ast.If):
            c = self.cond(st.test, env)
            body = self.block(st.body + ([] if ends_in_return(st.body) else rest), dict(env))
            if st.orelse:
                other = self.block(st.orelse + ([] if ends_in_return(st.orelse) else rest), dict(env))
            else:
                other = self.block(rest, dict(env))
            return "(if %s\n then %s\n else %s)" % (c, body, other)
        if isinstance(st, ast.Return):
            v = st.value
            if isinstance(v, ast.Constant) and isinstance(v.value, bool):
                return "Ok %s" % ("true" if v.value else "false")
            if isinstance(v, ast.Call) and un(v.func) == "self.handle_old" and len(v.args) == 4:
                t, ty = self.expr(v.args[2], env)
                if ty != "thr":
                    raise U("compareOfferAndExisting: handle_old called with threshold %s" % un(v.args[2]))
                return "(match %s with Some thr => Ok (handle_old_fn age thr) | None => Exc \"TypeError\" end)" % t
            raise U("compareOfferAndExisting: return %s" % un(st))
        raise U("compareOfferAndExisting: statement %s" % un(st)[:80])


def ends_in_return(stmts):
    return bool(stmts) and isinstance(stmts[-1], (ast.Return, ast.Raise))


def gen_handle_old(mod):
    f = P.find_def(mod, "Negotiation.handle_old")
    body = [s for s in f.body if not (isinstance(s, ast.Expr) and (isinstance(s.value, ast.Constant) or
                                                                  un(getattr(s.value, "func", s.value)) == "self.log"))]
    # age = time.time() - existing.creation_timestamp ; if age < threshold: return False ; return True
    if len(body) != 3 or un(body[0]) != "age = time.time() - existing.creation_timestamp":
        raise U("handle_old changed: " + "; ".join(un(s)[:60] for s in body))
    iff, ret = body[1], body[2]
    if not (isinstance(iff, ast.If) and not iff.orelse and isinstance(iff.test, ast.Compare) and len(iff.test.ops) == 1
            and un(iff.test.left) == "age" and un(iff.test.comparators[0]) == "threshold"):
        raise U("handle_old: test changed: " + un(iff)[:80])
    inner = [s for s in iff.body if isinstance(s, ast.Return)]
    if len(inner) != 1 or not isinstance(inner[0].value, ast.Constant) or not isinstance(ret, ast.Return) \
            or not isinstance(ret.value, ast.Constant):
        raise U("handle_old: returns changed")
    tab = {ast.Lt: "Z.ltb", ast.LtE: "Z.leb", ast.Gt: "Z.gtb", ast.GtE: "Z.geb", ast.Eq: "Z.eqb"}
    op = tab.get(type(iff.test.ops[0]))
    if not op:
        raise U("handle_old: comparison operator")
    b = lambda c: "true" if c.value else "false"
    return "Definition handle_old_fn (age threshold : Z) : bool :=\n if %s age threshold then %s else %s." % (
        op, b(inner[0].value), b(ret.value))


def ncls_for_offer(mod):
    return P.find_class(mod, "Negotiation")


def need(cond, msg):
    if not cond:
        raise U(msg)


def binds_name(mod, name):
    """is `name` bound anywhere in the module (so that it may not be the builtin)?"""
    for n in ast.walk(mod):
        if isinstance(n, ast.Name) and n.id == name and isinstance(n.ctx, (ast.Store, ast.Del)):
            return True
        if isinstance(n, (ast.FunctionDef, ast.AsyncFunctionDef, ast.ClassDef)) and n.name == name:
            return True
        if isinstance(n, ast.arg) and n.arg == name:
            return True
        if isinstance(n, (ast.Import, ast.ImportFrom)):
            for a in n.names:
                if (a.asname or a.name).split(".")[0] == name or a.name == "*":
                    return True
        if isinstance(n, (ast.Global, ast.Nonlocal)) and name in n.names:
            return True
    return False


def strip_bool(test, mod):
    """F1: `bool(E)` in test position is E, when `bool` is the builtin"""
    if isinstance(test, ast.Call) and isinstance(test.func, ast.Name) and test.func.id == "bool" \
            and len(test.args) == 1 and not test.keywords and not isinstance(test.args[0], ast.Starred) \
            and not binds_name(mod, "bool"):
        return test.args[0]
    return test


_plain = {}


def plain_dict_attr(attr):
    """F2 side condition: every store to <obj>.<attr> in the whole package assigns a `{}` display; see the docstring"""
    if attr in _plain:
        return _plain[attr]
    import os
    ok, stores = True, 0
    for root, _, files in os.walk(P.SRC):
        for fn in files:
            if not fn.endswith(".py"):
                continue
            try:
                with open(os.path.join(root, fn)) as f:
                    tree = ast.parse(f.read())
            except (SyntaxError, UnicodeDecodeError):
                ok = False
                continue
            good_targets = set()
            for n in ast.walk(tree):
                if isinstance(n, ast.Assign) and isinstance(n.value, ast.Dict) and not n.value.keys:
                    for t in n.targets:
                        if isinstance(t, ast.Attribute) and t.attr == attr:
                            good_targets.add(id(t))
                            stores += 1
            for n in ast.walk(tree):
                if isinstance(n, ast.Attribute) and n.attr == attr and isinstance(n.ctx, (ast.Store, ast.Del)) \
                        and id(n) not in good_targets:
                    ok = False
                if isinstance(n, ast.Constant) and isinstance(n.value, (str, bytes)):
                    v = n.value if isinstance(n.value, str) else n.value.decode("latin-1")
                    if v == attr:
                        ok = False
    _plain[attr] = ok and stores >= 1
    return _plain[attr]


def generate():
    mod = P.load("negotiate.py")
    out = [P.PRELUDE % dict(src="negotiate.py, connection.py, pb.py, broker.py")]
    out.append("""Definition IR_NONE : Z := 0.   (* the literal "none" *)
Definition is_some {A} (o : option A) : bool := match o with Some _ => true | None => false end.
Definition is_some_last (o : option (Z * Z)) : bool := match o with Some _ => true | None => false end.
Definition optZ_eqb (a b : option Z) : bool :=
  match a, b with Some x, Some y => Z.eqb x y | None, None => true | _, _ => false end.""")
    out.append(gen_handle_old(mod))
    f = P.find_def(mod, "Negotiation.compareOfferAndExisting")
    need([a.arg for a in f.args.args] == ["self", "offer", "existing", "lp"], "compareOfferAndExisting: parameters changed")
    body = Walker().block(f.body, {})
    out.append("(* o_inc: offer.get('my-incarnation') (None = missing or empty); o_last: parsed 'last-connection';\n"
               "   e_ir/e_seq: existing.current_slave_IR/current_seqnum; my_ir: tub.getIncarnationString();\n"
               "   handle_old: None = False, Some threshold; age: time.time() - existing.creation_timestamp *)\n"
               "Definition compare_offer (o_inc : option Z) (o_last : option (Z * Z)) (e_ir : option Z) (e_seq : Z)\n"
               "   (my_ir : Z) (handle_old : option Z) (age : Z) : res bool :=\n %s." % body)

    # ---- shape facts, evaluateNegotiationVersion1 (master side)
    ev1 = P.find_def(mod, "Negotiation.evaluateNegotiationVersion1")
    src = un(ev1)
    for frag in ("if theirTubRef and theirTubRef in self.tub.brokers:",
                 "existing = self.tub.brokers[theirTubRef]",
                 "acceptOffer = self.compareOfferAndExisting(offer, existing, lp)",
                 "existing.shutdown(why)",
                 "raise DuplicateConnection('Duplicate connection')",
                 "old_seqnum = self.tub.master_table.get(theirTubRef.getTubID(), 0)",
                 "self.tub.master_table[theirTubRef.getTubID()] = new_seqnum",
                 "new_slave_IR = offer.get('my-incarnation', None)",
                 "decision['current-connection'] = '%s %s' % (my_IR, new_seqnum)",
                 "params['current-slave-IR'] = new_slave_IR",
                 "params['current-seqnum'] = new_seqnum",
                 "self.sendDecision(decision, params)"):
        need(frag in src, "evaluateNegotiationVersion1 no longer contains: " + frag)
    # the accept/reject polarity:  if acceptOffer: shutdown existing  else: raise DuplicateConnection
    ifs = [n for n in ast.walk(ev1) if isinstance(n, ast.If) and un(n.test) == "acceptOffer"]
    need(len(ifs) == 1 and "existing.shutdown(why)" in un(ast.Module(body=ifs[0].body, type_ignores=[]))
         and any(isinstance(s, ast.Raise) for s in ifs[0].orelse), "evaluateNegotiationVersion1: `if acceptOffer` shape changed")
    # the bump
    bumps = [n for n in ast.walk(ev1) if isinstance(n, ast.Assign) and un(n.targets[0]) == "new_seqnum"]
    need(len(bumps) == 1 and isinstance(bumps[0].value, ast.BinOp) and un(bumps[0].value.left) == "old_seqnum"
         and isinstance(bumps[0].value.right, ast.Constant), "new_seqnum is no longer old_seqnum (+|-) constant")
    k = bumps[0].value.right.value
    sign = {ast.Add: 1, ast.Sub: -1}.get(type(bumps[0].value.op))
    need(sign is not None and isinstance(k, int), "new_seqnum computed with an unexpected operator")
    out.append("Definition seqnum_step : Z := %d.   (* new_seqnum = old_seqnum + this *)" % (sign * k))
    out.append("Definition master_table_default : Z := 0.")

    # ---- slave side
    acc = un(P.find_def(mod, "Negotiation.acceptDecisionVersion1"))
    for frag in ("if self.theirTubRef in self.tub.brokers:",
                 "self.tub.brokers[self.theirTubRef].shutdown(why)",
                 "current_connection = decision.get('current-connection')",
                 "self.tub.slave_table[tubID] = tuple(current_connection.split())"):
        need(frag in acc, "acceptDecisionVersion1 no longer contains: " + frag)
    # under which conditions is the decision recorded in slave_table?  (translated: slave_table_recorded_always)
    accd = P.find_def(mod, "Negotiation.acceptDecisionVersion1")
    par = {}
    for n in ast.walk(accd):
        for ch in ast.iter_child_nodes(n):
            par[ch] = n
    recs = [n for n in ast.walk(accd) if isinstance(n, ast.Assign) and un(n.targets[0]).startswith("self.tub.slave_table[")]
    need(len(recs) == 1, "acceptDecisionVersion1: expected exactly one write to slave_table, found %d" % len(recs))
    guards = []
    n = recs[0]
    while par.get(n) is not accd:
        up = par[n]
        if isinstance(up, ast.If):
            need(n in up.body, "acceptDecisionVersion1: slave_table is written in an else-branch")
            guards.append(un(up.test))
        else:
            need(False, "acceptDecisionVersion1: slave_table write is nested in %s" % type(up).__name__)
        n = up
    keydefs = [un(a.value) for a in ast.walk(accd) if isinstance(a, ast.Assign) and un(a.targets[0]) == "tubID"]
    need(len(keydefs) == 1 and keydefs[0] in ("self.theirTubRef.getTubID()", "self.target.getTubID()"),
         "acceptDecisionVersion1: slave_table key changed: %s" % keydefs)
    if sorted(guards) == ["current_connection"] and keydefs[0] == "self.theirTubRef.getTubID()":
        always = True
    elif sorted(guards) == ["current_connection", "self.isClient"]:
        always = False
    else:
        raise U("acceptDecisionVersion1: slave_table is written under conditions %s with key %s" % (guards, keydefs[0]))
    out.append("Definition slave_table_recorded_always : bool := %s.   (* acceptDecisionVersion1 records current-connection whoever "
               "dialled (false: only when this side was the client) *)" % ("true" if always else "false"))
    ic = un(P.find_def(mod, "Negotiation.initClient"))
    for frag in ("slave_record = self.tub.slave_table.get(tubID, ('none', 0))",
                 "self.negotiationOffer['last-connection'] = '%s %s' % slave_record"):
        need(frag in ic, "initClient no longer contains: " + frag)
    need("last-connection" not in un(P.find_def(mod, "Negotiation.initServer")), "initServer now sends last-connection")
    sh = un(P.find_def(mod, "Negotiation.sendHello"))
    need("hello['my-incarnation'] = IR" in sh and "IR = self.tub.getIncarnationString()" in sh, "sendHello changed")
    sw = un(P.find_def(mod, "Negotiation.switchToBanana"))
    i1 = sw.find("self.connector.connectorNegotiationComplete(self, self.factory.location)")
    i2 = sw.find("self.tub.brokerAttached(theirTubRef, b, self.isClient)")
    need(0 <= i1 < i2, "switchToBanana: connectorNegotiationComplete / brokerAttached order changed")
    nf = un(P.find_def(mod, "Negotiation.negotiationFailed"))
    need("if self.receive_phase != ABANDONED and self.isClient:" in nf and
         "eventually(self.connector.connectorNegotiationFailed, self, self.factory.location, reason)" in nf,
         "negotiationFailed no longer tells the connector")

    # ---- the offer dict of a Negotiation: built per instance (fresh) or an alias of a shared object?
    # initClient stores the last-connection record of ITS target in self.negotiationOffer and sendHello reads it one round
    # trip later; with several outbound negotiations under way (two hints, or a second peer) a shared dict would make a hello
    # carry the record written for another target (lib/ConvergeLayers.v, offers)
    ini = P.find_def(mod, "Negotiation.__init__")
    offs = [n for n in ast.walk(ini) if isinstance(n, ast.Assign) and any(un(t) == "self.negotiationOffer" for t in n.targets)]
    need(len(offs) == 1 and len(offs[0].targets) == 1, "Negotiation.__init__: expected exactly one assignment to self.negotiationOffer")
    v = offs[0].value
    if isinstance(v, (ast.Dict, ast.DictComp)):
        fresh = True
    elif isinstance(v, ast.Call) and ((isinstance(v.func, ast.Name) and v.func.id == "dict" and not binds_name(mod, "dict")) or
                                      (isinstance(v.func, ast.Attribute) and v.func.attr == "copy" and not v.args)):
        fresh = True
    elif isinstance(v, (ast.Name, ast.Attribute)):
        fresh = False                      # an alias of an object that outlives the instance
    else:
        raise U("Negotiation.__init__: cannot tell whether self.negotiationOffer = %s is a fresh dict" % un(v)[:60])
    for fn in ast.walk(ncls_for_offer(mod)):
        if isinstance(fn, ast.FunctionDef) and fn.name != "__init__":
            for n in ast.walk(fn):
                if isinstance(n, ast.Assign) and any(un(t) == "self.negotiationOffer" for t in n.targets):
                    raise U("Negotiation.%s rebinds self.negotiationOffer" % fn.name)
    out.append("Definition offer_dict_fresh : bool := %s.   (* Negotiation.__init__ builds self.negotiationOffer per instance *)"
               % ("true" if fresh else "false"))
    need("hello = self.negotiationOffer.copy()" in sh, "sendHello no longer builds the hello from self.negotiationOffer")
    need("self.negotiationOffer['last-connection'] = '%s %s' % slave_record" in ic, "initClient no longer stores last-connection in its offer")

    # ---- the server side's own negotiation timer (virtual time in the model: lib/Converge.v do_advance)
    ncls = P.find_class(mod, "Negotiation")
    nconsts = P.module_consts(mod, body=ncls.body)
    need(isinstance(nconsts.get("SERVER_TIMEOUT"), int), "Negotiation.SERVER_TIMEOUT is not an integer literal")
    out.append("Definition SERVER_TIMEOUT : Z := %d." % nconsts["SERVER_TIMEOUT"])
    cms = un(P.find_def(mod, "Negotiation.connectionMadeServer"))
    need("timeout = self._test_options.get('server_timeout', self.SERVER_TIMEOUT)" in cms and
         "self.negotiationTimer = reactor.callLater(timeout, self.negotiationTimedOut)" in cms,
         "connectionMadeServer no longer arms the negotiation timer")
    need("negotiationTimer" not in un(P.find_def(mod, "Negotiation.connectionMadeClient")),
         "connectionMadeClient now arms a negotiation timer")
    nto = un(P.find_def(mod, "Negotiation.negotiationTimedOut"))
    need("self.transport.loseConnection()" in nto, "negotiationTimedOut no longer closes the connection")
    need("self.stopNegotiationTimer()" in sw and "self.stopNegotiationTimer()" in nf,
         "the negotiation timer is no longer stopped by switchToBanana / negotiationFailed")

    # ---- broker.py: shutdown detaches at once; parameters kept for the comparison
    bm = P.load("broker.py")
    sd = un(P.find_def(bm, "Broker.shutdown"))
    need(sd.find("self.finish(why)") >= 0 and sd.find("self.finish(why)") < sd.find("self.transport.loseConnection()"),
         "Broker.shutdown no longer finishes before closing")
    fin = un(P.find_def(bm, "Broker.finish"))
    need("self.tub.brokerDetached(self, why)" in fin, "Broker.finish no longer detaches from the Tub")
    bi = un(P.find_def(bm, "Broker.__init__"))
    need("self.current_slave_IR = params.get('current-slave-IR')" in bi and
         "self.current_seqnum = params.get('current-seqnum')" in bi, "Broker no longer keeps slave IR / seqnum")
    need("self.finish(why)" in un(P.find_def(bm, "Broker.connectionLost")), "Broker.connectionLost no longer finishes")
    need("self.creation_timestamp = time.time()" in bi, "Broker.__init__ no longer records its creation time")

    # ---- connection.py
    cm = P.load("connection.py")
    cls = P.find_class(cm, "TubConnector")
    consts = P.module_consts(cm, body=cls.body)
    need(isinstance(consts.get("CONNECTION_TIMEOUT"), int), "TubConnector.CONNECTION_TIMEOUT is not an integer literal")
    out.append("Definition CONNECTION_TIMEOUT : Z := %d." % consts["CONNECTION_TIMEOUT"])
    cn = un(P.find_def(cm, "TubConnector.connect"))
    need("timeout = self.tub._test_options.get('connect_timeout', self.CONNECTION_TIMEOUT)" in cn and
         "self.timer = reactor.callLater(timeout, self.connectionTimedOut)" in cn, "TubConnector.connect no longer arms the timer")
    to = un(P.find_def(cm, "TubConnector.connectionTimedOut"))
    need(0 <= to.find("self.shutdown()") < to.find("self.failed()"), "connectionTimedOut no longer does shutdown(); failed()")
    fl = un(P.find_def(cm, "TubConnector.failed"))
    need("self.tub.connectionFailed(self.target, self.failureReason)" in fl, "TubConnector.failed no longer tells the Tub")
    cf = P.find_def(cm, "TubConnector.checkForFailure")
    tests = [un(strip_bool(n.test, cm)) for n in cf.body if isinstance(n, ast.If)]
    need(tests[:2] == ["not self.active", "self.remainingLocations or self.pendingConnections or self.pendingNegotiations"]
         and un(cf.body[-1]) == "self.failed()", "checkForFailure changed: %s" % tests)
    done = un(P.find_def(cm, "TubConnector.connectorNegotiationComplete"))
    need("self.active = False" in done and "self.cancelRemainingConnections()" in done, "connectorNegotiationComplete changed")
    nfail = un(P.find_def(cm, "TubConnector.connectorNegotiationFailed"))
    need(0 <= nfail.find("self.pendingNegotiations.pop(n, None)") < nfail.find("self.checkForFailure()"),
         "connectorNegotiationFailed changed")
    crd = P.find_def(cm, "TubConnector.cancelRemainingConnections")
    loops = [n for n in crd.body if isinstance(n, ast.For) and "n.transport.loseConnection()" in un(n)]
    need(len(loops) == 1 and un(loops[0].target) == "n" and not loops[0].orelse and
         [un(x) for x in loops[0].body if not (isinstance(x, ast.Expr) and isinstance(x.value, ast.Constant))] ==
         ["n.transport.loseConnection()"], "cancelRemainingConnections changed")
    it = un(loops[0].iter)
    need(it == "list(self.pendingNegotiations.keys())" or
         (it == "list(self.pendingNegotiations)" and plain_dict_attr("pendingNegotiations") and not binds_name(cm, "list")),
         "cancelRemainingConnections iterates over %s" % it)        # F2a

    # ---- pb.py
    pm = P.load("pb.py")
    ba = P.find_def(pm, "Tub.brokerAttached")
    bas = un(ba)
    for frag in ("if tubref in self.tubConnectors:", "if not isClient:", "self.tubConnectors[tubref].shutdown()",
                 "del self.tubConnectors[tubref]", "self.brokers[tubref] = broker",
                 "for d in self.waitingForBrokers[tubref]:", "eventual.eventually(d.callback, broker)",
                 "del self.waitingForBrokers[tubref]"):
        need(frag in bas, "Tub.brokerAttached no longer contains: " + frag)
    # Tub.connectionFailed: three effects -- forget the connector, skip when an inbound Broker exists, errback every
    # waiter.  Application errbacks run synchronously inside d.errback and may call getReference again, so the ORDER
    # "forget the connector" vs "errback" is behaviour: it is translated (connection_failed_forgets_first).
    cfd = P.find_def(pm, "Tub.connectionFailed")
    need([a.arg for a in cfd.args.args] == ["self", "tubref", "why"], "Tub.connectionFailed: parameters changed")
    forget, errb, guard_ok = [], [], []
    parent = {}
    for n in ast.walk(cfd):
        for ch in ast.iter_child_nodes(n):
            parent[ch] = n
    for n in ast.walk(cfd):
        if isinstance(n, ast.Delete) and un(n.targets[0]) == "self.tubConnectors[tubref]":
            forget.append(n)
        if isinstance(n, ast.Call) and un(n.func) == "self.tubConnectors.pop" and n.args and un(n.args[0]) == "tubref":
            forget.append(n)
        if isinstance(n, ast.Call) and un(n.func) == "d.errback" and [un(a) for a in n.args] == ["why"]:
            errb.append(n)
    need(len(forget) == 1 and len(errb) == 1, "Tub.connectionFailed: expected one removal of the connector and one errback, found %d/%d"
         % (len(forget), len(errb)))
    # the errback sits in a loop over the detached waiting list
    loop = parent[parent[errb[0]]] if isinstance(parent[errb[0]], ast.Expr) else None
    need(isinstance(loop, ast.For) and un(loop.target) == "d" and
         un(loop.iter) in ("waiting", "self.waitingForBrokers.pop(tubref, [])"), "Tub.connectionFailed: errback loop changed")
    if un(loop.iter) == "waiting":
        body = parent[loop].body if isinstance(parent[loop], ast.If) else parent[loop].body
        k = body.index(loop)
        before = [un(x) for x in body[:k]]
        ref_form = before[-2:] == ["waiting = self.waitingForBrokers[tubref]", "del self.waitingForBrokers[tubref]"]
        pop_form = (before[-1:] == ["waiting = self.waitingForBrokers.pop(tubref)"] and isinstance(parent[loop], ast.If)
                    and un(parent[loop].test) == "tubref in self.waitingForBrokers" and plain_dict_attr("waitingForBrokers"))   # F2b
        need(ref_form or pop_form, "Tub.connectionFailed: the waiting list is no longer detached before the errbacks")
    # ... and is skipped exactly when a Broker exists
    src_cf = un(cfd)
    need(("if tubref in self.brokers:\n        return" in src_cf and src_cf.find("if tubref in self.brokers:") < src_cf.find("d.errback(why)"))
         or any(isinstance(a, ast.If) and un(a.test) == "tubref not in self.brokers" for a in [parent.get(loop), parent.get(parent.get(loop))]),
         "Tub.connectionFailed: the errbacks are no longer skipped exactly when an inbound Broker exists")
    # the removal is unconditional (or guarded only by membership)
    g = parent[forget[0]]
    if isinstance(g, ast.Expr):
        g = parent[g]
    need(g is cfd or (isinstance(g, ast.If) and un(g.test) == "tubref in self.tubConnectors" and parent[g] is cfd),
         "Tub.connectionFailed: the connector is no longer forgotten unconditionally")
    first = forget[0].lineno < errb[0].lineno
    out.append("Definition connection_failed_forgets_first : bool := %s.   (* Tub.connectionFailed: tubConnectors entry removed "
               "before the waiters are errbacked *)" % ("true" if first else "false"))
    gbd = P.find_def(pm, "Tub.getBrokerForTubRef")
    gb = un(gbd)
    for frag in ("if tubref in self.brokers:", "return defer.succeed(self.brokers[tubref])",
                 "if tubref not in self.tubConnectors:", "c.connect()"):
        need(frag in gb, "Tub.getBrokerForTubRef no longer contains: " + frag)
    stmts = [un(x) for x in gbd.body]
    reg_ref = any(stmts[i:i + 2] == ["if tubref not in self.waitingForBrokers:\n    self.waitingForBrokers[tubref] = []",
                                     "self.waitingForBrokers[tubref].append(d)"] for i in range(len(stmts)))
    reg_sd = "self.waitingForBrokers.setdefault(tubref, []).append(d)" in stmts and plain_dict_attr("waitingForBrokers")   # F2c
    need(reg_ref or reg_sd, "Tub.getBrokerForTubRef no longer registers the waiter in waitingForBrokers[tubref]")
    # the connector is registered in tubConnectors before it starts connecting (whatever the local is called)
    starts = [n for n in gbd.body if isinstance(n, ast.If) and un(n.test) == "tubref not in self.tubConnectors"]
    need(len(starts) == 1, "Tub.getBrokerForTubRef: connector start changed")
    sb = [x for x in starts[0].body if not isinstance(x, ast.Assert)]
    need(len(sb) == 3 and isinstance(sb[0], ast.Assign) and isinstance(sb[0].targets[0], ast.Name)
         and un(sb[0].value) == "connection.TubConnector(self, tubref, self._connectionHandlers)"
         and un(sb[1]) == "self.tubConnectors[tubref] = %s" % sb[0].targets[0].id
         and un(sb[2]) == "%s.connect()" % sb[0].targets[0].id, "Tub.getBrokerForTubRef: connector start changed: %s" % [un(x) for x in sb])
    for a in starts[0].body:
        if isinstance(a, ast.Assert):      # an assert restating the guard it sits under is a no-op
            need(un(a.test) == "tubref not in self.tubConnectors" and starts[0].body.index(a) == 0,
                 "Tub.getBrokerForTubRef: unexpected assert")
    # Tub.startService releases the lookups queued before the start: each relay must deliver to ITS OWN Deferred.
    # The relays run in a later turn (fireEventually), so a callable created in the loop must not read the loop
    # variables `d` / `sturdy` as free variables (late binding): they have to be bound per iteration (default
    # argument) or passed as arguments.
    ssd = P.find_def(pm, "Tub.startService")
    qloops = [n for n in ssd.body if isinstance(n, ast.For) and un(n.iter) == "self._pending_getReferences"]
    need(len(qloops) == 1 and isinstance(qloops[0].target, ast.Tuple) and all(isinstance(e, ast.Name) for e in qloops[0].target.elts),
         "Tub.startService: the loop over the queued getReference calls changed")
    loopvars = {e.id for e in qloops[0].target.elts} | {t.id for st in qloops[0].body if isinstance(st, ast.Assign)
                                                        for t in st.targets if isinstance(t, ast.Name)}
    dname = qloops[0].target.elts[0].id          # the queued Deferred
    late = set()
    for fn in ast.walk(qloops[0]):
        if isinstance(fn, (ast.Lambda, ast.FunctionDef)):
            bound = {a.arg for a in fn.args.args + fn.args.kwonlyargs} | ({fn.args.vararg.arg} if fn.args.vararg else set()) \
                | ({fn.args.kwarg.arg} if fn.args.kwarg else set())
            body = fn.body if isinstance(fn.body, list) else [fn.body]
            free = {n.id for b in body for n in ast.walk(b) if isinstance(n, ast.Name) and isinstance(n.ctx, ast.Load)} - bound
            late |= free & loopvars
    # translated: does each relay deliver to the Deferred of ITS OWN iteration (bound per iteration), or -- read late, in a
    # later turn -- to the one of the last iteration?  (lib/ConvergeLayers.v, prestart)
    need(late <= {dname}, "Tub.startService: a callback created in the loop over the queued lookups reads the loop "
         "variable(s) %s late (free variable of a callable that runs in a later turn)" % sorted(late - {dname}))
    out.append("Definition relay_binds_own_deferred : bool := %s.   (* Tub.startService: the relay of a queued getReference is "
               "bound to the Deferred of its own iteration *)" % ("false" if late else "true"))
    need("self.getReference" in un(qloops[0]) and ".callback(" in un(qloops[0]),
         "Tub.startService: queued lookups are no longer relayed through getReference to their Deferred")
    bdd = P.find_def(pm, "Tub.brokerDetached")
    loops = [n for n in bdd.body if isinstance(n, ast.For)]
    need(len(loops) == 1 and not loops[0].orelse and len(loops[0].body) == 1, "Tub.brokerDetached changed")
    lp, inner = loops[0], un(loops[0].body[0])
    det_ref = (un(lp.target) == "tubref" and un(lp.iter) == "list(self.brokers.keys())"
               and inner == "if self.brokers[tubref] is broker:\n    del self.brokers[tubref]")
    det_items = (isinstance(lp.target, ast.Tuple) and len(lp.target.elts) == 2 and un(lp.target.elts[0]) == "tubref"
                 and isinstance(lp.target.elts[1], ast.Name) and lp.target.elts[1].id not in ("broker", "tubref", "self", "why")
                 and un(lp.iter) == "list(self.brokers.items())"
                 and inner == "if %s is broker:\n    del self.brokers[tubref]" % lp.target.elts[1].id
                 and plain_dict_attr("brokers") and not binds_name(pm, "list"))                                        # F2d
    need(det_ref or det_items, "Tub.brokerDetached changed")
    # ---- the SECOND LEG of getReference (lib/RefLeg.v, lib/ConvergeRef.v): the Deferred handed out is the Broker lookup's,
    # with ONE callback that makes ONE remote call on the Broker it is given; Broker.finish is reached from connectionLost
    # and shutdown only; and an established connection has no idle-disconnect timer unless the application asks for one
    # (C14_established_end_has_no_timer: `Advance` never ends a live Broker end)
    gr = un(P.find_def(pm, "Tub._getReference"))
    need(gr.rstrip().endswith("d = self.getBrokerForTubRef(sturdy.getTubRef())\n    d.addCallback(lambda b: b.getYourReferenceByName(name))\n    return d"),
         "Tub._getReference no longer is getBrokerForTubRef + one getYourReferenceByName callback")
    gy = un(P.find_def(bm, "Broker.getYourReferenceByName"))
    need(gy.count("callRemote(") == 1 and gy.rstrip().endswith("d = self.remote_broker.callRemote('getReferenceByName', name=name)\n    return d"),
         "Broker.getYourReferenceByName no longer is one callRemote('getReferenceByName')")
    callers = sorted(f.name for f in ast.walk(P.find_class(bm, "Broker")) if isinstance(f, ast.FunctionDef)
                     and any(isinstance(c, ast.Call) and un(c.func) == "self.finish" for c in ast.walk(f)))
    need(callers == ["connectionLost", "shutdown"], "Broker.finish is called from %s" % callers)
    tconsts = P.module_consts(pm, body=P.find_class(pm, "Tub").body)
    need("disconnectTimeout" in tconsts and tconsts["disconnectTimeout"] is None,
         "Tub.disconnectTimeout has a default: an established connection now has an idle-disconnect timer the model lacks")
    return {"ConvergeGen.v": "\n\n".join(out) + "\n"}
