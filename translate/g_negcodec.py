"""C13: the negotiation message codec and the phase dispatch of negotiate.py, translated statement by statement.

  * Negotiation.parseLines and Negotiation.sendBlock -> Gallina terms over the byte-string primitives of coq/lib/NegCodec.v
    (bytes.split / index / lower / lstrip, slices, six.ensure_str / ensure_binary, str(), dict stores and loads, list(d.keys()),
    .sort() / sorted(), `for x in xs`, transport.write).  Evaluation order is Python's (right-hand side of a subscript store
    before its key); every primitive that can raise is sequenced with `bind`.  The loop bodies become named definitions so that
    the proofs can characterise them by case analysis on the primitives (independent of the arrangement of temporaries).
  * the keys and field formats of the hello and decision blocks, as written (Negotiation.__init__, sendHello,
    evaluateNegotiationVersion1) and as read (evaluateHello, evaluateNegotiationVersion1, acceptDecision,
    acceptDecisionVersion1): lib/NegWireProofs.v proves that what is read is what is written.
  * the dispatch of Negotiation.dataReceived on (receive_phase, isClient), the guard that ignores input once ABANDONED, the
    way the catch-all reports by send_phase, the constant version stamped on an error block, every store to receive_phase /
    send_phase in the class, and the acceptDecisionVersion<N> / evaluateNegotiationVersion<N> methods the class has.
Everything not recognised raises Untranslatable (fail closed)."""
import ast, re
from translate import pylite as P

PROPERTIES = ["C13", "C05"]
OUTPUTS = ["NegCodecGen.v"]

BYTES, STR, ZT, LINES, DICT, KEYS = "bytes", "str", "Z", "lines", "dict", "keys"


def blit(b):
    return "[" + "; ".join(str(x) for x in b) + "]"


class Codec:
    """symbolic execution of one small method into a Gallina term of type `res T`"""

    def __init__(self, fdef, params, out_sink=None):
        self.f = fdef
        self.params = params          # name -> type
        self.sink = out_sink          # name of the implicit output variable (transport.write), or None
        self.fresh = 0
        self.aux = []                 # named loop bodies
        self.name = fdef.name

    def tmp(self):
        self.fresh += 1
        return "t%d" % self.fresh

    # expression -> (binds [(var, res-term)], pure term, type); binds are in evaluation order
    def ex(self, e, env):
        if isinstance(e, ast.Name):
            if e.id not in env:
                P.bail(e, "unbound name")
            return [], e.id, env[e.id]
        if isinstance(e, ast.Constant):
            if isinstance(e.value, bytes):
                return [], blit(e.value), BYTES
            if isinstance(e.value, bool) or not isinstance(e.value, int):
                P.bail(e, "constant")
            return [], P.zlit(e.value), ZT
        if isinstance(e, ast.BinOp) and isinstance(e.op, ast.Add):
            b1, a, ta = self.ex(e.left, env)
            b2, b, tb = self.ex(e.right, env)
            if ta == ZT and tb == ZT:
                return b1 + b2, "(%s + %s)" % (a, b), ZT
            if ta == BYTES and tb == BYTES:
                return b1 + b2, "(%s ++ %s)" % (a, b), BYTES
            P.bail(e, "operands of +")
        if isinstance(e, ast.Subscript):
            bs, v, tv = self.ex(e.value, env)
            if isinstance(e.slice, ast.Slice):
                if tv != BYTES or e.slice.step is not None:
                    P.bail(e, "slice")
                lo = hi = None
                if e.slice.lower is not None:
                    b2, lo, tl = self.ex(e.slice.lower, env)
                    if tl != ZT:
                        P.bail(e, "slice bound")
                    bs = bs + b2
                if e.slice.upper is not None:
                    b3, hi, th = self.ex(e.slice.upper, env)
                    if th != ZT:
                        P.bail(e, "slice bound")
                    bs = bs + b3
                return bs, "(py_slice %s %s %s)" % (v, "(Some %s)" % lo if lo else "None", "(Some %s)" % hi if hi else "None"), BYTES
            if tv == DICT:
                b2, k, tk = self.ex(e.slice, env)
                if tk != STR:
                    P.bail(e, "dict key type")
                t = self.tmp()
                return bs + b2 + [(t, "dget_res %s %s" % (v, k))], t, STR
            P.bail(e, "subscript")
        if isinstance(e, ast.Call) and not e.keywords:
            f = e.func
            # six.ensure_str / six.ensure_binary / str / list / sorted
            if isinstance(f, ast.Attribute) and isinstance(f.value, ast.Name) and f.value.id == "six" and len(e.args) == 1:
                bs, a, ta = self.ex(e.args[0], env)
                if f.attr == "ensure_str":
                    if ta == STR:
                        return bs, a, STR
                    if ta == BYTES:
                        t = self.tmp()
                        return bs + [(t, "ensure_str %s" % a)], t, STR
                if f.attr == "ensure_binary" and ta in (STR, BYTES):
                    return bs, a, BYTES
                P.bail(e, "six call")
            if isinstance(f, ast.Name) and len(e.args) == 1:
                bs, a, ta = self.ex(e.args[0], env)
                if f.id == "str" and ta == STR:
                    return bs, a, STR
                if f.id == "list" and ta == KEYS:
                    return bs, a, KEYS
                if f.id == "sorted" and ta == KEYS:
                    return bs, "(sort_keys %s)" % a, KEYS
                P.bail(e, "call of %s" % f.id)
            if isinstance(f, ast.Attribute):
                bs, v, tv = self.ex(f.value, env)
                m = f.attr
                if m == "split" and tv == BYTES and len(e.args) == 1 and isinstance(e.args[0], ast.Constant) \
                        and isinstance(e.args[0].value, bytes) and e.args[0].value:
                    return bs, "(bytes_split %s %s)" % (blit(e.args[0].value), v), LINES
                if m == "index" and tv == BYTES and len(e.args) == 1 and isinstance(e.args[0], ast.Constant) \
                        and isinstance(e.args[0].value, bytes) and e.args[0].value:
                    t = self.tmp()
                    return bs + [(t, "bytes_index %s %s" % (v, blit(e.args[0].value)))], t, ZT
                if m == "lower" and not e.args and tv in (BYTES, STR):
                    # str.lower on the UTF-8 form: exact for ASCII keys (every key the package writes is an ASCII literal)
                    return bs, "(bytes_lower %s)" % v, tv
                if m == "lstrip" and not e.args and tv == BYTES:
                    return bs, "(bytes_lstrip %s)" % v, BYTES
                if m == "keys" and not e.args and tv == DICT:
                    return bs, "(dict_keys %s)" % v, KEYS
            P.bail(e, "call")
        P.bail(e, "expression")

    def wrap(self, binds, body):
        for v, t in reversed(binds):
            body = "bind (%s) (fun %s =>\n %s)" % (t, v, body)
        return body

    def assigned(self, stmts):
        out = []
        for st in stmts:
            for n in ast.walk(st):
                nm = None
                if isinstance(n, ast.Assign) and len(n.targets) == 1:
                    t = n.targets[0]
                    nm = t.id if isinstance(t, ast.Name) else t.value.id if isinstance(t, ast.Subscript) and isinstance(t.value, ast.Name) else None
                elif isinstance(n, ast.Expr) and self.is_write(n.value):
                    nm = self.sink
                elif isinstance(n, ast.Expr) and isinstance(n.value, ast.Call) and isinstance(n.value.func, ast.Attribute) \
                        and n.value.func.attr == "sort" and isinstance(n.value.func.value, ast.Name):
                    nm = n.value.func.value.id
                if nm and nm not in out:
                    out.append(nm)
        return out

    def is_write(self, c):
        return (self.sink and isinstance(c, ast.Call) and ast.unparse(c.func) == "self.transport.write" and len(c.args) == 1 and not c.keywords)

    def block(self, stmts, env, k):
        if not stmts:
            return k(env)
        st, rest = stmts[0], stmts[1:]
        nxt = lambda env2: self.block(rest, env2, k)
        if isinstance(st, ast.Expr) and isinstance(st.value, ast.Constant) and isinstance(st.value.value, str):
            return nxt(env)
        if isinstance(st, ast.Assign) and len(st.targets) == 1:
            t = st.targets[0]
            if isinstance(t, ast.Name):
                if isinstance(st.value, ast.Dict) and not st.value.keys:
                    env2 = dict(env)
                    env2[t.id] = DICT
                    return "let %s := (@nil (bytes * bytes)) in\n %s" % (t.id, nxt(env2))
                bs, v, ty = self.ex(st.value, env)
                if t.id in env and env[t.id] != ty:
                    P.bail(st, "variable changes type")
                env2 = dict(env)
                env2[t.id] = ty
                return self.wrap(bs, "let %s := %s in\n %s" % (t.id, v, nxt(env2)))
            if isinstance(t, ast.Subscript) and isinstance(t.value, ast.Name) and env.get(t.value.id) == DICT:
                # Python evaluates the right-hand side first, then the key expression
                b1, v, tv = self.ex(st.value, env)
                b2, kx, tk = self.ex(t.slice, env)
                if tv != STR or tk != STR:
                    P.bail(st, "dict store of %s under %s" % (tv, tk))
                d = t.value.id
                return self.wrap(b1 + b2, "let %s := dset %s %s %s in\n %s" % (d, d, kx, v, nxt(env)))
            P.bail(st, "assignment")
        if isinstance(st, ast.Expr) and isinstance(st.value, ast.Call):
            c = st.value
            if self.is_write(c):
                bs, v, tv = self.ex(c.args[0], env)
                if tv != BYTES:
                    P.bail(st, "transport.write of %s" % tv)
                return self.wrap(bs, "let %s := %s ++ %s in\n %s" % (self.sink, self.sink, v, nxt(env)))
            if isinstance(c.func, ast.Attribute) and c.func.attr == "sort" and not c.args and not c.keywords \
                    and isinstance(c.func.value, ast.Name) and env.get(c.func.value.id) == KEYS:
                n = c.func.value.id
                return "let %s := sort_keys %s in\n %s" % (n, n, nxt(env))
            P.bail(st, "expression statement")
        if isinstance(st, ast.For):
            if st.orelse or not isinstance(st.target, ast.Name):
                P.bail(st, "for form")
            for x in ast.walk(ast.Module(body=st.body, type_ignores=[])):
                if isinstance(x, (ast.Return, ast.Break, ast.Continue, ast.While, ast.For, ast.Try, ast.Raise)):
                    P.bail(x, "control flow inside for")
            bs, seq, ts = self.ex(st.iter, env)
            if ts not in (LINES, KEYS):
                P.bail(st, "iteration over %s" % ts)
            x = st.target.id
            carried = [v for v in self.assigned(st.body) if v in env]
            local = [v for v in self.assigned(st.body) if v not in env] + [x]
            inside = {id(n) for n in ast.walk(st)}
            for n in ast.walk(self.f):
                if isinstance(n, ast.Name) and n.id in local and id(n) not in inside:
                    P.bail(st, "loop-local name %s used outside the loop" % n.id)
            if len(carried) != 1:
                P.bail(st, "loop carries %r" % carried)
            s = carried[0]
            env2 = dict(env)
            env2[x] = STR if ts == KEYS else BYTES
            body = self.block(st.body, env2, lambda e3: "Ok %s" % s)
            used = {n.id for b_ in st.body for n in ast.walk(b_) if isinstance(n, ast.Name)}
            free = [(n, t) for n, t in env.items() if n != s and n in used]
            bname = "%s_body%d" % (self.name, len(self.aux) + 1)
            self.aux.append("Definition %s %s (%s : %s) (%s : bytes) : res (%s) :=\n %s." % (
                bname, " ".join("(%s : %s)" % (n, self.cty(t)) for n, t in free), s, self.cty(env[s]), x, self.cty(env[s]), body))
            call = "(%s %s)" % (bname, " ".join(n for n, _ in free)) if free else bname
            return self.wrap(bs, "bind (for_res %s %s %s) (fun %s =>\n %s)" % (seq, s, call, s, nxt(env)))
        if isinstance(st, ast.Return):
            if st.value is None:
                if self.sink:
                    return "Ok %s" % self.sink
                P.bail(st, "bare return")
            bs, v, tv = self.ex(st.value, env)
            if tv != self.rty:
                P.bail(st, "returns %s" % tv)
            return self.wrap(bs, "Ok %s" % v)
        P.bail(st, "statement")

    @staticmethod
    def cty(t):
        return {BYTES: "bytes", STR: "bytes", ZT: "Z", LINES: "list bytes", KEYS: "list bytes", DICT: "dict"}[t]

    def emit(self, rty):
        self.rty = rty
        env = dict(self.params)
        names = [a.arg for a in self.f.args.args if a.arg != "self"]
        if names != list(self.params) or self.f.args.vararg or self.f.args.kwarg or self.f.args.kwonlyargs or self.f.args.defaults:
            raise P.Untranslatable("%s has parameters %r" % (self.name, names))
        if self.sink:
            env[self.sink] = BYTES

        def fall(env2):
            if self.sink:
                return "Ok %s" % self.sink
            raise P.Untranslatable("%s can fall off its end" % self.name)
        body = self.block(list(self.f.body), env, fall)
        if self.sink:
            body = "let %s := (@nil Z) in\n %s" % (self.sink, body)
        sig = " ".join("(%s : %s)" % (n, self.cty(t)) for n, t in self.params.items())
        main = "Definition %s %s : res (%s) :=\n %s." % (self.name, sig, self.cty(rty), body)
        return "\n\n".join(self.aux + [main])


# ------------------------------------------------------------------------------------------------
def str_const(s):
    return '"%s"%%string' % s.replace('"', '""')


def key_bytes(s):
    return blit(s.encode("utf-8"))


def dict_keys_read(fn, var):
    """every string literal used as a key of dict `var` in fn: var['k'], var.get('k'...), 'k' in var / not in var"""
    out = []
    for n in ast.walk(fn):
        k = None
        if isinstance(n, ast.Subscript) and isinstance(n.value, ast.Name) and n.value.id == var and isinstance(n.ctx, ast.Load) \
                and isinstance(n.slice, ast.Constant) and isinstance(n.slice.value, str):
            k = n.slice.value
        if isinstance(n, ast.Call) and isinstance(n.func, ast.Attribute) and n.func.attr == "get" and isinstance(n.func.value, ast.Name) \
                and n.func.value.id == var and n.args and isinstance(n.args[0], ast.Constant) and isinstance(n.args[0].value, str):
            k = n.args[0].value
        if isinstance(n, ast.Compare) and len(n.ops) == 1 and isinstance(n.ops[0], (ast.In, ast.NotIn)) and isinstance(n.left, ast.Constant) \
                and isinstance(n.left.value, str) and isinstance(n.comparators[0], ast.Name) and n.comparators[0].id == var:
            k = n.left.value
        if k is not None and k not in out:
            out.append(k)
    return out


def dict_stores(fn, var):
    """var['k'] = <expr> stores in fn -> {k: unparsed expr}"""
    out = {}
    for n in ast.walk(fn):
        if isinstance(n, ast.Assign) and len(n.targets) == 1:
            t = n.targets[0]
            if isinstance(t, ast.Subscript) and isinstance(t.value, ast.Name) and t.value.id == var and isinstance(t.slice, ast.Constant) \
                    and isinstance(t.slice.value, str):
                if t.slice.value in out:
                    raise P.Untranslatable("%s[%r] stored twice in %s" % (var, t.slice.value, fn.name))
                out[t.slice.value] = ast.unparse(n.value)
    return out


def generate():
    mod = P.load("negotiate.py")
    out = [P.PRELUDE % dict(src="negotiate.py (message codec, block keys, phase dispatch)"),
           "Require Import Verif.lib.NegCodec."]
    cls = P.find_class(mod, "Negotiation")

    # ---- 1. the codec
    pl = P.find_def(mod, "Negotiation.parseLines")
    out.append(Codec(pl, {"header": BYTES}).emit(DICT))
    sb = P.find_def(mod, "Negotiation.sendBlock")
    out.append(Codec(sb, {"block": DICT}, out_sink="wire").emit(BYTES))

    # ---- 2. keys and formats of the hello block, as written
    init = P.find_def(mod, "Negotiation.__init__")
    offers = [n for n in ast.walk(init) if isinstance(n, ast.Assign) and len(n.targets) == 1
              and ast.unparse(n.targets[0]) == "self.negotiationOffer" and isinstance(n.value, ast.Dict)]
    if len(offers) != 1:
        raise P.Untranslatable("Negotiation.__init__: expected one dict display assigned to self.negotiationOffer")
    offer = {}
    for k, v in zip(offers[0].value.keys, offers[0].value.values):
        if not (isinstance(k, ast.Constant) and isinstance(k.value, str)):
            raise P.Untranslatable("negotiationOffer key is not a string literal")
        offer[k.value] = ast.unparse(v)
    want_offer = {"'%d %d' % (self.minVersion, self.maxVersion)": "hello_key_version_range_written",
                  "'%d %d' % self.initialVocabTableRange": "hello_key_vocab_range_written"}
    seen = {}
    for k, v in offer.items():
        if v in want_offer:
            if want_offer[v] in seen:
                raise P.Untranslatable("two offer keys carry %s" % v)
            seen[want_offer[v]] = k
        else:
            raise P.Untranslatable("negotiationOffer[%r] = %s is not a recognised field" % (k, v))
    if set(seen) != set(want_offer.values()):
        raise P.Untranslatable("negotiationOffer no longer carries both ranges in the '%d %d' form")
    sh = P.find_def(mod, "Negotiation.sendHello")
    hs = dict_stores(sh, "hello")
    tub_keys = [k for k, v in hs.items() if v == "self.myTubID"]
    if len(tub_keys) != 1 or "hello = self.negotiationOffer.copy()" not in ast.unparse(sh) or "self.sendBlock(hello)" not in ast.unparse(sh):
        raise P.Untranslatable("sendHello no longer copies the offer, stores self.myTubID under one key and sends the block")
    seen["hello_key_tubid_written"] = tub_keys[0]
    other_hello = sorted(k for k in hs if k != tub_keys[0])
    # keys written into the hello elsewhere (last-connection in initClient, negotiation-forced): listed, C14's business
    for n in ast.walk(cls):
        if isinstance(n, ast.Assign) and len(n.targets) == 1 and isinstance(n.targets[0], ast.Subscript) \
                and ast.unparse(n.targets[0].value) == "self.negotiationOffer" and isinstance(n.targets[0].slice, ast.Constant):
            other_hello.append(n.targets[0].slice.value)

    # ---- as read: every constant key looked up (d[k], d.get(k), k in d) by the methods that evaluate a hello.  HOW the value is
    #      taken apart (split / int) is the hand-written part of lib/NegWire.v, tied by running the real methods (c13_codec.wire)
    methods = {f.name: f for f in cls.body if isinstance(f, ast.FunctionDef)}

    def keys_read(*quals):
        """over the named methods and every method of the class they reach through self.<m>(...) calls"""
        out = []
        todo = [q.split(".")[1] for q in quals]
        done = []
        while todo:
            nm = todo.pop(0)
            if nm in done or nm not in methods:
                continue
            done.append(nm)
            for n in ast.walk(methods[nm]):
                if isinstance(n, ast.Call) and isinstance(n.func, ast.Attribute) and isinstance(n.func.value, ast.Name) and n.func.value.id == "self":
                    todo.append(n.func.attr)
        for nm in done:
            fn = methods[nm]
            names = {n.id for n in ast.walk(fn) if isinstance(n, ast.Name)}
            for v in sorted(names):
                for k in dict_keys_read(fn, v):
                    if k not in out:
                        out.append(k)
        return out
    evh = P.find_def(mod, "Negotiation.evaluateHello")
    ev1 = P.find_def(mod, "Negotiation.evaluateNegotiationVersion1")
    hello_read = keys_read("Negotiation.handleENCRYPTED", "Negotiation.evaluateHello", "Negotiation.evaluateNegotiationVersion1")
    for role in ("hello_key_version_range_written", "hello_key_vocab_range_written", "hello_key_tubid_written"):
        if seen[role] not in hello_read:
            raise P.Untranslatable("the hello key %r (%s) is not looked up by handleENCRYPTED / evaluateHello / evaluateNegotiationVersion1"
                                   % (seen[role], role))

    # ---- decision block, as written by the decider
    ds = dict_stores(ev1, "decision")
    wantd = {"'%d %s' % (vocab_index, vocab_hash)": "decision_key_vocab_written", "str(self.decision_version)": "decision_key_version_written"}
    for k, v in ds.items():
        if v in wantd:
            seen[wantd[v]] = k
    if "decision_key_vocab_written" not in seen or "decision_key_version_written" not in seen:
        raise P.Untranslatable("evaluateNegotiationVersion1 no longer stores index+hash ('%d %s') and str(decision_version) in the decision")
    other_decision = sorted(k for k, v in ds.items() if v not in wantd)
    # ---- as read by the other side
    dec_read = keys_read("Negotiation.handleDECIDING", "Negotiation.acceptDecision", "Negotiation.acceptDecisionVersion1")
    for role in ("decision_key_vocab_written", "decision_key_version_written"):
        if seen[role] not in dec_read:
            raise P.Untranslatable("the decision key %r (%s) is not looked up by acceptDecision / acceptDecisionVersion1" % (seen[role], role))
    if "error" not in hello_read or "error" not in dec_read:
        raise P.Untranslatable("the 'error' key is no longer looked up by handleENCRYPTED / acceptDecisionVersion1")
    for k in sorted(seen):
        out.append("Definition %s : bytes := %s.  (* %s *)" % (k, key_bytes(seen[k]), seen[k]))
    out.append("Definition error_key : bytes := %s." % key_bytes("error"))
    out.append("Definition hello_keys_read : list bytes := [%s].  (* %s *)" % ("; ".join(key_bytes(k) for k in hello_read), ", ".join(hello_read)))
    out.append("Definition decision_keys_read : list bytes := [%s].  (* %s *)" % ("; ".join(key_bytes(k) for k in dec_read), ", ".join(dec_read)))
    out.append("Definition hello_keys_not_modelled : list string := [%s].  (* carried for C14; not read by the version / vocabulary decision *)"
               % "; ".join(str_const(k) for k in sorted(set(other_hello))))
    out.append("Definition decision_keys_not_modelled : list string := [%s]." % "; ".join(str_const(k) for k in other_decision))

    # ---- 3. dataReceived: guard, dispatch, catch-all
    phases = P.module_consts(mod, ["PLAINTEXT", "ENCRYPTED", "DECIDING", "BANANA", "ABANDONED"])
    for k in ("PLAINTEXT", "ENCRYPTED", "DECIDING", "BANANA", "ABANDONED"):
        out.append("Definition ph_%s : Z := %d." % (k, phases[k]))
    dr = P.find_def(mod, "Negotiation.dataReceived")

    def pcond(e):
        """a test over self.receive_phase / self.isClient -> Gallina bool over (phase, is_client)"""
        if isinstance(e, ast.BoolOp):
            return "(" + (" && " if isinstance(e.op, ast.And) else " || ").join(pcond(v) for v in e.values) + ")"
        if isinstance(e, ast.UnaryOp) and isinstance(e.op, ast.Not):
            return "(negb %s)" % pcond(e.operand)
        u = ast.unparse(e)
        if u == "self.isClient":
            return "is_client"
        if isinstance(e, ast.Compare) and len(e.ops) == 1 and (ast.unparse(e.left) in ("self.receive_phase", "self.send_phase")
                                                               or (isinstance(e.left, ast.Name) and e.left.id in phase_alias)):
            r = e.comparators[0]
            if isinstance(e.ops[0], (ast.Eq, ast.NotEq)) and isinstance(r, ast.Name) and r.id in phases:
                t = "(phase =? %d)" % phases[r.id]
                return t if isinstance(e.ops[0], ast.Eq) else "(negb %s)" % t
            if isinstance(e.ops[0], (ast.In, ast.NotIn)) and isinstance(r, (ast.Tuple, ast.List)) and all(isinstance(x, ast.Name) and x.id in phases for x in r.elts):
                t = "(" + " || ".join("(phase =? %d)" % phases[x.id] for x in r.elts) + ")"
                return t if isinstance(e.ops[0], ast.In) else "(negb %s)" % t
        raise P.Untranslatable("dataReceived: test %s" % u)

    # a local bound once, by `x = self.send_phase` / `x = self.receive_phase`, immediately before the if-chain that tests it
    phase_alias = set()

    def note_aliases(stmts):
        for i, st in enumerate(stmts):
            if (isinstance(st, ast.Assign) and len(st.targets) == 1 and isinstance(st.targets[0], ast.Name)
                    and ast.unparse(st.value) in ("self.send_phase", "self.receive_phase") and i + 1 < len(stmts) and isinstance(stmts[i + 1], ast.If)):
                nm = st.targets[0].id
                if sum(1 for n in ast.walk(dr) if isinstance(n, ast.Name) and n.id == nm and isinstance(n.ctx, ast.Store)) == 1:
                    phase_alias.add(nm)
            for f in ("body", "orelse", "finalbody"):
                sub = getattr(st, f, None)
                if isinstance(sub, list) and sub and isinstance(sub[0], ast.stmt):
                    note_aliases(sub)
            if isinstance(st, ast.Try):
                for h in st.handlers:
                    note_aliases(h.body)
    note_aliases(dr.body)

    # the guard before the buffer is touched
    pre = []
    for st in dr.body:
        if isinstance(st, ast.AugAssign) and ast.unparse(st.target) == "self.buffer":
            break
        pre.append(st)
    guards = [st for st in pre if isinstance(st, ast.If)]
    if len(guards) != 1 or len(guards[0].body) != 1 or not isinstance(guards[0].body[0], ast.Return) or guards[0].orelse \
            or "receive_phase" not in ast.unparse(guards[0].test):
        raise P.Untranslatable("dataReceived: expected one `if <phase test>: return` before the buffer is extended")
    out.append("(* Negotiation.dataReceived: input is dropped without being looked at when ... *)\n"
               "Definition input_ignored (phase : Z) (is_client : bool) : bool := %s." % pcond(guards[0].test))

    tries = [n for n in dr.body if isinstance(n, ast.Try)]
    if len(tries) != 1:
        raise P.Untranslatable("dataReceived: expected exactly one try block")
    tr = tries[0]
    HID = {"self.handlePLAINTEXTClient(header)": 0, "self.handlePLAINTEXTServer(header)": 1, "self.handleENCRYPTED(header)": 2,
           "self.handleDECIDING(header)": 3}

    def disp(stmts):
        if len(stmts) != 1:
            raise P.Untranslatable("dataReceived: a dispatch branch has %d statements" % len(stmts))
        st = stmts[0]
        if isinstance(st, ast.If):
            return "(if %s then %s else %s)" % (pcond(st.test), disp(st.body), disp(st.orelse))
        u = ast.unparse(st)
        if u in HID:
            return str(HID[u])
        if isinstance(st, ast.Assert) and ast.unparse(st.test) in ("0", "False"):
            return "4"
        raise P.Untranslatable("dataReceived: dispatch statement %s" % u[:80])
    dispatchers = [st for st in tr.body if isinstance(st, ast.If) and "receive_phase" in ast.unparse(st.test)]
    if len(dispatchers) != 1:
        raise P.Untranslatable("dataReceived: expected one dispatch on self.receive_phase inside the try block")
    out.append("(* which handler gets the header block: 0 handlePLAINTEXTClient, 1 handlePLAINTEXTServer, 2 handleENCRYPTED, 3 handleDECIDING,\n"
               "   4 `assert 0` *)\nDefinition dispatch (phase : Z) (is_client : bool) : Z :=\n %s." % disp([dispatchers[0]]))
    # nothing between the split and the dispatch, and after the dispatch only the re-entry for leftover bytes
    idx = tr.body.index(dispatchers[0])
    after = [ast.unparse(s) for s in tr.body[idx + 1:]]
    if after != ["if self.buffer:\n    self.dataReceived(b'')"]:
        raise P.Untranslatable("dataReceived: statements after the dispatch: %r" % after)

    # the catch-all
    if len(tr.handlers) != 1 or ast.unparse(tr.handlers[0].type) != "Exception" or tr.orelse or tr.finalbody:
        raise P.Untranslatable("dataReceived: expected exactly `except Exception` around the block handling")
    hb = tr.handlers[0].body
    tail = [ast.unparse(s) for s in hb[-3:]]
    if tail != ["self.failureReason = why", "self.transport.loseConnection()", "return"] or ast.unparse(hb[0]) != "why = Failure()":
        raise P.Untranslatable("dataReceived: the catch-all no longer ends with failureReason = why; loseConnection(); return")
    for st in hb[1:-3]:
        for n in ast.walk(st):
            if isinstance(n, (ast.Raise, ast.Return)):
                raise P.Untranslatable("dataReceived: the catch-all can leave before it records the failure and drops the connection")
            if isinstance(n, ast.Attribute) and isinstance(n.ctx, ast.Store) and ast.unparse(n) not in ():
                raise P.Untranslatable("dataReceived: the catch-all stores to %s" % ast.unparse(n))
    # how the refusal is reported, by send_phase
    def tests_phase(n):
        return any(ast.unparse(x) == "self.send_phase" or (isinstance(x, ast.Name) and x.id in phase_alias) for x in ast.walk(n.test))
    reports = [n for st in hb[1:-3] for n in ast.walk(st) if isinstance(n, ast.If) and tests_phase(n)
               and not any(n is x for st2 in hb[1:-3] for m_ in ast.walk(st2) if isinstance(m_, ast.If) for x in m_.orelse if m_ is not n and tests_phase(m_))]
    if len(reports) != 1:
        raise P.Untranslatable("dataReceived: expected one if/elif chain on self.send_phase in the catch-all, found %d" % len(reports))

    def rep(stmts):
        u = "\n".join(ast.unparse(s) for s in stmts)
        if not stmts:
            return "3"
        if len(stmts) == 1 and isinstance(stmts[0], ast.If) and tests_phase(stmts[0]):
            return "(if %s then %s else %s)" % (pcond(stmts[0].test), rep(stmts[0].body), rep(stmts[0].orelse))
        if "HTTP/1.1 500 Internal Server Error" in u and "self.transport.write(resp)" in u:
            return "0"
        if "self.sendBlock(block)" in u:
            return "1"
        if u == "self.sendBananaError(errmsg)":
            return "2"
        raise P.Untranslatable("dataReceived: unrecognised error report: %s" % u[:100])
    out.append("(* how the catch-all tells the peer, by send_phase: 0 HTTP 500 line, 1 error block, 2 Banana ERROR token, 3 nothing *)\n"
               "Definition error_report (phase : Z) : Z :=\n let is_client := false in %s." % rep([reports[0]]))
    # the error block: {'banana-decision-version': <int literal>, 'error': errmsg}
    eb = [n for st in hb for n in ast.walk(st) if isinstance(n, ast.Assign) and ast.unparse(n.targets[0]) == "block" and isinstance(n.value, ast.Dict)]
    if len(eb) != 1:
        raise P.Untranslatable("dataReceived: the error block is no longer one dict display")
    ebd = {}
    for k, v in zip(eb[0].value.keys, eb[0].value.values):
        if not (isinstance(k, ast.Constant) and isinstance(k.value, str)):
            raise P.Untranslatable("error block key")
        ebd[k.value] = v
    if set(ebd) != {seen["decision_key_version_written"], "error"} or ast.unparse(ebd["error"]) != "errmsg":
        raise P.Untranslatable("dataReceived: the error block has keys %r" % sorted(ebd))
    ver = ebd[seen["decision_key_version_written"]]
    if not (isinstance(ver, ast.Constant) and type(ver.value) is int):
        raise P.Untranslatable("dataReceived: the version stamped on an error block is not an integer literal: %s" % ast.unparse(ver))
    out.append("Definition error_block_version : Z := %d.  (* the receiver dispatches on it BEFORE it looks for 'error' *)" % ver.value)
    if "errmsg = errmsg.replace('\\n', ' ').replace('\\r', ' ')" not in "\n".join(ast.unparse(s) for s in hb):
        raise P.Untranslatable("dataReceived: the error text is no longer cleared of CR / LF before it is put into a block")
    out.append("Definition error_text_crlf_replaced : bool := true.")

    # ---- 4. every store to receive_phase / send_phase in the class, and the versioned methods it has
    rw, sw = [], []
    for fn in cls.body:
        if not isinstance(fn, ast.FunctionDef):
            continue
        for n in ast.walk(fn):
            if isinstance(n, (ast.Assign, ast.AugAssign)):
                for t in (n.targets if isinstance(n, ast.Assign) else [n.target]):
                    for a in ast.walk(t):
                        if isinstance(a, ast.Attribute) and isinstance(a.ctx, ast.Store) and a.attr in ("receive_phase", "send_phase"):
                            if ast.unparse(a.value) != "self":
                                raise P.Untranslatable("store to %s" % ast.unparse(a))
                            v = n.value
                            if isinstance(n, ast.AugAssign) or not (isinstance(v, ast.Name) and v.id in phases):
                                raise P.Untranslatable("%s: %s is not set to a phase constant" % (fn.name, ast.unparse(n)))
                            (rw if a.attr == "receive_phase" else sw).append((fn.name, phases[v.id]))
    for n in ast.walk(mod):
        if isinstance(n, ast.Call) and isinstance(n.func, ast.Name) and n.func.id in ("setattr", "delattr") and len(n.args) >= 2:
            raise P.Untranslatable("negotiate.py uses setattr/delattr")
    out.append("Definition receive_phase_stores : list (string * Z) := [%s]." % "; ".join("(%s, %d)" % (str_const(a), b) for a, b in rw))
    out.append("Definition send_phase_stores : list (string * Z) := [%s]." % "; ".join("(%s, %d)" % (str_const(a), b) for a, b in sw))
    acc_v = sorted(int(f.name[len("acceptDecisionVersion"):]) for f in cls.body if isinstance(f, ast.FunctionDef)
                   and re.fullmatch(r"acceptDecisionVersion\d+", f.name))
    ev_v = sorted(int(f.name[len("evaluateNegotiationVersion"):]) for f in cls.body if isinstance(f, ast.FunctionDef)
                  and re.fullmatch(r"evaluateNegotiationVersion\d+", f.name))
    out.append("Definition class_accept_versions : list Z := [%s]." % "; ".join(map(str, acc_v)))
    out.append("Definition class_evaluate_versions : list Z := [%s]." % "; ".join(map(str, ev_v)))
    return {"NegCodecGen.v": "\n\n".join(out) + "\n"}
