"""C10: translated parts of call.py (truncate, the limits at its call sites, FailureConstraint's limits, the
traceback elision), constraint.py (the two comparisons that enforce a ByteStringConstraint), and shape facts of the
send-side violation discipline of banana.py / slicer.py / slicers/root.py."""
import ast, copy
from translate import pylite as P

PROPERTIES = ["C10"]
OUTPUTS = ["FailureGen.v", "SendGen.v", "CalleeGen.v"]

CMPNAME = {ast.Gt: "CmpGt", ast.GtE: "CmpGe", ast.Lt: "CmpLt", ast.LtE: "CmpLe", ast.Eq: "CmpEq", ast.NotEq: "CmpNe"}


def U(node):
    return ast.unparse(node)


def need(cond, why):
    if not cond:
        raise P.Untranslatable(why)


def zlist(bs):
    return "[" + "; ".join(str(b) for b in bs) + "]"


# ---------------------------------------------------------------------------------------------- truncate
class _Bytesify(ast.NodeTransformer):
    """`truncate` receives text; the model works on the UTF-8 encoding of that text (lib/Failure.v `encode_text`, with the
    error handler named by `text_encode_errors`).  Rewrites
        X.decode("utf-8", "ignore")[.encode("utf-8")]  ->  utf8_decode_ignore(X)      (Verif.lib.Utf8; the model keeps
                                                            decoded text in encoded form, so re-encoding is the identity)
        "<text literal>"                               ->  its UTF-8 bytes
    and refuses any other method call."""

    def visit_Call(self, node):
        self.generic_visit(node)
        f = node.func
        if isinstance(f, ast.Attribute) and f.attr == "decode":
            args = [a.value if isinstance(a, ast.Constant) else None for a in node.args]
            args = [a.decode("utf-8") if isinstance(a, bytes) else a for a in args]   # literals were already rewritten
            need(not node.keywords and len(args) == 2 and str(args[0]).lower().replace("_", "-") in ("utf-8", "utf8")
                 and args[1] == "ignore", "truncate: decode() is no longer .decode('utf-8', 'ignore'): " + U(node))
            new = ast.Call(func=ast.Name(id="utf8_decode_ignore", ctx=ast.Load()), args=[f.value], keywords=[])
            return ast.copy_location(new, node)
        if isinstance(f, ast.Attribute) and f.attr == "encode" and isinstance(f.value, ast.Call) \
                and isinstance(f.value.func, ast.Name) and f.value.func.id == "utf8_decode_ignore":
            args = [a.value.decode("utf-8") if isinstance(a, ast.Constant) and isinstance(a.value, bytes) else None for a in node.args]
            need(not node.keywords and len(args) == 1 and str(args[0]).lower().replace("_", "-") in ("utf-8", "utf8"),
                 "truncate: re-encoding is no longer .encode('utf-8'): " + U(node))
            return f.value
        if isinstance(f, ast.Attribute) and not (isinstance(f.value, ast.Name) and f.value.id == "six"):
            raise P.Untranslatable("truncate: unexpected method call " + U(node))
        return node

    def visit_Constant(self, node):
        if isinstance(node.value, str):
            return ast.copy_location(ast.Constant(value=node.value.encode("utf-8")), node)
        return node


def gen_truncate(mod):
    """-> (gallina text of truncate on encoded text, name of the error handler used when the text is encoded)"""
    f = copy.deepcopy(P.find_def(mod, "truncate"))
    need(isinstance(f, ast.FunctionDef) and [a.arg for a in f.args.args] == ["s", "limit"] and not f.args.defaults,
         "truncate(s, limit) changed its signature")
    body = [st for st in f.body]
    # a leading docstring would be turned into bytes by the rewriter: drop it first
    if body and isinstance(body[0], ast.Expr) and isinstance(body[0].value, ast.Constant) and isinstance(body[0].value.value, str):
        body = body[1:]
    # `if isinstance(s, str): s = s.encode("utf-8", <errors>)` turns the text into its encoding: from there on `s` is bytes
    errors = None
    kept = []
    for st in body:
        if isinstance(st, ast.If) and U(st.test) == "isinstance(s, str)" and not st.orelse and len(st.body) == 1 and errors is None:
            a = st.body[0]
            need(isinstance(a, ast.Assign) and U(a.targets[0]) == "s" and isinstance(a.value, ast.Call) and U(a.value.func) == "s.encode"
                 and not a.value.keywords and all(isinstance(x, ast.Constant) and isinstance(x.value, str) for x in a.value.args)
                 and 1 <= len(a.value.args) <= 2 and a.value.args[0].value.lower().replace("_", "-") in ("utf-8", "utf8"),
                 "truncate: the text is no longer encoded with s.encode('utf-8', errors): " + U(st))
            errors = a.value.args[1].value if len(a.value.args) == 2 else "strict"
            need(not any(isinstance(n, ast.Name) and n.id == "s" for k in kept for n in ast.walk(k)),
                 "truncate uses `s` before encoding it")
            continue
        kept.append(st)
    body = kept
    if errors is None:
        # no explicit encoding step: fail closed unless every use of the text `s` is six.ensure_binary(s), a truth test
        # (`if s and ...`) or `return s` -- e.g. len(s) or s[:n] would count characters, not bytes.
        errors = "strict"
        parents = {}
        for n in ast.walk(ast.Module(body=body, type_ignores=[])):
            for ch in ast.iter_child_nodes(n):
                parents[ch] = n
        for n in ast.walk(ast.Module(body=body, type_ignores=[])):
            if isinstance(n, ast.Name) and n.id == "s" and isinstance(n.ctx, ast.Load):
                par = parents.get(n)
                ok = (isinstance(par, ast.Call) and U(par.func) == "six.ensure_binary" and par.args == [n]) \
                    or isinstance(par, (ast.BoolOp, ast.Return)) or (isinstance(par, ast.If) and par.test is n)
                need(ok, "truncate uses the text `s` directly (characters, not UTF-8 bytes) in: " + U(par))
    need(errors in ("strict", "backslashreplace"), "truncate encodes with an error handler the model does not know: %r" % errors)
    f.body = [_Bytesify().visit(st) for st in body]
    ast.fix_missing_locations(f)
    spec = dict(params=dict(s=P.L, limit=P.Z), ret=P.L,
                calls={"utf8_decode_ignore": ("utf8_decode_ignore", [P.L], P.L, False)})
    return P.Fn("truncate", f, spec).emit(), errors


# ---------------------------------------------------------------------------------------------- limits
def constraint_limits(mod):
    """FailureConstraint.__init__: attrs = [('type', ByteStringConstraint(200)), ..., ('parents', ListConstraint(ByteStringConstraint(200)))]"""
    init = P.find_def(mod, "FailureConstraint.__init__")
    lists = [n for n in ast.walk(init) if isinstance(n, ast.Assign) and len(n.targets) == 1 and U(n.targets[0]) == "attrs"
             and isinstance(n.value, ast.List)]
    need(len(lists) == 1, "FailureConstraint.__init__: expected one literal `attrs = [...]`")
    need("AttributeDictConstraint.__init__(self, *attrs)" in U(init), "FailureConstraint.__init__ no longer passes *attrs on")
    out = {}
    plen = None
    for el in lists[0].value.elts:
        need(isinstance(el, ast.Tuple) and len(el.elts) == 2 and isinstance(el.elts[0], ast.Constant), "attrs entry: " + U(el))
        name, c = el.elts[0].value, el.elts[1]

        def bsc(c):
            need(isinstance(c, ast.Call) and U(c.func) == "ByteStringConstraint" and len(c.args) == 1 and not c.keywords
                 and isinstance(c.args[0], ast.Constant) and isinstance(c.args[0].value, int),
                 "constraint of attribute %r is not ByteStringConstraint(<int>): %s" % (name, U(c)))
            return c.args[0].value
        if name == "parents":
            need(isinstance(c, ast.Call) and U(c.func) == "ListConstraint" and len(c.args) >= 1, "parents constraint: " + U(c))
            out[name] = bsc(c.args[0])
            extra = [U(a) for a in c.args[1:]] + ["%s=%s" % (k.arg, U(k.value)) for k in c.keywords]
            ml = None
            for i, a in enumerate(c.args[1:]):
                if i == 0:
                    ml = P.const_expr(a)
            for k in c.keywords:
                if k.arg == "maxLength":
                    ml = P.const_expr(k.value)
                elif k.arg != "minLength" or P.const_expr(k.value) != 0:
                    raise P.Untranslatable("parents ListConstraint has unexpected argument " + k.arg)
            need(len(c.args) <= 2, "parents ListConstraint has unexpected arguments %s" % extra)
            plen = ml
        else:
            out[name] = bsc(c)
    need(sorted(out) == ["parents", "traceback", "type", "value"], "FailureConstraint attributes are now %s" % sorted(out))
    return out, plen


def callsite_limits(gs):
    """every call truncate(X, N) inside FailureSlicer.getStateToCopy, keyed by the state field it produces"""
    out = {}
    for st in ast.walk(gs):
        if not isinstance(st, ast.Assign) or len(st.targets) != 1:
            continue
        calls = [c for c in ast.walk(st.value) if isinstance(c, ast.Call) and isinstance(c.func, ast.Name) and c.func.id == "truncate"]
        if not calls:
            continue
        need(len(calls) == 1, "two truncate() calls in one statement: " + U(st))
        c = calls[0]
        need(len(c.args) == 2 and not c.keywords and isinstance(c.args[1], ast.Constant) and isinstance(c.args[1].value, int),
             "truncate call site without a literal limit: " + U(c))
        need(U(st.value) == "six.ensure_binary(%s)" % U(c), "truncate result is post-processed: " + U(st))
        t, src = U(st.targets[0]), U(c.args[0])
        if t.startswith("state["):
            need(src == t, "truncate(%s) assigned to %s" % (src, t))
            key = st.targets[0].slice.value
        elif t == "parents[i]":
            need(src == "value", "parents loop: truncate(%s)" % src)
            key = "parents"
        else:
            raise P.Untranslatable("unexpected truncate target " + t)
        need(key not in out, "field %s truncated twice" % key)
        out[key] = c.args[1].value
    n_all = len([c for c in ast.walk(gs) if isinstance(c, ast.Call) and isinstance(c.func, ast.Name) and c.func.id == "truncate"])
    need(n_all == len(out) == 4 and sorted(out) == ["parents", "traceback", "type", "value"],
         "getStateToCopy: truncate call sites are now %s (of %d calls)" % (sorted(out), n_all))
    return out


def parse_elision(ifnode, subj):
    """`if len(S) > T: S = S[:H] + MARK + S[-K:]` (no else) for the expression text S=subj  -> (T, H, K, MARK)"""
    need(isinstance(ifnode, ast.If) and isinstance(ifnode.test, ast.Compare) and len(ifnode.test.ops) == 1
         and isinstance(ifnode.test.ops[0], ast.Gt) and U(ifnode.test.left) == "len(%s)" % subj
         and isinstance(ifnode.test.comparators[0], ast.Constant) and isinstance(ifnode.test.comparators[0].value, int)
         and not ifnode.orelse and len(ifnode.body) == 1, "traceback elision test changed: " + U(ifnode)[:100])
    thr = ifnode.test.comparators[0].value
    a = ifnode.body[0]
    need(isinstance(a, ast.Assign) and len(a.targets) == 1 and U(a.targets[0]) == subj and isinstance(a.value, ast.BinOp), "elision body changed")
    l1 = a.value.left
    need(isinstance(l1, ast.BinOp) and isinstance(l1.op, ast.Add) and isinstance(a.value.op, ast.Add), "elision expression changed")
    head, mark, tail = l1.left, l1.right, a.value.right

    def sl(n, want_lower):
        need(isinstance(n, ast.Subscript) and U(n.value) == subj and isinstance(n.slice, ast.Slice) and n.slice.step is None,
             "elision slice changed: " + U(n))
        if want_lower:
            need(n.slice.upper is None and n.slice.lower is not None, "elision tail slice changed: " + U(n))
            v = P.const_expr(n.slice.lower)
            need(isinstance(v, int) and v < 0, "elision tail is not a negative literal")
            return -v
        need(n.slice.lower is None and n.slice.upper is not None, "elision head slice changed: " + U(n))
        v = P.const_expr(n.slice.upper)
        need(isinstance(v, int) and v >= 0, "elision head is not a literal")
        return v
    need(isinstance(mark, ast.Constant) and isinstance(mark.value, str), "elision marker is not a literal")
    return thr, sl(head, False), sl(tail, True), mark.value


def state_flow(gs, mod):
    """the statements of getStateToCopy that the model copies by hand (fail closed).

    Accepted forms of the traceback elision (FIELD = state['traceback'], where `state` is the dict created by the
    function's own `state = {}` and never rebound):
      (A) inline:      if len(FIELD) > T: FIELD = FIELD[:H] + MARK + FIELD[-K:]
      (B) via a helper: FIELD = g(FIELD)   where g is a module-level function of call.py, defined exactly once, with exactly
                        one parameter p, no decorators, whose body (after an optional docstring) is exactly
                            if len(p) > T: p = p[:H] + MARK + p[-K:]
                            return p
    Equivalence of (B) with (A), for every value v stored in FIELD and without assumptions on its type: in (B) FIELD is read
    once and bound to p; then len(v), v[:H], + MARK, v[-K:], + are applied to that same object in the same order as in (A),
    where each `FIELD` read is a plain-dict subscript (state is a builtin dict literal local to the function: reading it has
    no side effect and returns the same object each time, nothing runs between the reads that could store to it); the
    result (or v itself when the test is false) is stored back to FIELD, as in (A), where not storing leaves v in place.
    Exceptions raised by len/slicing/+ propagate from the same point in the statement order of getStateToCopy."""
    src = U(gs)
    for frag in ("state['type'] = reflect.qual(obj.type)",
                 "stack = obj.getTraceback()",
                 "state['traceback'] = stack",
                 "for i, value in enumerate(parents):",
                 "return state"):
        need(frag in src, "getStateToCopy no longer contains: " + frag)
    body = [st for st in gs.body if not (isinstance(st, ast.Expr) and isinstance(st.value, ast.Constant))]
    need(U(body[0]) == "state = {}" and not any(isinstance(n, ast.Name) and n.id == "state" and isinstance(n.ctx, (ast.Store, ast.Del))
                                                for st in body[1:] for n in ast.walk(st)),
         "getStateToCopy: `state` is not a fresh dict that is never rebound")
    F = "state['traceback']"
    idx = {}
    elision = None

    def mark(name, i):
        need(name not in idx, "getStateToCopy: two statements look like the %s step" % name)
        idx[name] = i
    for i, st in enumerate(body):
        t = U(st)
        if t.startswith("state['value'] = six.ensure_binary(truncate("):
            mark("value", i)
        elif isinstance(st, ast.If) and U(st.test) == "broker.unsafeTracebacks":
            mark("unsafe", i)
        elif isinstance(st, ast.If) and U(st.test).startswith("len(%s)" % F):
            mark("elide", i)
            elision = parse_elision(st, F)
        elif isinstance(st, ast.Assign) and U(st.targets[0]) == F and isinstance(st.value, ast.Call) and isinstance(st.value.func, ast.Name) \
                and st.value.func.id != "truncate" and [U(a) for a in st.value.args] == [F] and not st.value.keywords and len(st.targets) == 1:
            g = [n for n in mod.body if isinstance(n, ast.FunctionDef) and n.name == st.value.func.id]
            others = [n for n in ast.walk(mod) if isinstance(n, (ast.FunctionDef, ast.ClassDef)) and n.name == st.value.func.id]
            stores = [n for n in ast.walk(mod) if isinstance(n, ast.Name) and n.id == st.value.func.id and isinstance(n.ctx, (ast.Store, ast.Del))]
            need(len(g) == 1 and len(others) == 1 and not stores and not g[0].decorator_list, "helper %s is not a plain module-level function defined once" % st.value.func.id)
            a = g[0].args
            need(len(a.args) == 1 and not (a.vararg or a.kwarg or a.kwonlyargs or a.posonlyargs or a.defaults), "helper signature")
            pn = a.args[0].arg
            hb = [x for x in g[0].body if not (isinstance(x, ast.Expr) and isinstance(x.value, ast.Constant))]
            need(len(hb) == 2 and isinstance(hb[1], ast.Return) and U(hb[1].value) == pn, "helper %s is not `if ...: p = ...; return p`" % g[0].name)
            mark("elide", i)
            elision = parse_elision(hb[0], pn)
        elif t.startswith("state['traceback'] = six.ensure_binary(truncate("):
            mark("tbtrunc", i)
        elif t == "parents = obj.parents[:]":
            mark("parents", i)
        elif t == "state['parents'] = parents":
            mark("setparents", i)
    order = ["value", "unsafe", "elide", "tbtrunc", "parents", "setparents"]
    need(all(k in idx for k in order), "getStateToCopy: missing step(s) %s" % [k for k in order if k not in idx])
    need([idx[k] for k in order] == sorted(idx[k] for k in order), "getStateToCopy: statement order changed")
    need(idx["elide"] == idx["unsafe"] + 1 and idx["tbtrunc"] == idx["elide"] + 1, "getStateToCopy: something sits between the traceback steps")
    # default traceback text
    els = [n for n in ast.walk(gs) if isinstance(n, ast.If) and U(n.test) == "broker.unsafeTracebacks"]
    need(len(els) == 1 and len(els[0].orelse) == 1 and isinstance(els[0].orelse[0], ast.Assign)
         and U(els[0].orelse[0].targets[0]) == "state['traceback']" and isinstance(els[0].orelse[0].value, ast.Constant)
         and isinstance(els[0].orelse[0].value.value, str), "getStateToCopy: the no-traceback branch changed")
    default_tb = els[0].orelse[0].value.value
    thr, h, t, mk = elision
    return default_tb, thr, h, t, mk


STATE_PRELUDE = """
(* ---- what FailureSlicer.getStateToCopy reads from the Failure, and what it returns *)
Definition text := list Z.      (* a Python str: code points *)

Record exc := {
  e_type : res text;             (* reflect.qual(obj.type) = obj.type.__module__ + "." + obj.type.__name__: raises TypeError for a
                                    class whose __module__ is not a string (type("E", (Exception,), {"__module__": None})) *)
  e_str : res text;              (* str(obj.value): an exception class may make it raise *)
  e_fallback : text;             (* what reflect.safe_str(obj.value) returns when str() raises *)
  e_stack : text;                (* obj.getTraceback() (twisted renders reflect.qual(obj.type) into it: it raises only when e_type
                                    does, which getStateToCopy meets first) *)
  e_parents : res (list text)    (* obj.parents: twisted computes it on first use, reflect.qual of every class of the MRO -- raises
                                    like e_type when the class or one of its ancestors has no module name *)
}.

Record fstate := { s_type : list Z; s_value : list Z; s_traceback : list Z; s_parents : list (list Z) }.

(* the text -> bytes step of truncate (error handler read from the source): "strict" raises for lone surrogates,
   "backslashreplace" escapes them *)
Definition encode_text (t : text) : res (list Z) :=
  match text_encode_errors with
  | Strict => if forallb scalarb t then Ok (utf8 t) else Exc "UnicodeEncodeError"%string
  | BackslashReplace => Ok (utf8 (escape t))
  end.

(* six.ensure_binary(truncate(s, limit)) for a str s / for bytes b *)
Definition trunc_field (t : text) (limit : Z) : res (list Z) :=
  match encode_text t with
  | Exc e => Exc e
  | Ok b => truncate b limit
  end.

Definition trunc_bytes (b : list Z) (limit : Z) : res (list Z) := truncate b limit.

Definition sbind {A B} (r : res A) (f : A -> res B) : res B := match r with Ok x => f x | Exc t => Exc t end.

Fixpoint map_res {A B} (f : A -> res B) (l : list A) : res (list B) :=
  match l with
  | [] => Ok []
  | x :: r => match f x with
              | Exc e => Exc e
              | Ok y => match map_res f r with Exc e => Exc e | Ok ys => Ok (y :: ys) end
              end
  end.

(* str(obj.value) / reflect.safe_str(obj.value) *)
Definition render_str (e : exc) : res text := e_str e.
Definition render_safe (e : exc) : res text := Ok (match e_str e with Ok v => v | Exc _ => e_fallback e end).
"""


def gen_get_state(gs, mod, consts):
    """FailureSlicer.getStateToCopy, executed symbolically statement by statement into ONE Gallina term.

    `state` is tracked as a map key -> (Gallina variable, 'text' | 'bytes'); every assignment to state[k] introduces a new
    variable in source order, so reordering statements, truncating a field twice, dropping a truncation, eliding after
    truncating ... all change the generated definition (and the theorems are re-checked against it).
    Taken as given (python3 / Twisted facts, stated in the file): obj.value is not itself a Failure and obj.type is a class, so
    of the three-way test at the top the last branch runs, and the inner `isinstance(obj.type, str)` test is false.
    NOT taken as given (review 2): that reflect.qual(obj.type) and the property obj.parents return -- both are `res` fields of
    the exception record and become sbind steps at their place in the source order (a guarded call, e.g. a "safe qual", is a
    statement this translator does not know: Untranslatable, fail closed).
    consts: the named constants emitted earlier; every literal met here must be one of them (single source of truth)."""
    lines = []
    env = {}            # state key -> (var, kind)
    loc = {}            # local name -> (var, kind)     (stack, parents)
    counter = [0]

    def fresh(base):
        counter[0] += 1
        return "%s%d" % (base, counter[0])

    def lit(n, name):
        need(consts.get(name) == n, "getStateToCopy: the literal %r is not the constant %s = %r read earlier" % (n, name, consts.get(name)))
        return name

    def key_of(t):
        need(isinstance(t, ast.Subscript) and U(t.value) == "state" and isinstance(t.slice, ast.Constant) and t.slice.value in
             ("type", "value", "traceback", "parents"), "getStateToCopy: assignment to " + U(t))
        return t.slice.value

    def trunc_call(v):
        """six.ensure_binary(truncate(X, N)) -> (X node, N)"""
        if isinstance(v, ast.Call) and U(v.func) == "six.ensure_binary" and len(v.args) == 1 and not v.keywords:
            c = v.args[0]
            if isinstance(c, ast.Call) and U(c.func) == "truncate" and len(c.args) == 2 and not c.keywords and \
                    isinstance(c.args[1], ast.Constant) and isinstance(c.args[1].value, int):
                return c.args[0], c.args[1].value
        return None

    def do(st):
        t = U(st)
        if isinstance(st, ast.Expr) and isinstance(st.value, ast.Constant):
            return
        if t == "state = {}":
            need(not env, "getStateToCopy: `state = {}` is not the first statement")
            return
        if isinstance(st, ast.If) and U(st.test) == "isinstance(obj.value, failure.Failure)":
            need(len(st.orelse) == 1 and isinstance(st.orelse[0], ast.If) and U(st.orelse[0].test) == "isinstance(obj.type, str)"
                 and st.orelse[0].orelse, "getStateToCopy: the three-way test on obj.value / obj.type changed")
            for x in st.orelse[0].orelse:
                do(x)
            return
        if isinstance(st, ast.If) and U(st.test) == "broker.unsafeTracebacks":
            # both branches must end with state['traceback'] bound to text; join with `if unsafe`
            def branch(stmts):
                val = None
                l2 = {}
                for x in stmts:
                    tx = U(x)
                    if isinstance(x, ast.If) and U(x.test) == "isinstance(obj.type, str)" and x.orelse:
                        need([U(y) for y in x.orelse] == ["stack = obj.getTraceback()"], "getStateToCopy: traceback source changed: " + tx[:80])
                        l2["stack"] = "(e_stack e)"
                    elif tx == "stack = obj.getTraceback()":
                        l2["stack"] = "(e_stack e)"
                    elif isinstance(x, ast.Assign) and len(x.targets) == 1 and key_of(x.targets[0]) == "traceback":
                        if isinstance(x.value, ast.Name) and x.value.id in l2:
                            val = l2[x.value.id]
                        elif isinstance(x.value, ast.Constant) and isinstance(x.value.value, str):
                            need([ord(c) for c in x.value.value] == consts["default_traceback"], "getStateToCopy: default traceback text differs")
                            val = "default_traceback"
                        elif U(x.value) == "obj.getTraceback()":
                            val = "(e_stack e)"
                        else:
                            raise P.Untranslatable("getStateToCopy: traceback value " + tx[:80])
                    else:
                        raise P.Untranslatable("getStateToCopy: statement in the unsafeTracebacks test: " + tx[:80])
                need(val is not None, "getStateToCopy: a branch of the unsafeTracebacks test leaves state['traceback'] unset")
                return val
            a, b = branch(st.body), branch(st.orelse)
            v = fresh("tb")
            lines.append("  let %s := (if unsafe then %s else %s) in" % (v, a, b))
            env["traceback"] = (v, "text")
            return
        if isinstance(st, ast.If) and isinstance(st.test, ast.Compare) and U(st.test.left).startswith("len(state["):
            thr, h, tl, mk = parse_elision(st, "state['traceback']")
            need("traceback" in env and env["traceback"][1] == "text", "getStateToCopy: the traceback is elided before it exists / after it was encoded")
            need([ord(c) for c in mk] == consts["elide_marker"], "elision marker differs")
            src = env["traceback"][0]
            v = fresh("tb")
            lines.append("  let %s := (if Z.of_nat (List.length %s) >? %s then py_slice %s None (Some %s) ++ elide_marker ++ py_slice %s (Some (- %s)) None else %s) in"
                         % (v, src, lit(thr, "elide_threshold"), src, lit(h, "elide_head"), src, lit(tl, "elide_tail"), src))
            env["traceback"] = (v, "text")
            return
        if isinstance(st, ast.Assign) and len(st.targets) == 1 and U(st.targets[0]) == "state['traceback']" and isinstance(st.value, ast.Call) \
                and isinstance(st.value.func, ast.Name) and st.value.func.id != "truncate" and [U(a) for a in st.value.args] == ["state['traceback']"] \
                and not st.value.keywords:
            # form (B) of state_flow (its docstring gives the equivalence): FIELD = g(FIELD) with g a module-level function
            # `if len(p) > T: p = p[:H] + MARK + p[-K:]; return p`
            g = [n for n in mod.body if isinstance(n, ast.FunctionDef) and n.name == st.value.func.id]
            others = [n for n in ast.walk(mod) if isinstance(n, (ast.FunctionDef, ast.ClassDef)) and n.name == st.value.func.id]
            stores = [n for n in ast.walk(mod) if isinstance(n, ast.Name) and n.id == st.value.func.id and isinstance(n.ctx, (ast.Store, ast.Del))]
            need(len(g) == 1 and len(others) == 1 and not stores and not g[0].decorator_list, "helper %s is not a plain module-level function defined once" % st.value.func.id)
            a = g[0].args
            need(len(a.args) == 1 and not (a.vararg or a.kwarg or a.kwonlyargs or a.posonlyargs or a.defaults), "helper signature")
            pn = a.args[0].arg
            hb = [x for x in g[0].body if not (isinstance(x, ast.Expr) and isinstance(x.value, ast.Constant))]
            need(len(hb) == 2 and isinstance(hb[1], ast.Return) and U(hb[1].value) == pn, "helper %s is not `if ...: p = ...; return p`" % g[0].name)
            thr, h, tl, mk = parse_elision(hb[0], pn)
            need("traceback" in env and env["traceback"][1] == "text", "getStateToCopy: the traceback is elided before it exists / after it was encoded")
            need([ord(c) for c in mk] == consts["elide_marker"], "elision marker differs")
            src = env["traceback"][0]
            v = fresh("tb")
            lines.append("  let %s := (if Z.of_nat (List.length %s) >? %s then py_slice %s None (Some %s) ++ elide_marker ++ py_slice %s (Some (- %s)) None else %s) in"
                         % (v, src, lit(thr, "elide_threshold"), src, lit(h, "elide_head"), src, lit(tl, "elide_tail"), src))
            env["traceback"] = (v, "text")
            return
        if isinstance(st, ast.Assign) and len(st.targets) == 1 and isinstance(st.targets[0], ast.Subscript) and U(st.targets[0].value) == "state":
            k = key_of(st.targets[0])
            tc = trunc_call(st.value)
            if tc is not None:
                srcn, n = tc
                need(U(srcn) == "state[%r]" % k and k in env, "getStateToCopy: truncate(%s) assigned to state[%r]" % (U(srcn), k))
                var, kind = env[k]
                v = fresh({"type": "ty", "value": "va", "traceback": "tb"}[k])
                lines.append("  sbind (%s %s %s) (fun %s =>" % ("trunc_field" if kind == "text" else "trunc_bytes", var, lit(n, "trunc_limit_" + k), v))
                closers.append(")")
                env[k] = (v, "bytes")
                return
            if k == "value" and U(st.value) in ("reflect.safe_str(obj.value)", "str(obj.value)"):
                v = fresh("va")
                lines.append("  sbind (%s e) (fun %s =>" % ("render_safe" if U(st.value).startswith("reflect") else "render_str", v))
                closers.append(")")
                env[k] = (v, "text")
                return
            if k == "type" and U(st.value) == "reflect.qual(obj.type)":
                v = fresh("ty")
                lines.append("  sbind (e_type e) (fun %s =>" % v)      # reflect.qual can raise: nothing guards it
                closers.append(")")
                env[k] = (v, "text")
                return
            if k == "parents" and isinstance(st.value, ast.Name) and st.value.id in loc:
                env[k] = loc[st.value.id]
                return
            raise P.Untranslatable("getStateToCopy: unexpected assignment " + t[:100])
        if t == "parents = obj.parents[:]":
            v = fresh("ps")
            lines.append("  sbind (e_parents e) (fun %s =>" % v)         # the property obj.parents can raise (reflect.qual per ancestor)
            closers.append(")")
            loc["parents"] = (v, "textlist")
            return
        if isinstance(st, ast.For) and U(st.target) == "(i, value)" and U(st.iter) == "enumerate(parents)" and not st.orelse:
            need(len(st.body) == 1 and isinstance(st.body[0], ast.Assign) and U(st.body[0].targets[0]) == "parents[i]", "parents loop body changed")
            tc = trunc_call(st.body[0].value)
            need(tc is not None and U(tc[0]) == "value" and loc.get("parents", (None, None))[1] == "textlist", "parents loop: " + U(st.body[0])[:100])
            v = fresh("ps")
            lines.append("  sbind (map_res (fun p => trunc_field p %s) %s) (fun %s =>" % (lit(tc[1], "trunc_limit_parents"), loc["parents"][0], v))
            closers.append(")")
            loc["parents"] = (v, "byteslist")
            return
        if t == "return state":
            need(sorted(env) == ["parents", "traceback", "type", "value"], "getStateToCopy returns a state with keys %s" % sorted(env))
            for k in ("type", "value", "traceback"):
                need(env[k][1] == "bytes", "getStateToCopy returns state[%r] without encoding / truncating it" % k)
            need(env["parents"][1] == "byteslist", "getStateToCopy returns the parents without encoding / truncating them")
            lines.append("  Ok {| s_type := %s; s_value := %s; s_traceback := %s; s_parents := %s |}"
                         % (env["type"][0], env["value"][0], env["traceback"][0], env["parents"][0]))
            done.append(True)
            return
        raise P.Untranslatable("getStateToCopy: unexpected statement " + t[:100])

    closers, done = [], []
    for st in gs.body:
        need(not done, "getStateToCopy: statements after `return state`")
        do(st)
    need(done, "getStateToCopy does not end in `return state`")
    return ("(* FailureSlicer.getStateToCopy, statement by statement (symbolic execution of the source order) *)\n"
            "Definition get_state_src (unsafe : bool) (e : exc) : res fstate :=\n" + "\n".join(lines) + "".join(closers) + ".")


def cmp_fact(fn, test_prefix, left, right, what):
    """the comparison `left OP right` inside the `if` (or BoolOp) whose text starts with test_prefix and whose body raises"""
    hits = []
    for n in ast.walk(fn):
        if isinstance(n, ast.If) and any(isinstance(s, ast.Raise) for s in n.body):
            for c in ast.walk(n.test):
                if isinstance(c, ast.Compare) and len(c.ops) == 1 and U(c.left) == left and U(c.comparators[0]) == right:
                    hits.append((n, c))
    need(len(hits) == 1, "%s: expected exactly one raising test of `%s ? %s`, found %d" % (what, left, right, len(hits)))
    n, c = hits[0]
    need(type(c.ops[0]) in CMPNAME, what + ": comparison operator")
    need(U(n.body[0]).startswith("raise Violation("), what + ": the test no longer raises Violation")
    return CMPNAME[type(c.ops[0])]


def gen_failure():
    mod = P.load("call.py")
    out = [P.PRELUDE % dict(src="call.py, constraint.py") + "Require Import Verif.lib.Utf8.\n"]
    ttext, errors = gen_truncate(mod)
    out.append(ttext)
    out.append("Inductive encode_errors := Strict | BackslashReplace.")
    out.append("Definition text_encode_errors : encode_errors := %s.   (* how truncate turns text into bytes *)"
               % {"strict": "Strict", "backslashreplace": "BackslashReplace"}[errors])
    lim, plen = constraint_limits(mod)
    for k in ("type", "value", "traceback", "parents"):
        out.append("Definition fc_limit_%s : Z := %d.   (* FailureConstraint: ByteStringConstraint(%d) *)" % (k, lim[k], lim[k]))
    out.append("Definition fc_parents_maxlen : option Z := %s." % ("None" if plen is None else "Some %d" % plen))
    gs = P.find_def(mod, "FailureSlicer.getStateToCopy")
    cs = callsite_limits(gs)
    for k in ("type", "value", "traceback", "parents"):
        out.append("Definition trunc_limit_%s : Z := %d.   (* truncate(state[%r], %d) in getStateToCopy *)" % (k, cs[k], k, cs[k]))
    default_tb, thr, h, t, mark = state_flow(gs, mod)
    # how the exception instance becomes text: str() may raise (a class can define __str__ freely), reflect.safe_str never does
    rend = [U(n.value) for n in ast.walk(gs) if isinstance(n, ast.Assign) and U(n.targets[0]) == "state['value']"
            and "obj.value" in U(n.value)]
    need(len(rend) == 2 and rend[0] == rend[1] and rend[0] in ("str(obj.value)", "reflect.safe_str(obj.value)"),
         "getStateToCopy renders the exception value with %s" % rend)
    out.append("Definition value_rendering_is_safe : bool := %s.   (* state['value'] = %s *)"
               % ("true" if rend[0].startswith("reflect.safe_str") else "false", rend[0]))
    out.append("Definition default_traceback : list Z := %s.   (* %r, as code points *)" % (zlist([ord(c) for c in default_tb]), default_tb))
    out.append("Definition elide_threshold : Z := %d." % thr)
    out.append("Definition elide_head : Z := %d." % h)
    out.append("Definition elide_tail : Z := %d." % t)
    out.append("Definition elide_marker : list Z := %s.   (* %r *)" % (zlist([ord(c) for c in mark]), mark))
    out.append(STATE_PRELUDE)
    consts = {"trunc_limit_" + k: cs[k] for k in cs}
    consts.update(default_traceback=[ord(c) for c in default_tb], elide_threshold=thr, elide_head=h, elide_tail=t,
                  elide_marker=[ord(c) for c in mark])
    out.append(gen_get_state(gs, mod, consts))
    # the receiving side: what "ByteStringConstraint(n)" enforces
    cm = P.load("constraint.py")
    out.append("Inductive cmpop := CmpGt | CmpGe | CmpLt | CmpLe | CmpEq | CmpNe.")
    op1 = cmp_fact(P.find_def(cm, "ByteStringConstraint.checkObject"), "", "len(obj)", "self.maxLength", "ByteStringConstraint.checkObject")
    op2 = cmp_fact(P.find_def(cm, "Constraint.checkToken"), "", "size", "limit", "Constraint.checkToken")
    out.append("Definition bytestring_object_rejects : cmpop := %s.   (* raise Violation if len(obj) OP maxLength *)" % op1)
    out.append("Definition token_size_rejects : cmpop := %s.   (* raise Violation if size OP limit *)" % op2)
    # which token types a BOUNDED ByteStringConstraint (maxLength given, as in FailureConstraint) accepts: the dict that ends
    # up in self.taster -- assigned in __init__, unconditionally or under `if [self.]maxLength is not None:`, else the class
    # attribute.  STRING must be limited by maxLength; VOCAB (a word of the negotiated table) must be accepted, unlimited.
    bsc = P.find_class(cm, "ByteStringConstraint")
    bsi = P.find_def(cm, "ByteStringConstraint.__init__")
    need([a.arg for a in bsi.args.args][:2] == ["self", "maxLength"], "ByteStringConstraint.__init__ signature changed")
    need("self.maxLength = maxLength" in [U(x) for x in bsi.body], "ByteStringConstraint.__init__ no longer stores maxLength")
    tast = None
    for st in bsi.body:
        cands = [st] if isinstance(st, ast.Assign) else \
            (st.body if isinstance(st, ast.If) and U(st.test) in ("maxLength is not None", "self.maxLength is not None", "maxLength != None") and not st.orelse else [])
        for a in cands:
            if isinstance(a, ast.Assign) and U(a.targets[0]) == "self.taster":
                need(tast is None, "ByteStringConstraint.__init__ assigns self.taster twice")
                tast = a.value
    for n in ast.walk(bsi):
        if isinstance(n, ast.Assign) and U(n.targets[0]) == "self.taster":
            need(n.value is tast, "ByteStringConstraint.__init__ assigns self.taster in a way the translator does not follow")
    if tast is None:
        cl = [x.value for x in bsc.body if isinstance(x, ast.Assign) and U(x.targets[0]) == "taster"]
        need(len(cl) == 1, "ByteStringConstraint has no taster")
        tast = cl[0]
    need(isinstance(tast, ast.Dict) and all(isinstance(k, ast.Name) for k in tast.keys), "ByteStringConstraint taster is not a literal table")
    tmap = {k.id: U(v) for k, v in zip(tast.keys, tast.values)}
    need(set(tmap) <= {"STRING", "VOCAB"} and tmap.get("STRING") in ("self.maxLength", "maxLength"),
         "bounded ByteStringConstraint taster is %s" % tmap)
    need(tmap.get("VOCAB", "None") == "None", "bounded ByteStringConstraint limits VOCAB tokens: %s" % tmap)
    out.append("Definition bytestring_taster_accepts_vocab : bool := %s.   (* taster of a bounded ByteStringConstraint: %s *)"
               % ("true" if "VOCAB" in tmap else "false", tmap))
    # the receiver decodes with six.ensure_str and keeps every field (CopiedFailure.setCopyableState)
    scs = U(P.find_def(mod, "CopiedFailure.setCopyableState"))
    for frag in ("self.type = six.ensure_str(state['type'])", "self.value = six.ensure_str(state['value'])",
                 "self.traceback = six.ensure_str(state['traceback'])", "self.parents = [six.ensure_str(p) for p in state['parents']]"):
        need(frag in scs, "CopiedFailure.setCopyableState no longer contains: " + frag)
    # the class object put into f.type is made for this one failure from the transmitted name alone (no table that
    # outlives the call): split at the last dot into __module__ / __name__
    scs_def = P.find_def(mod, "CopiedFailure.setCopyableState")
    tail = [U(x) for x in scs_def.body if not (isinstance(x, ast.Expr) and isinstance(x.value, ast.Constant))]
    want_tail = ["assert isinstance(self.type, str)", "typepieces = self.type.split('.')", "class ExceptionLikeString:\n    pass",
                 "self.type = ExceptionLikeString", "self.type.__module__ = '.'.join(typepieces[:-1])", "self.type.__name__ = typepieces[-1]"]
    need(tail[-6:] == want_tail, "CopiedFailure.setCopyableState no longer builds f.type from the transmitted name alone: %s" % tail[-6:])
    out.append("Definition type_name_separator : Z := 46.   (* self.type.split('.') ; __module__ = '.'.join(pieces[:-1]) ; __name__ = pieces[-1] *)")
    # wrapping: ErrorUnslicer.receiveClose wraps iff not broker._expose_remote_exception_types
    rc = P.find_def(mod, "ErrorUnslicer.receiveClose")
    ifs = [n for n in rc.body if isinstance(n, ast.If)]
    need(len(ifs) == 1 and U(ifs[0].test) == "not self.broker._expose_remote_exception_types" and not ifs[0].orelse
         and U(ifs[0].body[0]) == "f = wrap_remote_failure(f)" and U(rc.body[-2]) == "self.request.fail(f)",
         "ErrorUnslicer.receiveClose changed")
    wb = [U(x) for x in P.find_def(mod, "wrap_remote_failure").body if not (isinstance(x, ast.Expr) and isinstance(x.value, ast.Constant))]
    need(wb and wb[-1] == "return failure.Failure(tokens.RemoteException(f))", "wrap_remote_failure changed")
    if len(wb) == 1:
        uncond = True
    elif len(wb) == 2 and wb[0] == "if f.check(tokens.RemoteException):\n    return f":
        uncond = False          # a failure whose (remote) class already is RemoteException is passed through unwrapped
    else:
        raise P.Untranslatable("wrap_remote_failure does something the model does not know: %s" % wb[:-1])
    out.append("Definition wrap_is_unconditional : bool := %s.   (* wrap_remote_failure wraps every failure, whatever its class *)"
               % ("true" if uncond else "false"))
    tk = P.load("tokens.py")
    need(isinstance(P.find_def(tk, "RemoteException"), ast.ClassDef), "tokens.RemoteException is gone")
    out.append("Definition remote_exception_name : list Z := %s.   (* reflect.qual(tokens.RemoteException), UTF-8 *)"
               % zlist(list(b"foolscap.tokens.RemoteException")))
    # the wrapper's own ancestry (what Failure.check() of the wrapped failure consults): RemoteException's declared bases
    rx = P.find_def(tk, "RemoteException")
    bases = [U(b) for b in rx.bases]
    need(bases == ["Exception"] and not rx.keywords, "tokens.RemoteException no longer derives from Exception alone: %s" % bases)
    anc = [b"foolscap.tokens.RemoteException", b"builtins.Exception", b"builtins.BaseException", b"builtins.object"]
    out.append("Definition remote_exception_parents : list (list Z) := [%s].   (* [reflect.qual(c) for c in getmro(RemoteException)] *)"
               % "; ".join(zlist(list(a)) for a in anc))
    # the RELAY path: a CopiedFailure that is sent on (A calls B, B calls C, C fails) goes through CopiedFailureSlicer.getStateToCopy,
    # which does not truncate: type = reflect.qual(stand-in class) (or the string itself), value / parents / traceback as received
    cfs = P.find_def(mod, "CopiedFailureSlicer.getStateToCopy")
    cb = [U(x) for x in cfs.body if not (isinstance(x, ast.Expr) and isinstance(x.value, ast.Constant))]
    want_cb = ["state = {}", "state['type'] = obj.type",
               "if not isinstance(state['type'], str):\n    state['type'] = reflect.qual(state['type'])",
               "state['type'] = six.ensure_binary(state['type'])", "state['value'] = six.ensure_binary(obj.value)",
               "state['parents'] = [six.ensure_binary(p) for p in obj.parents]"]
    need(cb[:6] == want_cb and cb[-1] == "return state" and len(cb) == 8 and isinstance(cfs.body[-2], ast.If)
         and U(cfs.body[-2].test) == "broker.unsafeTracebacks"
         and [U(x) for x in cfs.body[-2].body] == ["state['traceback'] = six.ensure_binary(obj.traceback)"]
         and len(cfs.body[-2].orelse) == 1 and isinstance(cfs.body[-2].orelse[0], ast.Assign)
         and U(cfs.body[-2].orelse[0].targets[0]) == "state['traceback']" and isinstance(cfs.body[-2].orelse[0].value, ast.Constant)
         and isinstance(cfs.body[-2].orelse[0].value.value, bytes),
         "CopiedFailureSlicer.getStateToCopy changed: %s" % cb)
    out.append("Definition copied_default_traceback : list Z := %s.   (* %r in CopiedFailureSlicer.getStateToCopy *)"
               % (zlist(list(cfs.body[-2].orelse[0].value.value)), cfs.body[-2].orelse[0].value.value))
    out.append("Definition wrap_when_expose_is : bool := false.   (* `if not broker._expose_remote_exception_types: f = wrap_remote_failure(f)` *)")
    return "\n\n".join(out) + "\n"


# ---------------------------------------------------------------------------------------------- send discipline
def gen_send():
    bm = P.load("banana.py")
    out = [P.PRELUDE % dict(src="banana.py, slicer.py, slicers/root.py")]
    prod = P.find_def(bm, "Banana.produce")
    wh = [n for n in prod.body if isinstance(n, ast.While)]
    need(len(wh) == 1 and U(wh[0].test) == "self.slicerStack and (not self.paused)", "produce: loop condition changed")
    trys = [n for n in wh[0].body if isinstance(n, ast.Try)]
    need(len(trys) == 1, "produce: expected one try statement in the loop")
    outer = trys[0]
    hs = [U(h.type) if h.type is not None else None for h in outer.handlers]
    need(hs == ["StopIteration", "Violation", None], "produce: outer handlers are now %s" % hs)
    need(U(outer.handlers[0].body[-1]) == "self.popSlicer()", "produce: StopIteration no longer pops the slicer")

    def hsv_args(body, what):
        calls = [c for st in body for c in ast.walk(st) if isinstance(c, ast.Call) and U(c.func) == "self.handleSendViolation"]
        need(len(calls) == 1, "produce: %s handler does not call handleSendViolation exactly once" % what)
        kw = {k.arg: k.value for k in calls[0].keywords}
        need(sorted(kw) == ["doPop", "sendAbort"] and all(isinstance(v, ast.Constant) and isinstance(v.value, bool) for v in kw.values()),
             "produce: %s handler: handleSendViolation arguments changed" % what)
        return kw["doPop"].value, kw["sendAbort"].value
    o_pop, o_abort = hsv_args(outer.handlers[1].body, "outer Violation")
    last = outer.handlers[2].body
    need(any("self.sendFailed(Failure())" == U(s) for s in last) and isinstance(last[-1], ast.Return),
         "produce: the catch-all handler no longer calls sendFailed and returns")
    inner = [n for n in ast.walk(ast.Module(body=outer.body, type_ignores=[])) if isinstance(n, ast.Try)]
    need(len(inner) == 1 and [U(h.type) for h in inner[0].handlers] == ["Violation"], "produce: inner try changed")
    need([U(s) for s in inner[0].body] == ["slicer = self.newSlicerFor(obj)", "self.pushSlicer(slicer, obj)"], "produce: inner try body changed")
    i_pop, i_abort = hsv_args(inner[0].handlers[0].body, "inner Violation")
    src_try = U(ast.Module(body=outer.body, type_ignores=[]))
    need("obj = next(slices)" in src_try and "elif type(obj) in SIMPLE_TOKENS:\n    self.sendToken(obj)" in src_try,
         "produce: token dispatch changed")
    b = lambda x: "true" if x else "false"
    out.append("Definition push_violation_pops : bool := %s.    (* except Violation around newSlicerFor/pushSlicer: doPop *)" % b(i_pop))
    out.append("Definition push_violation_aborts : bool := %s.  (* ... sendAbort *)" % b(i_abort))
    out.append("Definition next_violation_pops : bool := %s.    (* except Violation around next(slices): doPop *)" % b(o_pop))
    out.append("Definition next_violation_aborts : bool := %s.  (* ... sendAbort *)" % b(o_abort))

    # handleSendViolation: [if sendAbort: ABORT(lastOpenID) if not None] ; [if doPop: popSlicer] ; f = top.childAborted(f) ; if f: both := True, loop
    hv = P.find_def(bm, "Banana.handleSendViolation")
    loops = [n for n in hv.body if isinstance(n, ast.While)]
    need(len(loops) == 1 and U(loops[0].test) == "True", "handleSendViolation: loop changed")
    body = loops[0].body
    kinds = []
    tail_sets = []
    for st in body:
        s = U(st)
        if isinstance(st, ast.If) and U(st.test) == "sendAbort":
            need("lastOpenID = self.slicerStack[-1][2]" in s and "if lastOpenID is not None:" in s and "self.sendAbort(lastOpenID)" in s,
                 "handleSendViolation: abort branch changed")
            kinds.append("abort")
        elif isinstance(st, ast.If) and U(st.test) == "doPop":
            need("self.popSlicer()" in s and "top = self.slicerStack[-1][0]" in s and "if not self.slicerStack:" in s,
                 "handleSendViolation: pop branch changed")
            kinds.append("pop")
        elif s == "f = top.childAborted(f)":
            kinds.append("notify")
        elif isinstance(st, ast.If) and U(st.test) == "f":
            need([U(x) for x in st.body] == ["doPop = True", "sendAbort = True", "continue"] and [U(x) for x in st.orelse] == ["break"],
                 "handleSendViolation: continuation changed")
            kinds.append("loop")
        elif isinstance(st, ast.If) and U(st.test) == "not f" and [U(x) for x in st.body] == ["break"] and not st.orelse:
            kinds.append("loop-break")
        elif s in ("doPop = True", "sendAbort = True") and kinds and kinds[-1] in ("loop-break", "set"):
            kinds.append("set")
            tail_sets.append(s)
        elif s == "top = self.slicerStack[-1][0]":
            kinds.append("top")
        elif isinstance(st, ast.If) and U(st.test) == "self.debugSend":
            pass
        else:
            raise P.Untranslatable("handleSendViolation: unexpected statement " + s[:80])
    # Accepted forms of the loop tail (equivalent for every value of f: its truth is tested once in both; in a `while True`
    # body whose last statements are the two assignments, falling off the end IS `continue`):
    #   if f: doPop = True; sendAbort = True; continue   else: break
    #   if not f: break   ;   doPop = True ; sendAbort = True            (as the LAST statements of the loop body)
    if kinds[-3:] == ["loop-break", "set", "set"] and sorted(tail_sets) == ["doPop = True", "sendAbort = True"]:
        kinds = kinds[:-3] + ["loop"]
    need(kinds == ["top", "abort", "pop", "notify", "loop"], "handleSendViolation: statement order is now %s" % kinds)
    out.append("Definition abort_precedes_close : bool := true.   (* in handleSendViolation sendAbort comes before popSlicer *)")

    pop = P.find_def(bm, "Banana.popSlicer")
    ps = [U(s) for s in pop.body if not (isinstance(s, ast.If) and U(s.test) == "self.debugSend")]
    need(ps == ["slicer, slices, openID = self.slicerStack.pop()", "if openID is not None:\n    self.sendClose(openID)"],
         "popSlicer changed: %s" % ps)
    out.append("Definition pop_sends_close : bool := true.        (* popSlicer: sendClose(openID) when an OPEN was sent *)")

    push = U(P.find_def(bm, "Banana.pushSlicer"))
    order = ["itr = slicer.slice(topSlicer.streamable, self)", "if slicer.sendOpen:", "openID = self.sendOpen()",
             "slicertuple = (slicer, slices, openID)", "self.slicerStack.append(slicertuple)"]
    pos = [push.find(x) for x in order]
    need(all(p >= 0 for p in pos) and pos == sorted(pos), "pushSlicer: .slice() / OPEN / push order changed")
    out.append("Definition slice_precedes_open : bool := true.    (* pushSlicer calls slicer.slice before sendOpen and the stack push *)")
    so = [U(s) for s in P.find_def(bm, "Banana.sendOpen").body]
    need(so[:2] == ["openID = self.openCount", "self.openCount += 1"] and so[-1] == "return openID", "sendOpen changed")
    out.append("Definition open_counter_step : Z := 1.")

    sm = P.load("slicer.py")
    ca = P.find_def(sm, "BaseSlicer.childAborted")
    need([U(s) for s in ca.body] == ["return f"], "BaseSlicer.childAborted no longer propagates the failure")
    out.append("Definition inner_slicer_gives_up : bool := true.  (* BaseSlicer.childAborted returns f *)")
    subclasses = []
    for rel in ("slicer.py", "call.py", "copyable.py", "referenceable.py", "slicers/list.py", "slicers/dict.py", "slicers/tuple.py",
                "slicers/set.py", "slicers/unicode.py", "slicers/vocab.py", "slicers/bool.py", "slicers/none.py", "slicers/decimal.py"):
        try:
            m = P.load(rel)
        except OSError:
            continue
        for c in m.body:
            if isinstance(c, ast.ClassDef) and any(isinstance(x, ast.FunctionDef) and x.name == "childAborted" for x in c.body):
                if not (rel == "slicer.py" and c.name == "BaseSlicer"):
                    subclasses.append("%s:%s" % (rel, c.name))
    need(not subclasses, "a slicer class overrides childAborted: %s" % subclasses)
    rm = P.load("slicers/root.py")
    rca = [U(s) for s in P.find_def(rm, "RootSlicer.childAborted").body]
    need(rca == ["assert self.objectSentDeferred", "self.objectSentDeferred.errback(f)", "self.objectSentDeferred = None", "return None"],
         "RootSlicer.childAborted changed: %s" % rca)
    out.append("Definition root_absorbs : bool := true.           (* RootSlicer.childAborted errbacks the object's Deferred and returns None *)")
    # the receiving root absorbs too, and an aborted call is not answered
    br = P.load("broker.py")
    rv = [U(s) for s in P.find_def(br, "PBRootUnslicer.reportViolation").body if not isinstance(s, ast.If)]
    need(rv == ["return None"], "PBRootUnslicer.reportViolation no longer absorbs")
    out.append("Definition receiving_root_absorbs : bool := true. (* PBRootUnslicer.reportViolation returns None *)")
    # the receiver numbers OPENs too (objectCounter -> Unslicer.start(count) -> setObject / `reference` resolution).  The
    # sender numbers EVERY OPEN it writes, so the receiver must count the OPENs it discards as well.
    hd = P.find_def(bm, "Banana.handleData")
    opens = [n for n in ast.walk(hd) if isinstance(n, ast.If) and U(n.test) == "typebyte == OPEN"
             and any(isinstance(x, ast.AugAssign) and U(x.target) == "self.objectCounter" for x in ast.walk(n))]
    need(len(opens) == 1, "handleData: expected one `if typebyte == OPEN:` that advances self.objectCounter, found %d" % len(opens))
    want = ["self.inboundObjectCount = self.objectCounter", "self.objectCounter += 1"]
    b = opens[0].body
    if [U(x) for x in b[:2]] == want:
        counts_rejected = True
    elif isinstance(b[0], ast.If) and U(b[0].test) == "not rejected" and [U(x) for x in b[0].body] == want and not b[0].orelse:
        counts_rejected = False
    else:
        raise P.Untranslatable("handleData: the OPEN counter is advanced in an unexpected way: " + U(b[0])[:120])
    rj = [U(n) for n in ast.walk(hd) if isinstance(n, ast.If) and U(n.test) == "self.discardCount" and U(n.body[0]) == "rejected = True"]
    need(len(rj) == 1, "handleData: `rejected` is no longer derived from self.discardCount")
    need(len([n for n in ast.walk(hd) if isinstance(n, ast.AugAssign) and U(n.target) == "self.objectCounter"]) == 1,
         "handleData advances self.objectCounter in more than one place")
    out.append("Definition recv_counts_rejected_opens : bool := %s.   (* handleData advances objectCounter for an OPEN %s *)"
               % ("true", "whether or not it is being discarded") if counts_rejected else
               "Definition recv_counts_rejected_opens : bool := false.   (* handleData advances objectCounter only `if not rejected` *)")
    # the callee's inbound delivery queue (Broker.doNextCall): the head delivery is waited for; when its ready_deferred
    # fires -- callback OR errback -- the waiting flag must be cleared and the next delivery scheduled
    dn = P.find_def(br, "Broker.doNextCall")
    rd = [n for n in dn.body if isinstance(n, ast.FunctionDef) and n.name == "_ready"]
    need(len(rd) == 1, "doNextCall: no inner _ready")
    rb = [U(x) for x in rd[0].body]
    need(rb[:2] == ["self._waiting_for_call_to_be_ready = False", "eventually(self.doNextCall)"], "doNextCall._ready changed: %s" % rb)
    adds = [U(n.value) for n in dn.body if isinstance(n, ast.Expr) and isinstance(n.value, ast.Call) and U(n.value.func).startswith("d.add")]
    need(adds and adds[0] in ("d.addBoth(_ready)", "d.addCallback(_ready)"), "doNextCall: _ready is attached with %s" % adds[:1])
    need(adds[-2:] == ["d.addErrback(self.callFailed, delivery.reqID, delivery)", "d.addErrback(log.err)"] and
         "d.addCallback(self._callFinished, delivery)" in adds, "doNextCall: the answer/error chain changed: %s" % adds)
    # Accepted forms (equivalent for all values, no assumption on types):
    #  * the early returns before the queue is popped may be separate `if c: return` statements or ONE `if c1 or c2 ..: return`:
    #    `or` evaluates its operands left to right, tests the truth of each exactly once and stops at the first true one,
    #    which is what consecutive guards whose only effect is `return` (None) do; what is required is that the waiting flag
    #    is among the tested conditions and that all of them precede the pop;
    #  * `d` is bound either by `if not ready_deferred: ready_deferred = defer.succeed(None)` + `d = ready_deferred` or by
    #    `d = ready_deferred or defer.succeed(None)`: both test the truth of ready_deferred once, yield that object when
    #    true and call defer.succeed(None) once otherwise; they differ only in rebinding the local `ready_deferred`, which
    #    is checked not to be read afterwards (nor captured by the inner function).
    dbody = [x for x in dn.body if not (isinstance(x, ast.Expr) and isinstance(x.value, ast.Constant))]
    guards, k = [], 0
    while k < len(dbody) and isinstance(dbody[k], ast.If) and not dbody[k].orelse and len(dbody[k].body) == 1 \
            and isinstance(dbody[k].body[0], ast.Return) and dbody[k].body[0].value is None:
        t = dbody[k].test
        guards += [U(v) for v in t.values] if isinstance(t, ast.BoolOp) and isinstance(t.op, ast.Or) else [U(t)]
        k += 1
    need("self._waiting_for_call_to_be_ready" in guards, "doNextCall no longer returns early while a delivery is being waited for: %s" % guards)
    need(k + 1 < len(dbody) and U(dbody[k]) == "delivery, ready_deferred = self.inboundDeliveryQueue.pop(0)"
         and U(dbody[k + 1]) == "self._waiting_for_call_to_be_ready = True", "doNextCall: pop / waiting flag handling changed")
    flagstores = [U(n) for n in ast.walk(dn) if isinstance(n, ast.Assign) and U(n.targets[0]) == "self._waiting_for_call_to_be_ready"]
    need(sorted(flagstores) == ["self._waiting_for_call_to_be_ready = False", "self._waiting_for_call_to_be_ready = True"],
         "doNextCall: the waiting flag is stored %s" % flagstores)
    rest = dbody[k + 2:]
    if len(rest) >= 2 and U(rest[0]) == "if not ready_deferred:\n    ready_deferred = defer.succeed(None)" and U(rest[1]) == "d = ready_deferred":
        after = rest[2:]
    elif rest and U(rest[0]) == "d = ready_deferred or defer.succeed(None)":
        after = rest[1:]
    else:
        raise P.Untranslatable("doNextCall: `d` is bound in an unknown way: " + U(rest[0])[:100])
    need(not any(isinstance(n, ast.Name) and n.id == "ready_deferred" for st in after for n in ast.walk(st)),
         "doNextCall: ready_deferred is used after d was bound")
    need(not any(isinstance(n, ast.Assign) and any(U(t_) == "d" for t_ in n.targets) for st in after for n in ast.walk(st)), "doNextCall: d is rebound")
    out.append("Definition ready_flag_cleared_on_failure : bool := %s.   (* %s *)" % ("true" if adds[0] == "d.addBoth(_ready)" else "false", adds[0]))
    # PendingRequest.fail: between marking the request inactive and firing its Deferred only the optional logging block
    # runs; the one expression in it that can raise for a target without RemoteInterface (interface name None) is the
    # joined method name, which therefore carries `or "?"` fallbacks
    cm0 = P.load("call.py")
    pf = P.find_def(cm0, "PendingRequest.fail")
    need(isinstance(pf.body[0], ast.If) and U(pf.body[0].test) == "self.active", "PendingRequest.fail: no `if self.active:`")
    ab = pf.body[0].body
    need(U(ab[-1]) == "self.deferred.errback(why)" and "self.active = False" in [U(x) for x in ab], "PendingRequest.fail: active branch changed")
    mn = [n for n in ast.walk(pf) if isinstance(n, ast.Assign) and U(n.targets[0]) == "methname"]
    need(len(mn) == 1 and isinstance(mn[0].value, ast.Call) and U(mn[0].value.func) == "'.'.join" and len(mn[0].value.args) == 1,
         "PendingRequest.fail: the logged method name is built differently")
    arg = mn[0].value.args[0]
    if isinstance(arg, ast.List) and all(isinstance(e, ast.BoolOp) and isinstance(e.op, ast.Or) and isinstance(e.values[-1], ast.Constant)
                                         and isinstance(e.values[-1].value, str) and e.values[-1].value for e in arg.elts):
        fallback = True
    elif isinstance(arg, ast.Call) or (isinstance(arg, ast.List) and arg.elts):
        fallback = False        # joins names that may be None
    else:
        raise P.Untranslatable("PendingRequest.fail: methname = " + U(mn[0].value))
    out.append("Definition log_name_has_fallback : bool := %s.   (* methname = %s *)" % ("true" if fallback else "false", U(mn[0].value)[:70]))
    # receive side: a Violation inside a top-level PB sequence makes every unslicer up to the root give the sequence up
    # (reportViolation returns the failure; only the PBRootUnslicer absorbs), so exactly the rest of that one object is
    # discarded.  An unslicer that absorbs stays on the stack and is handed the tokens of the NEXT object.
    cm = P.load("call.py")
    gives_up = True
    for cls in ("CallUnslicer", "AnswerUnslicer", "ErrorUnslicer"):
        rv = P.find_def(cm, cls + ".reportViolation")
        rets = [n for n in ast.walk(rv) if isinstance(n, ast.Return)]
        need(rets and isinstance(rv.body[-1], ast.Return), cls + ".reportViolation does not end in a return")
        for r_ in rets:
            t = U(r_.value) if r_.value is not None else "None"
            if t == "f":
                continue
            if t == "None":
                gives_up = False
            else:
                raise P.Untranslatable("%s.reportViolation returns %s" % (cls, t))
    out.append("Definition pb_unslicers_propagate : bool := %s.   (* Call/Answer/ErrorUnslicer.reportViolation always `return f` *)"
               % ("true" if gives_up else "false"))
    return "\n\n".join(out) + "\n"


# ---------------------------------------------------------------------------------------------- the callee's answer-or-error path
CALLEE_PRELUDE = """
(* statements of Broker.callFailed *)
Inductive cstmt :=
| CIfDelivery (b : list cstmt)      (* if delivery: *)
| CIfLogLocal (b : list cstmt)      (* if (self.tub and self.tub.logLocalFailures) or not self.tub: *)
| CLogFailure                       (* delivery.logFailure(f) *)
| CLogFailureGuarded                (* try: delivery.logFailure(f)  except Exception: <log calls only> *)
| CRenderLog                        (* a log call whose text is formatted eagerly from the failure (str, format of f.value ...) *)
| CLog                              (* a log call that renders nothing of the failure or the delivery *)
| CIfReq (b : list cstmt)           (* if reqID != 0: *)
| CAssertActive                     (* assert self.activeLocalCalls[reqID] *)
| CSendError                        (* self.send(call.ErrorSlicer(reqID, f)) *)
| CDelActive.                       (* del self.activeLocalCalls[reqID] *)

(* statements of Broker._callFinished *)
Inductive fstmt :=
| FIfOneWayReturn                   (* if reqID == 0: return *)
| FLocal                            (* assignment to a local from delivery / a constant *)
| FAssertActive                     (* assert self.activeLocalCalls[reqID] *)
| FIfSchema (b : list fstmt)        (* if methodSchema: *)
| FCheckResults                     (* try: methodSchema.checkResults(res, False) except Violation: prependLocation; raise *)
| FSendAnswerGuarded                (* try: self.send(answer) except: log *)
| FSendAnswer                       (* self.send(answer), unguarded *)
| FRenderLog
| FLog
| FDelActive.                       (* del self.activeLocalCalls[reqID] *)

(* the Deferred chain that Broker.doNextCall attaches to the delivery's ready_deferred, in source order *)
Inductive cfun := KReady | KDoCall | KFinished | KFailed | KLogErr.
Inductive link := LBoth (f : cfun) | LCallback (f : cfun) | LErrback (f : cfun).

(* statements of CallUnslicer.reportViolation *)
Inductive rstmt :=
| RIfAbort (b : list rstmt)         (* if f.value.args[0] == "ABORT received": *)
| RIfStage (b : list rstmt)         (* if self.stage > 0: *)
| RCallFailed                       (* self.broker.callFailed(f, self.reqID) *)
| RDelActive                        (* del self.broker.activeLocalCalls[self.reqID]: KeyError when the id was never registered *)
| RReturnF.                         (* return f *)
"""


def renders_eagerly(e, names):
    """does evaluating expression e format (%, str(), repr(), .format, f-string) something reachable from one of `names`?"""
    for n in ast.walk(e):
        fmt = (isinstance(n, ast.BinOp) and isinstance(n.op, ast.Mod)) or isinstance(n, ast.JoinedStr) or \
              (isinstance(n, ast.Call) and ((isinstance(n.func, ast.Name) and n.func.id in ("str", "repr", "format")) or
                                            (isinstance(n.func, ast.Attribute) and n.func.attr in ("format", "join"))))
        if fmt and any(isinstance(x, ast.Name) and x.id in names for x in ast.walk(n)):
            return True
    return False


def is_log(st):
    return isinstance(st, ast.Expr) and isinstance(st.value, ast.Call) and U(st.value.func) in ("log.msg", "log.err", "twlog.msg", "twlog.err")


def log_stmt(st, names, pre):
    """a log.msg/log.err statement: rendering happens eagerly only in the positional arguments (failure=/level=/... keywords are
    stored, not rendered: C18)"""
    return pre + ("RenderLog" if any(renders_eagerly(a, names) for a in st.value.args) else "Log")


def coq_prog(items):
    return "[" + "; ".join(items) + "]"


class _Subst(ast.NodeTransformer):
    def __init__(self, alias):
        self.alias = alias

    def visit_Name(self, node):
        if isinstance(node.ctx, ast.Load) and node.id in self.alias:
            return copy.deepcopy(self.alias[node.id])
        return node


LOG_LOCAL_TESTS = ("self.tub and self.tub.logLocalFailures or not self.tub", "not self.tub or self.tub.logLocalFailures")


def callfailed_stmts(stmts, alias=None):
    """Accepted beyond the reference text (equivalent for all values):
      * a local bound ONCE to `self.tub` or to `call.ErrorSlicer(reqID, f)` (attribute read / a constructor that only stores its
        arguments after `assert isinstance(f, Failure)`) and used in place of that expression by the following statements of the same
        block: the local is substituted back before matching;
      * the logging test as `not T or T.logLocalFailures` instead of `(T and T.logLocalFailures) or not T`: as an `if` test both are
        true exactly when T is falsy or T.logLocalFailures is truthy (T truthy: b / b; T falsy: True / True), evaluating T's truth and
        the attribute at most once each without side effects."""
    out = []
    alias = dict(alias or {})
    for st in stmts:
        if isinstance(st, ast.Expr) and isinstance(st.value, ast.Constant):
            continue
        if isinstance(st, ast.Assign) and len(st.targets) == 1 and isinstance(st.targets[0], ast.Name) and \
                U(st.value) in ("self.tub", "call.ErrorSlicer(reqID, f)") and st.targets[0].id not in alias and st.targets[0].id not in ("f", "reqID", "delivery", "self"):
            alias[st.targets[0].id] = st.value
            continue
        st = ast.fix_missing_locations(_Subst(alias).visit(copy.deepcopy(st)))
        t = U(st)
        if isinstance(st, ast.If) and not st.orelse and U(st.test) == "delivery":
            out.append("CIfDelivery " + coq_prog(callfailed_stmts(st.body, alias)))
        elif isinstance(st, ast.If) and not st.orelse and U(st.test) in LOG_LOCAL_TESTS:
            out.append("CIfLogLocal " + coq_prog(callfailed_stmts(st.body, alias)))
        elif isinstance(st, ast.If) and not st.orelse and U(st.test) == "reqID != 0":
            out.append("CIfReq " + coq_prog(callfailed_stmts(st.body, alias)))
        elif t == "delivery.logFailure(f)":
            out.append("CLogFailure")
        elif isinstance(st, ast.Try) and [U(x) for x in st.body] == ["delivery.logFailure(f)"]:
            # the guard must catch Exception (or everything), must not re-raise / return, and may only log (a log call that formats
            # f / delivery eagerly again would be a second chance to raise: refused)
            need(len(st.handlers) == 1 and (st.handlers[0].type is None or U(st.handlers[0].type) in ("Exception", "BaseException"))
                 and not st.orelse and not st.finalbody, "callFailed: the guard around logFailure does not catch Exception: " + t[:120])
            hb = [x for x in st.handlers[0].body if not isinstance(x, ast.Pass)]
            need(all(is_log(x) and log_stmt(x, ("f", "delivery"), "C") == "CLog" for x in hb),
                 "callFailed: the handler around logFailure does more than log: " + t[:160])
            out.append("CLogFailureGuarded")
        elif t == "assert self.activeLocalCalls[reqID]":
            out.append("CAssertActive")
        elif t == "self.send(call.ErrorSlicer(reqID, f))":
            out.append("CSendError")
        elif t == "del self.activeLocalCalls[reqID]":
            out.append("CDelActive")
        elif is_log(st):
            out.append(log_stmt(st, ("f", "delivery"), "C"))
        else:
            raise P.Untranslatable("Broker.callFailed: unexpected statement " + t[:100])
    return out


def callfinished_stmts(stmts, top=True):
    out = []
    for st in stmts:
        if isinstance(st, ast.Expr) and isinstance(st.value, ast.Constant):
            continue
        t = U(st)
        if t == "if reqID == 0:\n    return":
            out.append("FIfOneWayReturn")
        elif isinstance(st, ast.Assign) and len(st.targets) == 1 and isinstance(st.targets[0], ast.Name) and \
                t in ("reqID = delivery.reqID", "methodSchema = delivery.methodSchema", "methodName = None", "methodName = methodSchema.name",
                      "answer = call.AnswerSlicer(reqID, res, methodName)"):
            out.append("FLocal")
        elif t == "assert self.activeLocalCalls[reqID]":
            out.append("FAssertActive")
        elif isinstance(st, ast.If) and U(st.test) == "methodSchema" and all(U(x) == "methodName = None" for x in st.orelse):
            # (an else branch that only binds the local methodName to None -- instead of binding it before the test -- has no effect
            # the model sees)
            out.append("FIfSchema " + coq_prog(callfinished_stmts(st.body, False)))
        elif isinstance(st, ast.Try) and [U(x) for x in st.body] == ["methodSchema.checkResults(res, False)"]:
            need(len(st.handlers) == 1 and U(st.handlers[0].type) == "Violation" and isinstance(st.handlers[0].body[-1], ast.Raise)
                 and st.handlers[0].body[-1].exc is None and not st.orelse and not st.finalbody,
                 "_callFinished: a result Violation is no longer re-raised")
            out.append("FCheckResults")
        elif t == "methodSchema.checkResults(res, False)":
            out.append("FCheckResults")
        elif isinstance(st, ast.Try) and [U(x) for x in st.body] == ["self.send(answer)"]:
            need(len(st.handlers) == 1 and st.handlers[0].type is None and not st.orelse and not st.finalbody
                 and not any(isinstance(x, (ast.Raise, ast.Return)) for h in st.handlers for x in ast.walk(h)),
                 "_callFinished: the guard around self.send(answer) changed")
            out.append("FSendAnswerGuarded")
        elif t == "self.send(answer)":
            out.append("FSendAnswer")
        elif t == "del self.activeLocalCalls[reqID]":
            out.append("FDelActive")
        elif is_log(st):
            out.append(log_stmt(st, ("res", "delivery"), "F"))
        else:
            raise P.Untranslatable("Broker._callFinished: unexpected statement " + t[:100])
    return out


def report_violation_stmts(stmts):
    """CallUnslicer.reportViolation, statement by statement; the two tests may guard any block of the known statements (what the
    block does when the request id is 0 -- a one-way call, never registered -- is the interpreter's business: lib/Callee.v)"""
    rs = []
    for st in stmts:
        if isinstance(st, ast.Expr) and isinstance(st.value, ast.Constant):
            continue
        t = U(st)
        if isinstance(st, ast.If) and not st.orelse and U(st.test) == "f.value.args[0] == 'ABORT received'":
            rs.append("RIfAbort " + coq_prog(report_violation_stmts(st.body)))
        elif isinstance(st, ast.If) and not st.orelse and U(st.test) == "self.stage > 0":
            rs.append("RIfStage " + coq_prog(report_violation_stmts(st.body)))
        elif t == "self.broker.callFailed(f, self.reqID)":
            rs.append("RCallFailed")
        elif t == "del self.broker.activeLocalCalls[self.reqID]":
            rs.append("RDelActive")
        elif t == "return f":
            rs.append("RReturnF")
        elif isinstance(st, ast.Return):
            raise P.Untranslatable("CallUnslicer.reportViolation returns " + t)     # (absorbing is gen_send's pb_unslicers_propagate)
        else:
            raise P.Untranslatable("CallUnslicer.reportViolation: unexpected statement " + t[:100])
    return rs


def gen_callee():
    br = P.load("broker.py")
    cm = P.load("call.py")
    out = [P.PRELUDE % dict(src="broker.py, call.py") + CALLEE_PRELUDE]
    cf = P.find_def(br, "Broker.callFailed")
    need([a.arg for a in cf.args.args] == ["self", "f", "reqID", "delivery"], "Broker.callFailed signature changed")
    out.append("Definition callfailed_prog : list cstmt := %s." % coq_prog(callfailed_stmts(cf.body)))
    fin = P.find_def(br, "Broker._callFinished")
    need([a.arg for a in fin.args.args] == ["self", "res", "delivery"], "Broker._callFinished signature changed")
    out.append("Definition callfinished_prog : list fstmt := %s." % coq_prog(callfinished_stmts(fin.body)))
    # the chain of doNextCall (its pop / flag handling is matched in gen_send)
    dn = P.find_def(br, "Broker.doNextCall")
    links = []
    known = {"_ready": "KReady", "lambda res: self._doCall(delivery)": "KDoCall", "self._callFinished": "KFinished",
             "self.callFailed": "KFailed", "log.err": "KLogErr"}
    for st in dn.body:
        if isinstance(st, ast.Expr) and isinstance(st.value, ast.Call) and U(st.value.func) in ("d.addBoth", "d.addCallback", "d.addErrback"):
            c = st.value
            fn = U(c.args[0])
            need(fn in known and not c.keywords, "doNextCall: unknown link " + U(c)[:100])
            extra = [U(a) for a in c.args[1:]]
            need(extra == {"KFinished": ["delivery"], "KFailed": ["delivery.reqID", "delivery"]}.get(known[fn], []),
                 "doNextCall: arguments of the link changed: " + U(c)[:100])
            links.append("%s %s" % ({"d.addBoth": "LBoth", "d.addCallback": "LCallback", "d.addErrback": "LErrback"}[U(c.func)], known[fn]))
        elif isinstance(st, ast.Expr) and isinstance(st.value, ast.Call) and U(st.value.func).startswith("d.add"):
            raise P.Untranslatable("doNextCall: unknown way of attaching to the chain: " + U(st)[:100])
    out.append("Definition delivery_chain : list link := %s." % coq_prog(links))
    # _doCall: what can raise before / in the method is one outcome of the model (d_raises); only its shape is checked
    dc = U(P.find_def(br, "Broker._doCall"))
    for frag in ("delivery.methodSchema.checkAllArgs(args, kwargs, True)", "return obj.doRemoteCall(delivery.methodname, args, kwargs)"):
        need(frag in dc, "Broker._doCall no longer contains: " + frag)
    # CallUnslicer: registers the request id when it arrives, answers a Violation that is not an ABORT once the id is known
    rc = P.find_def(cm, "CallUnslicer.receiveChild")
    st0 = [n for n in rc.body if isinstance(n, ast.If) and U(n.test) == "self.stage == 0"]
    need(len(st0) == 1, "CallUnslicer.receiveChild: stage 0 branch not found")
    b0 = [U(x) for x in st0[0].body]
    need("self.reqID = token" in b0 and "self.stage = 1" in b0 and
         "if self.reqID != 0:\n    assert self.reqID not in self.broker.activeLocalCalls\n    self.broker.activeLocalCalls[self.reqID] = self" in b0,
         "CallUnslicer.receiveChild: registration of the request id changed: %s" % b0)
    out.append("Definition registers_reqid : bool := true.   (* stage 0: activeLocalCalls[reqID] = self unless reqID == 0 *)")
    rv = P.find_def(cm, "CallUnslicer.reportViolation")
    need([a.arg for a in rv.args.args] == ["self", "f"], "CallUnslicer.reportViolation signature changed")
    out.append("Definition report_violation_prog : list rstmt := %s." % coq_prog(report_violation_stmts(rv.body)))
    # InboundDelivery.logFailure: does it format the target / the arguments (application objects) eagerly?
    lf = P.find_def(cm, "InboundDelivery.logFailure")
    eager = False
    for st in ast.walk(lf):
        if isinstance(st, ast.Call) and U(st.func) in ("log.msg", "log.err"):
            for a in st.args:
                for n in ast.walk(a):
                    if isinstance(n, ast.BinOp) and isinstance(n.op, ast.Mod) or isinstance(n, ast.JoinedStr) or \
                            (isinstance(n, ast.Call) and U(n.func) in ("str", "repr")):
                        if any(U(x) in ("self.obj", "self.allargs.args", "self.allargs.kwargs", "self.allargs") for x in ast.walk(n)):
                            eager = True
    out.append("Definition logfailure_renders_delivery : bool := %s.   (* logFailure formats self.obj / self.allargs with %% *)"
               % ("true" if eager else "false"))
    return "\n\n".join(out) + "\n"


def generate():
    return {"FailureGen.v": gen_failure(), "SendGen.v": gen_send(), "CalleeGen.v": gen_callee()}
