"""C19: shape facts of the file-accepting code paths, translated from the AST.

  appserver/services.py  FileUploader.remote_putfile (+ FileUploaderReader)   -> path construction, guard, op order
  appserver/server.py    save_service_data  + util.py move_into_place         -> op order of the registry rewrite
  logging/gatherer.py    IncidentObserver._got_incident / update_latest       -> path construction (guard or not)
  logging/publish.py     LogPublisher.remote_get_incident                     -> name prefix test, path construction
  logging/publish.py     LogPublisher.list_incident_names (+ its two consumers) -> selection, naming, is a symlinked entry skipped
  logging/gatherer.py    IncidentObserver.connect                             -> is the state file `latest` read through a symlink

Every statement of these functions is either recognised (and becomes a step / a fact), is known to be irrelevant
(does not mention a file variable, `os`, `shutil`, `open`), or makes the generator fail closed.

Forms accepted in addition to the reference text, with the reason why they are the same program for ALL inputs
(translate/normalize.py already undoes new single-result helpers, new constants and renamed locals before this file runs):

 * `t1, .., tn = self.H(a1, .., am)` as a whole statement, H a method of the same class (`inline_tuple_helper`).
   Accepted only if H is defined exactly once in the class, has no decorators, only plain positional parameters, every
   argument is a bare local name, H never assigns a parameter, contains no nested def/lambda/yield/global/nonlocal, its
   only `return` is its LAST top-level statement and returns a tuple display of n bare names, and none of H's locals
   (other than the returned ones, which are renamed to t1..tn) is a name of the caller.  Then the statement is replaced
   by H's body (parameters renamed to the arguments, returned locals renamed to the targets).  Equivalence: Python
   evaluates the call by binding the parameters to the very objects the argument names denote and executing the body;
   a parameter that is never assigned stays an alias of the argument, so reading the argument name instead reads the
   same object; H's other locals live in a fresh frame, so renaming them apart from the caller's names changes nothing;
   exceptions propagate from the same statement in the same order (the body has no return before its end, so nothing
   is skipped); building the n-tuple of names and unpacking it into n distinct plain names performs exactly the n
   assignments `ti = ri`, with no user code in between (tuple display and unpacking of an exact tuple call nothing).
   The lookup `self.H` is assumed to find the class's own method (no instance attribute / subclass override of a
   private helper) -- the same assumption normalize.py makes for every helper it inlines.

 * in IncidentObserver.update_latest: `v = <expr>` immediately followed by `f = open(v, 'w')`, v not occurring anywhere
   else in the function, instead of `f = open(<expr>, 'w')`.  Equivalence: <expr> is evaluated at the same point (nothing
   runs between the two statements), exactly once, and open() receives the same object; v is dead afterwards.
"""
import ast, re
from translate import pylite as P

PROPERTIES = ["C19"]
OUTPUTS = ["UploadGen.v"]

FILEISH = re.compile(r"\b(os|shutil|open|filepath|FilePath|tempfile)\b")


def U(n):
    return ast.unparse(n)


def blist(s):
    return "[" + "; ".join(str(b) for b in s.encode()) + "]%N"


def strip_doc(body):
    return [s for s in body if not (isinstance(s, ast.Expr) and isinstance(s.value, ast.Constant)
                                    and isinstance(s.value.value, str))]


class Roles:
    """which Python variable denotes which abstract target"""

    def __init__(self):
        self.path = {}     # expr text -> "Tmp" | "Final"   (text of the *path string* expression)
        self.obj = {}      # FilePath variable -> role
        self.handle = {}   # file object variable -> role

    def path_role(self, node, where):
        t = U(node)
        if t in self.path:
            return self.path[t]
        raise P.Untranslatable("%s: cannot tell which file %r denotes" % (where, t))

    def mentions(self, text):
        names = set(self.obj) | set(self.handle) | set(k for k in self.path if re.fullmatch(r"\w+", k))
        return any(re.search(r"\b%s\b" % re.escape(n), text) for n in names) or bool(FILEISH.search(text))


WIN_PRED = []      # modules in which `if g():` may be resolved to a Windows test (set by gen_registry)


def _is_windows_predicate(test):
    """`g()` for a parameterless module-level g whose body is `v1 = e1; ..; return e` and whose returned expression, after
    substituting the local assignments, is the very test `'win32' in sys.platform[.lower()]`.  Calling g() at the point of the
    `if` evaluates exactly that expression (the locals are fresh, the expressions read only sys.platform)."""
    if not (isinstance(test, ast.Call) and isinstance(test.func, ast.Name) and not test.args and not test.keywords):
        return False
    import copy
    for mod in WIN_PRED:
        gs = [n for n in mod.body if isinstance(n, ast.FunctionDef) and n.name == test.func.id]
        if len(gs) != 1:
            continue
        g = gs[0]
        body = strip_doc(g.body)
        a = g.args
        if a.args or a.vararg or a.kwarg or a.kwonlyargs or g.decorator_list or not body or not isinstance(body[-1], ast.Return) \
                or body[-1].value is None:
            return False
        env = {}

        class Sub(ast.NodeTransformer):
            def visit_Name(self, node):
                return copy.deepcopy(env[node.id]) if node.id in env and isinstance(node.ctx, ast.Load) else node
        for st in body[:-1]:
            if not (isinstance(st, ast.Assign) and len(st.targets) == 1 and isinstance(st.targets[0], ast.Name)):
                return False
            env[st.targets[0].id] = Sub().visit(copy.deepcopy(st.value))
        text = U(Sub().visit(copy.deepcopy(body[-1].value)))
        return bool(re.fullmatch(r"'win32' in sys\.platform(\.lower\(\))?", text))
    return False


def step_of_stmt(st, roles, where, expand_call=None):
    """one statement of a callback / straight-line body -> list of steps (possibly empty), or None for 'stop' (return)"""
    t = U(st)
    if isinstance(st, ast.Return):
        return None
    if isinstance(st, ast.Pass):
        return []
    if isinstance(st, ast.If) and (re.search(r"isWindows\(\)|win32", U(st.test)) or _is_windows_predicate(st.test)):
        return []      # Windows-only branch; the model is POSIX
    if isinstance(st, ast.Try):
        # try: <exactly one move>  except: (try: <unlink> except OSError: pass); raise      -- nothing else is accepted
        body = steps_of_body(st.body, roles, where, expand_call)
        ok = (len(st.handlers) == 1 and st.handlers[0].type is None and not st.orelse and not st.finalbody
              and len(body) == 1 and body[0].startswith("SMove "))
        if ok:
            hb = strip_doc(st.handlers[0].body)
            ok = (len(hb) == 2 and isinstance(hb[1], ast.Raise) and hb[1].exc is None and isinstance(hb[0], ast.Try)
                  and len(hb[0].handlers) == 1 and U(hb[0].handlers[0].type) in ("OSError", "EnvironmentError")
                  and [U(x) for x in hb[0].handlers[0].body] == ["pass"] and not hb[0].orelse and not hb[0].finalbody)
            if ok:
                inner = steps_of_body(hb[0].body, roles, where, expand_call)
                ok = len(inner) == 1 and inner[0].startswith("SUnlink ")
        if ok:
            return ["SMoveElseUnlink %s %s" % (body[0][len("SMove "):], inner[0][len("SUnlink "):])]
        # try: <move a b>  except OSError: (try: <unlink b> except OSError: pass); <the same move again>
        ok = (len(st.handlers) == 1 and (st.handlers[0].type is None or U(st.handlers[0].type) in ("OSError", "EnvironmentError", "Exception"))
              and not st.orelse and not st.finalbody and len(body) == 1 and body[0].startswith("SMove "))
        if ok:
            hb = strip_doc(st.handlers[0].body)
            ok = (len(hb) == 2 and isinstance(hb[0], ast.Try) and len(hb[0].handlers) == 1 and not hb[0].orelse and not hb[0].finalbody
                  and (hb[0].handlers[0].type is None or U(hb[0].handlers[0].type) in ("OSError", "EnvironmentError", "Exception"))
                  and [U(x) for x in hb[0].handlers[0].body] == ["pass"])
            if ok:
                inner = steps_of_body(hb[0].body, roles, where, expand_call)
                again = step_of_stmt(hb[1], roles, where, expand_call)
                dst = body[0].split()[2]
                ok = inner == ["SUnlink %s" % dst] and again == body
        if not ok:
            raise P.Untranslatable("%s: unrecognised try statement: %s" % (where, t))
        return ["SMoveRetryAfterUnlink %s" % body[0][len("SMove "):]]
    if isinstance(st, ast.Assert):
        if roles.mentions(U(st.test)):
            raise P.Untranslatable("%s: assertion on a file variable: %s" % (where, t))
        return []
    if isinstance(st, ast.Expr) and isinstance(st.value, ast.Call):
        c = st.value
        f = U(c.func)
        args = c.args
        m = re.fullmatch(r"(\w+)\.close", f)
        if m and m.group(1) in roles.handle and not args:
            return ["SClose %s" % roles.handle[m.group(1)]]
        m = re.fullmatch(r"(\w+)\.moveTo", f)
        if m and m.group(1) in roles.obj and len(args) == 1 and U(args[0]) in roles.obj:
            return ["SMove %s %s" % (roles.obj[m.group(1)], roles.obj[U(args[0])])]
        if f in ("os.rename", "os.replace") and len(args) == 2:
            return ["SMove %s %s" % (roles.path_role(args[0], where), roles.path_role(args[1], where))]
        if f == "os.chmod" and len(args) == 2:
            return ["SChmod %s" % roles.path_role(args[0], where)]
        if f in ("os.unlink", "os.remove") and len(args) == 1:
            return ["SUnlink %s" % roles.path_role(args[0], where)]
        m = re.fullmatch(r"(\w+)\.remove", f)
        if m and m.group(1) in roles.obj and not args:
            return ["SUnlink %s" % roles.obj[m.group(1)]]
        if f == "json.dump" and len(args) >= 2 and U(args[1]) in roles.handle:
            return ["SDump %s" % roles.handle[U(args[1])]]
        if expand_call and f in expand_call and len(args) == len(expand_call[f][0]):
            params, fn = expand_call[f]
            sub = Roles()
            for p_, a in zip(params, args):
                sub.path[p_] = roles.path_role(a, where)
            return steps_of_body(fn.body, sub, where + ">" + f)
    if roles.mentions(t):
        raise P.Untranslatable("%s: unrecognised statement touching a file: %s" % (where, t))
    return []


def steps_of_body(body, roles, where, expand_call=None):
    out = []
    for st in strip_doc(body):
        s = step_of_stmt(st, roles, where, expand_call)
        if s is None:
            break
        out += s
    return out


def coq_steps(name, steps):
    return "Definition %s : list stepk := [%s]." % (name, "; ".join(steps))


def _alpha(fn, body, param_to=None, first_local_to=None):
    """body with the (single) non-self parameter renamed to `param_to`, resp. the local bound by the FIRST statement renamed to
    `first_local_to`.  Renaming a parameter that is only ever passed positionally (Deferred callbacks are) or a local variable
    consistently is the same program, provided the new name is not already used in the function for something else -- checked."""
    import copy
    mapping = {}
    used = {x.id for st in body for x in ast.walk(st) if isinstance(x, ast.Name)} | {a.arg for a in fn.args.args}
    if param_to is not None:
        ps = [a.arg for a in fn.args.args]
        if len(ps) == 2 and ps[0] == "self" and not fn.args.vararg and not fn.args.kwarg and not fn.args.kwonlyargs and not fn.args.defaults \
                and ps[1] != param_to and param_to not in used:
            mapping[ps[1]] = param_to
    if first_local_to is not None and body and isinstance(body[0], ast.Assign) and len(body[0].targets) == 1 \
            and isinstance(body[0].targets[0], ast.Name):
        v = body[0].targets[0].id
        stores = [x for st in body for x in ast.walk(st) if isinstance(x, ast.Name) and isinstance(x.ctx, ast.Store) and x.id == v]
        if v != first_local_to and first_local_to not in used and len(stores) == 1 \
                and not any(isinstance(x, (ast.FunctionDef, ast.Lambda, ast.Global, ast.Nonlocal)) for st in body for x in ast.walk(st)):
            mapping[v] = first_local_to
    if not mapping:
        return body
    return [ast.fix_missing_locations(_Rename(mapping).visit(copy.deepcopy(st))) for st in body]


def _early_return_to_else(body):
    """`if not c: B...; return` followed by A...   ==>   `if c: A... else: B...`
    Same statements in the same order for every value of c (its truth is evaluated once in both forms); both forms fall off
    the end / return None.  Only applied when the `if` is the first statement, has no else, its last statement is a bare
    `return` (or `return None`), and neither B nor A contains another return."""
    if len(body) >= 2 and isinstance(body[0], ast.If) and not body[0].orelse and isinstance(body[0].test, ast.UnaryOp) \
            and isinstance(body[0].test.op, ast.Not) and body[0].body and isinstance(body[0].body[-1], ast.Return) \
            and (body[0].body[-1].value is None or (isinstance(body[0].body[-1].value, ast.Constant) and body[0].body[-1].value.value is None)):
        B, A = body[0].body[:-1], body[1:]
        if B and not any(isinstance(x, (ast.Return, ast.Yield, ast.YieldFrom)) for st in B + A for x in ast.walk(st)):
            return [ast.fix_missing_locations(ast.If(test=body[0].test.operand, body=A, orelse=B))]
    return body


def gen_putfile(out):
    mod = P.load("appserver/services.py")
    fn = P.find_def(mod, "FileUploader.remote_putfile")
    where = "remote_putfile"
    roles = Roles()
    ctor = None
    guard_at = None
    open_at = None
    ext = None
    main = []
    cbs = {}
    wired = None
    reader_var = None
    d_var = None
    refused = []
    body = strip_doc(fn.body)
    for i, st in enumerate(body):
        t = U(st)
        if t == "name = six.ensure_str(name)":
            continue
        if isinstance(st, ast.Assign) and len(st.targets) == 1 and isinstance(st.targets[0], ast.Name):
            v, val = st.targets[0].id, U(st.value)
            if val == "self.targetdir.child(name)":
                ctor = "child"
                roles.obj[v] = "Final"
                roles.path[v + ".path"] = "Final"
                continue
            m = re.fullmatch(r"(\w+)\.siblingExtension\((.+)\)", val)
            if m and roles.obj.get(m.group(1)) == "Final":
                ext = ast.literal_eval(m.group(2))
                roles.obj[v] = "Tmp"
                roles.path[v + ".path"] = "Tmp"
                continue
            m = re.fullmatch(r"(\w+)\.open\('(\w+)'\)", val)
            if m and m.group(1) in roles.obj:
                if "w" not in m.group(2):
                    raise P.Untranslatable("remote_putfile opens with mode %r" % m.group(2))
                roles.handle[v] = roles.obj[m.group(1)]
                main.append("SOpen %s" % roles.obj[m.group(1)])
                open_at = i
                continue
            m = re.fullmatch(r"FileUploaderReader\((\w+), source\)", val)
            if m and m.group(1) in roles.handle:
                reader_var = (v, roles.handle[m.group(1)])
                continue
            if reader_var and val == "%s.read_file()" % reader_var[0]:
                main.append("SBlocks %s" % reader_var[1])
                d_var = v
                continue
        # an up-front refusal of literal names: `if name in (<literals>): raise ..` / `if name == <literal>: raise ..`
        # (os.curdir / os.pardir are '.' / '..' on POSIX).  It can only refuse MORE names; which ones is part of the model.
        if isinstance(st, ast.If) and not st.orelse and st.body and isinstance(st.body[-1], ast.Raise) and ctor is None \
                and isinstance(st.test, ast.Compare) and len(st.test.ops) == 1 and U(st.test.left) == "name" \
                and not any(roles.mentions(U(x)) for x in st.body[:-1]):
            lits = None
            cmpv = st.test.comparators[0]
            if isinstance(st.test.ops[0], ast.In) and isinstance(cmpv, (ast.Tuple, ast.List, ast.Set)):
                lits = cmpv.elts
            elif isinstance(st.test.ops[0], ast.Eq):
                lits = [cmpv]
            vals = []
            for e in lits or []:
                if isinstance(e, ast.Constant) and isinstance(e.value, str):
                    vals.append(e.value)
                elif U(e) in ("os.curdir", "os.pardir"):
                    vals.append("." if U(e) == "os.curdir" else "..")
                else:
                    vals = None
                    break
            if lits is not None and vals is not None:
                refused.extend(vals)
                continue
        mg = re.fullmatch(r"(\w+)\.parent\(\) != self\.targetdir", U(st.test)) if isinstance(st, ast.If) else None
        if mg and roles.obj.get(mg.group(1)) == "Final" and len(st.body) >= 1 and isinstance(st.body[-1], ast.Raise) \
                and not st.orelse:
            guard_at = i
            continue
        # if tmpfile.islink(): tmpfile.remove()      (never write through a pre-existing symlink)
        if isinstance(st, ast.If) and not st.orelse and len(st.body) == 1:
            m = re.fullmatch(r"(\w+)\.(islink|exists)\(\)", U(st.test))
            if m and m.group(1) in roles.obj and U(st.body[0]) in ("%s.remove()" % m.group(1),
                                                                   "os.unlink(%s.path)" % m.group(1),
                                                                   "os.remove(%s.path)" % m.group(1)):
                # islink() is lstat-based; exists() follows symlinks (False for a dangling link)
                main.append("%s %s" % ("SUnlinkIfLink" if m.group(2) == "islink" else "SUnlinkIfExists", roles.obj[m.group(1)]))
                continue
        if isinstance(st, ast.FunctionDef):
            cbs[st.name] = steps_of_body(st.body, roles, where + "." + st.name)
            continue
        if d_var and isinstance(st, ast.Expr) and re.fullmatch(r"%s\.addCallbacks\((\w+), (\w+)\)" % d_var, t):
            wired = re.fullmatch(r"%s\.addCallbacks\((\w+), (\w+)\)" % d_var, t).groups()
            continue
        if isinstance(st, ast.Return):
            if t != "return %s" % d_var:
                raise P.Untranslatable("remote_putfile returns %s" % t)
            break
        if roles.mentions(t) or "name" in t.split():
            raise P.Untranslatable("remote_putfile: unrecognised statement: " + t)
    if ctor != "child":
        raise P.Untranslatable("remote_putfile no longer builds the target with self.targetdir.child(name)")
    if ext is None or open_at is None or not wired or wired[0] not in cbs or wired[1] not in cbs:
        raise P.Untranslatable("remote_putfile: missing siblingExtension/open/addCallbacks")
    guard = "GuardParentEq" if (guard_at is not None and guard_at < open_at) else "NoGuard"
    out.append("(* appserver/services.py FileUploader.remote_putfile *)")
    out.append("Definition putfile_guard : guardk := %s." % guard)
    out.append("Definition putfile_refused : list (list N) := [%s].  (* literal names refused before child(): %r *)"
               % ("; ".join(blist(x) for x in refused), refused))
    out.append("Definition putfile_tmp_ext : list N := %s.  (* %r *)" % (blist(ext), ext))
    out.append(coq_steps("putfile_main", main))
    out.append(coq_steps("putfile_done", cbs[wired[0]]))
    out.append(coq_steps("putfile_err", cbs[wired[1]]))
    # the reader: writes every non-empty block, finishes on an empty one, errbacks on a source error
    gd = P.find_def(mod, "FileUploaderReader._got_data")
    b = _early_return_to_else(_alpha(gd, strip_doc(gd.body), param_to="data"))
    ok = (len(b) == 1 and isinstance(b[0], ast.If) and U(b[0].test) == "data"
          and [U(s) for s in b[0].body] == ["self.f.write(data)", "self.read_block()"]
          and [U(s) for s in b[0].orelse] == ["self.d.callback(None)"])
    gef = P.find_def(mod, "FileUploaderReader._got_error")
    ge = [U(s) for s in _alpha(gef, strip_doc(gef.body), param_to="f")]
    rbf = P.find_def(mod, "FileUploaderReader.read_block")
    rb = [U(s) for s in _alpha(rbf, strip_doc(rbf.body), first_local_to="d")]
    call = "d = self.source.callRemote('read', self.BLOCKSIZE)"
    # d.addCallback(_got_data); d.addErrback(_got_error): the errback ALSO sees an exception raised by _got_data itself
    # (f.write failing).  d.addCallbacks(_got_data, _got_error) / errback added first: it only sees a failed callRemote.
    if rb == [call, "d.addCallback(self._got_data)", "d.addErrback(self._got_error)"]:
        covered = True
    elif rb in ([call, "d.addCallbacks(self._got_data, self._got_error)"],
                [call, "d.addErrback(self._got_error)", "d.addCallback(self._got_data)"]):
        covered = False
    else:
        covered = None
    if not ok or ge != ["self.d.errback(f)"] or covered is None:
        raise P.Untranslatable("FileUploaderReader changed shape: %s / %s / %s" % ([U(s) for s in b], ge, rb))
    out.append("Definition reader_shape_ok : bool := true.  (* write(data) per non-empty block; callback on empty; "
               "errback on source error *)")
    out.append("Definition reader_write_error_handled : bool := %s.  (* an exception raised while writing a block reaches "
               "_got_error, hence remote_putfile's _err *)" % ("true" if covered else "false"))


def gen_registry(out):
    mod = P.load("appserver/server.py")
    fn = P.find_def(mod, "save_service_data")
    um = P.load("util.py")
    mip = P.find_def(um, "move_into_place")
    mparams = [a.arg for a in mip.args.args]
    if len(mparams) != 2:
        raise P.Untranslatable("move_into_place signature changed")
    roles = Roles()
    steps = []
    found = {}
    WIN_PRED[:] = [um]

    def void_helper(st):
        """`h(a1..an)` as a whole statement, h a plain module-level function of server.py (defined once, no decorators, only
        positional parameters, never assigns a parameter, no nested def/lambda/yield/global, no `return <value>`), every
        argument a bare name: the call runs h's body with the parameters bound to the very objects the arguments denote, in a
        fresh frame; so its file statements are the caller's, performed at this point, on the files the arguments denote."""
        if not (isinstance(st, ast.Expr) and isinstance(st.value, ast.Call) and isinstance(st.value.func, ast.Name)
                and not st.value.keywords and all(isinstance(a, ast.Name) for a in st.value.args)):
            return None
        hs = [n for n in mod.body if isinstance(n, ast.FunctionDef) and n.name == st.value.func.id]
        if len(hs) != 1 or hs[0] is fn:
            return None
        h = hs[0]
        a = h.args
        params = [x.arg for x in a.args]
        hb = strip_doc(h.body)
        inner = [x for s2 in hb for x in ast.walk(s2)]
        if h.decorator_list or a.vararg or a.kwarg or a.kwonlyargs or a.defaults or len(params) != len(st.value.args) \
                or any(isinstance(x, (ast.FunctionDef, ast.Lambda, ast.Yield, ast.YieldFrom, ast.Global, ast.Nonlocal, ast.ClassDef)) for x in inner) \
                or any(isinstance(x, ast.Return) and x.value is not None for x in inner) or (set(params) & _stored_names(hb)):
            return None
        sub = Roles()
        for p_, arg in zip(params, st.value.args):
            if arg.id in roles.path:
                sub.path[p_] = roles.path[arg.id]
        return hb, sub

    def reg_body(stmts, roles, where, top):
        for st in strip_doc(stmts):
            if isinstance(st, ast.Assign) and len(st.targets) == 1 and isinstance(st.targets[0], ast.Name):
                v, val = st.targets[0].id, U(st.value)
                m = re.fullmatch(r"os\.path\.join\(basedir, ('[^'/]+')\)", val)
                if m and top:
                    found["base"] = ast.literal_eval(m.group(1))
                    roles.path[v] = "Final"
                    continue
                m = re.fullmatch(r"(\w+) \+ ('[^'/]+')", val)
                if m and top and roles.path.get(m.group(1)) == "Final":
                    found["ext"] = ast.literal_eval(m.group(2))
                    roles.path[v] = "Tmp"
                    continue
                m = re.fullmatch(r"open\((\w+), '(\w+)'\)", val)
                if m and m.group(1) in roles.path:
                    if "w" not in m.group(2):
                        raise P.Untranslatable("save_service_data opens with mode %r" % m.group(2))
                    roles.handle[v] = roles.path[m.group(1)]
                    steps.append("SOpen %s" % roles.path[m.group(1)])
                    continue
            vh = void_helper(st)
            if vh is not None:
                if not reg_body(vh[0], vh[1], where + ">" + st.value.func.id, False):
                    raise P.Untranslatable("%s: helper %s returns early" % (where, st.value.func.id))
                continue
            s = step_of_stmt(st, roles, where, expand_call={"move_into_place": (mparams, mip)})
            if s is None:
                return False
            steps.extend(s)
        return True

    reg_body(fn.body, roles, "save_service_data", True)
    base, ext = found.get("base"), found.get("ext")
    if base is None or ext is None:
        raise P.Untranslatable("save_service_data: services file / tmp file construction not recognised")
    out.append("(* appserver/server.py save_service_data + util.py move_into_place *)")
    out.append("Definition registry_basename : list N := %s.  (* %r *)" % (blist(base), base))
    out.append("Definition registry_tmp_ext : list N := %s.  (* %r *)" % (blist(ext), ext))
    out.append(coq_steps("registry_steps", steps))
    # load_service_data reads the file that save_service_data publishes: join(basedir, <literal>), used when
    # os.path.exists() says it is there, parsed with json.load(open(...))
    ld = strip_doc(P.find_def(mod, "load_service_data").body)
    lbase = lvar = None
    for st in ld:
        if isinstance(st, ast.Assign) and len(st.targets) == 1 and isinstance(st.targets[0], ast.Name):
            m = re.fullmatch(r"os\.path\.join\(basedir, ('[^'/]+')\)", U(st.value))
            if m:
                lvar, lbase = st.targets[0].id, ast.literal_eval(m.group(1))
                break
    ifs = [st for st in ld if isinstance(st, ast.If) and lvar and U(st.test) == "os.path.exists(%s)" % lvar]
    if lbase is None or len(ifs) != 1 or not re.search(r"json\.load\(\s*open\(%s(, 'rb?')?\)\s*\)|json\.load\((\w+)\)" % re.escape(lvar),
                                                      "\n".join(U(s) for s in ifs[0].body)):
        raise P.Untranslatable("load_service_data: the services file is no longer join(basedir, <literal>) read with json.load "
                               "when os.path.exists() holds")
    out.append("Definition registry_load_basename : list N := %s.  (* %r: what load_service_data reads *)" % (blist(lbase), lbase))


class _Rename(ast.NodeTransformer):
    def __init__(self, mapping):
        self.m = mapping

    def visit_Name(self, node):
        if node.id in self.m:
            return ast.copy_location(ast.Name(id=self.m[node.id], ctx=node.ctx), node)
        return node


def _stored_names(nodes):
    out = set()
    for n in nodes:
        for x in ast.walk(n):
            if isinstance(x, ast.Name) and isinstance(x.ctx, (ast.Store, ast.Del)):
                out.add(x.id)
            elif isinstance(x, ast.arg):
                out.add(x.arg)
    return out


def inline_tuple_helper(cls, fn):
    """body of fn with every top-level `t1,..,tn = self.H(a1..am)` replaced by H's body (see the module docstring for the
    side conditions and the equivalence argument).  Statements that do not qualify are left alone."""
    import copy
    body = strip_doc(fn.body)
    out = []
    for st in body:
        ok = (isinstance(st, ast.Assign) and len(st.targets) == 1 and isinstance(st.targets[0], ast.Tuple)
              and all(isinstance(e, ast.Name) for e in st.targets[0].elts)
              and isinstance(st.value, ast.Call) and isinstance(st.value.func, ast.Attribute)
              and isinstance(st.value.func.value, ast.Name) and st.value.func.value.id == "self"
              and not st.value.keywords and all(isinstance(a, ast.Name) for a in st.value.args))
        if not ok:
            out.append(st)
            continue
        targets = [e.id for e in st.targets[0].elts]
        hs = [n for n in cls.body if isinstance(n, (ast.FunctionDef, ast.AsyncFunctionDef)) and n.name == st.value.func.attr]
        if len(hs) != 1 or not isinstance(hs[0], ast.FunctionDef) or len(set(targets)) != len(targets):
            out.append(st)
            continue
        h = hs[0]
        a = h.args
        params = [x.arg for x in a.args]
        hb = strip_doc(h.body)
        good = (not h.decorator_list and not a.vararg and not a.kwarg and not a.kwonlyargs and not a.posonlyargs and not a.defaults
                and params[:1] == ["self"] and len(params) - 1 == len(st.value.args) and hb
                and isinstance(hb[-1], ast.Return) and isinstance(hb[-1].value, ast.Tuple)
                and all(isinstance(e, ast.Name) for e in hb[-1].value.elts) and len(hb[-1].value.elts) == len(targets))
        if good:
            inner = [x for s2 in hb[:-1] for x in ast.walk(s2)]
            good = not any(isinstance(x, (ast.Return, ast.FunctionDef, ast.AsyncFunctionDef, ast.Lambda, ast.Yield, ast.YieldFrom,
                                          ast.Global, ast.Nonlocal, ast.ClassDef, ast.Await)) for x in inner)
        if good:
            rets = [e.id for e in hb[-1].value.elts]
            stored = _stored_names(hb[:-1])
            args = [x.id for x in st.value.args]
            caller_names = {x.id for s2 in body for x in ast.walk(s2) if isinstance(x, ast.Name)} | {x.arg for x in fn.args.args}
            good = (len(set(rets)) == len(rets) and all(r in stored for r in rets)
                    and not (set(params) & stored)                        # parameters are never assigned
                    and not ((stored - set(rets)) & (caller_names | set(targets)))   # helper locals do not clash
                    and not (set(params[1:]) & (stored | set(rets))))
        if not good:
            out.append(st)
            continue
        mapping = dict(zip(params[1:], args))
        mapping.update(dict(zip(rets, targets)))
        for s2 in hb[:-1]:
            out.append(ast.fix_missing_locations(_Rename(mapping).visit(copy.deepcopy(s2))))
    return out


def gen_gatherer(out):
    mod = P.load("logging/gatherer.py")
    fn = P.find_def(mod, "IncidentObserver._got_incident")
    body = inline_tuple_helper(P.find_class(mod, "IncidentObserver"), fn)
    texts = [U(s) for s in body]
    # fp = self.basedir.child(name) ; [if fp.parent() != self.basedir: raise] ; abs_fn = fp.path + '.flog.bz2'
    # (older form: abs_fn = self.basedir.child(name).path ; abs_fn += '.flog.bz2')
    fpvar = None
    ext = None
    built = False
    guard_at = None
    rawvars = {}
    source = "FromValidated"
    for i, (st, t) in enumerate(zip(body, texts)):
        m = re.fullmatch(r"(\w+) = self\.basedir\.child\(name\)", t)
        if m:
            fpvar = m.group(1)
            continue
        if t == "abs_fn = self.basedir.child(name).path":
            built = True
            continue
        m = re.fullmatch(r"abs_fn = (\w+)\.path \+ ('[^'/]+')", t)
        if m and m.group(1) == fpvar:
            built = True
            ext = ast.literal_eval(m.group(2))
            continue
        m = re.fullmatch(r"abs_fn = self\.basedir\.child\(name\)\.path \+ ('[^'/]+')", t)
        if m:
            built = True
            ext = ast.literal_eval(m.group(1))
            continue
        m = re.fullmatch(r"abs_fn \+= ('[^'/]+')", t)
        if m and built and ext is None:
            ext = ast.literal_eval(m.group(1))
            continue
        if isinstance(st, ast.If) and fpvar and U(st.test) == "%s.parent() != self.basedir" % fpvar \
                and st.body and isinstance(st.body[-1], ast.Raise) and not st.orelse:
            guard_at = i
            continue
        # the file is named from the RAW name instead of the validated, normalised child:
        #   savename = name + '.flog.bz2' ; abs_fn = os.path.join(self.basedir.path, savename)
        m = re.fullmatch(r"(\w+) = name \+ ('[^'/]+')", t)
        if m and m.group(1) != "abs_fn":
            rawvars[m.group(1)] = ast.literal_eval(m.group(2))
            continue
        m = re.fullmatch(r"abs_fn = os\.path\.join\(self\.basedir\.path, (.+)\)", t)
        if m:
            a = m.group(1)
            m2 = re.fullmatch(r"name \+ ('[^'/]+')", a)
            if a in rawvars:
                ext = rawvars[a]
            elif m2:
                ext = ast.literal_eval(m2.group(1))
            else:
                raise P.Untranslatable("_got_incident: abs_fn joined from an unrecognised expression: " + t)
            built = True
            source = "FromRawName"
            continue
        if re.search(r"\babs_fn\s*(\+?=)", t):
            raise P.Untranslatable("_got_incident: abs_fn assigned in an unrecognised way: " + t)
    if not built or ext is None or "self.save_incident(abs_fn, incident)" not in texts:
        raise P.Untranslatable("_got_incident: path construction / save_incident call not recognised: %s" % texts)
    i_save = texts.index("self.save_incident(abs_fn, incident)")
    guard = "GuardParentEq" if (guard_at is not None and guard_at < i_save) else "NoGuard"
    for t in texts:
        if re.search(r"\bopen\(|os\.path\.join\(self\.basedir(?!\.path, )|os\.(rename|unlink|remove)", t):
            raise P.Untranslatable("_got_incident: unrecognised file statement: " + t)
    si = [U(s) for s in strip_doc(P.find_def(mod, "IncidentObserver.save_incident").body)]
    if "f = bz2.BZ2File(filename, 'w')" not in si:
        raise P.Untranslatable("save_incident no longer writes BZ2File(filename, 'w')")
    ul = [U(s) for s in strip_doc(P.find_def(mod, "IncidentObserver.update_latest").body)]
    m = re.fullmatch(r"(\w+) = self\.basedir\.child\('latest'\)\.path", ul[0]) if ul else None
    via_local = bool(m) and len(ul) >= 2 and ul[1] == "f = open(%s, 'w')" % m.group(1) and m.group(1) != "f" \
        and sum(len(re.findall(r"\b%s\b" % re.escape(m.group(1)), t)) for t in ul) == 2
    if m and not via_local and len(ul) >= 3 and m.group(1) != "f":
        # v = <expr> ; if os.path.islink(v): os.unlink(v) ; f = open(v, 'w')     (v used nowhere else)
        v = m.group(1)
        via_local = ul[1] in ("if os.path.islink(%s):\n    os.unlink(%s)" % (v, v), "if os.path.islink(%s):\n    os.remove(%s)" % (v, v)) \
            and ul[2] == "f = open(%s, 'w')" % v and sum(len(re.findall(r"\b%s\b" % re.escape(v), t)) for t in ul) == 4
    if ul[:1] != ["f = open(self.basedir.child('latest').path, 'w')"] and not via_local:
        raise P.Untranslatable("update_latest changed: %s" % ul)
    # is a pre-existing symbolic link at the file's name removed before the file is opened for writing?
    #   if os.path.islink(X): os.unlink(X) | os.remove(X)      immediately before     f = bz2.BZ2File(X, 'w') / f = open(X, 'w')
    def link_guarded(texts, open_re, what):
        idx = [i for i, t in enumerate(texts) if re.fullmatch(open_re, t)]
        if len(idx) != 1:
            raise P.Untranslatable("%s: expected exactly one statement opening the file for writing: %s" % (what, texts))
        i = idx[0]
        x = re.fullmatch(open_re, texts[i]).group(1)
        guard = i > 0 and texts[i - 1] in ("if os.path.islink(%s):\n    os.unlink(%s)" % (x, x), "if os.path.islink(%s):\n    os.remove(%s)" % (x, x))
        others = [t for j, t in enumerate(texts) if j != i and not (guard and j == i - 1)
                  and re.search(r"\bos\.(unlink|remove|rename|replace|symlink|link)\b|\bislink\b|\bopen\(|BZ2File\(", t)]
        if others:
            raise P.Untranslatable("%s: unrecognised file statement(s): %s" % (what, others))
        if "f.close()" not in texts[i + 1:]:
            raise P.Untranslatable("%s: the file is not closed by f.close(): %s" % (what, texts))
        return guard
    save_guarded = link_guarded(si, r"f = bz2\.BZ2File\((\w+), 'w'\)", "save_incident")
    latest_guarded = link_guarded(ul, r"f = open\((.+), 'w'\)", "update_latest")
    out.append("(* logging/gatherer.py IncidentObserver._got_incident *)")
    out.append("Definition gatherer_guard : guardk := %s." % guard)
    out.append("Definition gatherer_path_source : pathsrc := %s.  (* is the written file derived from the validated child "
               "or from the raw name *)" % source)
    out.append("Definition gatherer_ext : list N := %s.  (* %r *)" % (blist(ext), ext))
    out.append("Definition gatherer_latest : list N := %s." % blist("latest"))
    out.append("Definition gatherer_save_guarded : bool := %s.  (* save_incident removes a pre-existing symlink before opening the savefile *)"
               % ("true" if save_guarded else "false"))
    out.append("Definition gatherer_latest_guarded : bool := %s.  (* update_latest removes a pre-existing symlink before opening `latest` *)"
               % ("true" if latest_guarded else "false"))
    # IncidentObserver.connect reads the same `latest` file back and sends its content to the publisher as since=:
    #   v = self.basedir.child('latest').path ; .. ; try: [if not os.path.islink(v):] latest = open(v, 'r').read().strip()
    #   except EnvironmentError: pass
    # with the bracketed test a symbolic link there is not opened; without it (the form before the fix) it is read through.
    cn = strip_doc(P.find_def(mod, "IncidentObserver.connect").body)
    ct = [U(s) for s in cn]
    m = re.fullmatch(r"(\w+) = self\.basedir\.child\('latest'\)\.path", ct[0]) if ct else None
    trys = [s for s in cn if isinstance(s, ast.Try)]
    if not m or len(trys) != 1:
        raise P.Untranslatable("IncidentObserver.connect: state file / try block not recognised: %s" % ct[:4])
    v = m.group(1)
    t = trys[0]
    READ = "latest = open(%s, 'r').read().strip()" % v
    tb = [U(s) for s in t.body]
    if tb == [READ]:
        state_guarded = False
    elif tb == ["if not os.path.islink(%s):\n    %s" % (v, READ)]:
        state_guarded = True
    else:
        state_guarded = None
    if state_guarded is None or t.orelse or t.finalbody or len(t.handlers) != 1 or t.handlers[0].type is None \
            or U(t.handlers[0].type) not in ("EnvironmentError", "OSError", "IOError") or [U(x) for x in t.handlers[0].body] != ["pass"]:
        raise P.Untranslatable("IncidentObserver.connect: the state file is read in an unrecognised way: %s" % U(t))
    for s_, tx in zip(cn[1:], ct[1:]):
        if s_ is not t and re.search(r"\b%s\b|\bopen\(|\bos\.|BZ2File\(" % re.escape(v), tx):
            raise P.Untranslatable("IncidentObserver.connect: unrecognised file statement: " + tx)
    out.append("Definition gatherer_state_read_guarded : bool := %s.  (* connect does not open `latest` for reading when it is a symbolic link *)"
               % ("true" if state_guarded else "false"))


def gen_publisher(out):
    mod = P.load("logging/publish.py")
    fn = P.find_def(mod, "LogPublisher.remote_get_incident")
    body = strip_doc(fn.body)
    texts = [U(s) for s in body]
    prefix = None
    for s in body:
        if isinstance(s, ast.If) and s.body and isinstance(s.body[-1], ast.Raise):
            m = re.fullmatch(r"not name\.startswith\(('[^']*')\)", U(s.test))
            if m:
                prefix = ast.literal_eval(m.group(1))
    if prefix is None:
        raise P.Untranslatable("remote_get_incident: the name.startswith(...) test is gone")
    if "incident_dir = filepath.FilePath(self._logger.logdir)" not in texts:
        raise P.Untranslatable("remote_get_incident: incident_dir construction changed")
    ext1 = None
    fpvar = None
    guard_at = None
    for i, (st, t) in enumerate(zip(body, texts)):
        m = re.fullmatch(r"(\w+) = incident_dir\.child\(name\)", t)
        if m:
            fpvar = m.group(1)
            continue
        m = re.fullmatch(r"abs_fn = incident_dir\.child\(name\)\.path \+ ('[^'/]+')", t)
        if m:
            ext1 = ast.literal_eval(m.group(1))
            continue
        m = re.fullmatch(r"abs_fn = (\w+)\.path \+ ('[^'/]+')", t)
        if m and m.group(1) == fpvar:
            ext1 = ast.literal_eval(m.group(2))
            continue
        if isinstance(st, ast.If) and fpvar and U(st.test) == "%s.parent() != incident_dir" % fpvar \
                and st.body and isinstance(st.body[-1], ast.Raise) and not st.orelse:
            guard_at = i
            continue
        if re.match(r"abs_fn\s*\+?=", t):
            raise P.Untranslatable("remote_get_incident: abs_fn assigned in an unrecognised way: " + t)
    if ext1 is None:
        raise P.Untranslatable("remote_get_incident: abs_fn construction changed: %s" % texts)
    trys = [s for s in body if isinstance(s, ast.Try)]
    if len(trys) != 1:
        raise P.Untranslatable("remote_get_incident: expected one try block")
    tt = [U(s) for s in trys[0].body]
    m = re.fullmatch(r"fn = abs_fn \+ ('[^'/]+')", tt[0]) if tt else None
    if not m or "fn = abs_fn" not in U(trys[0].body[1]) or "events = flogfile.get_events(fn)" not in tt:
        raise P.Untranslatable("remote_get_incident: file selection changed: %s" % tt)
    ext2 = ast.literal_eval(m.group(1))
    # `if os.path.islink(fn): raise KeyError(..)` between the selection of fn and flogfile.get_events(fn)
    i_ev = tt.index("events = flogfile.get_events(fn)")
    link_refused = any(re.fullmatch(r"if os\.path\.islink\(fn\):\n    raise KeyError\(.*\)", t) for t in tt[2:i_ev])
    if any(re.search(r"\bfn\s*=", t) for t in tt[2:i_ev]):
        raise P.Untranslatable("remote_get_incident: fn is re-assigned before it is read: %s" % tt)
    guard = "GuardParentEq" if (guard_at is not None and guard_at < body.index(trys[0])) else "NoGuard"
    out.append("(* logging/publish.py LogPublisher.remote_get_incident *)")
    out.append("Definition publisher_prefix : list N := %s.  (* %r *)" % (blist(prefix), prefix))
    out.append("Definition publisher_guard : guardk := %s." % guard)
    out.append("Definition publisher_ext : list N := %s.  (* %r *)" % (blist(ext1), ext1))
    out.append("Definition publisher_ext2 : list N := %s.  (* %r, tried first as abs_fn + ext2 *)" % (blist(ext2), ext2))
    out.append("Definition publisher_link_refused : bool := %s.  (* a symbolic link at the selected file name is refused (KeyError) instead of read *)"
               % ("true" if link_refused else "false"))
    # list_incident_names: which entries of os.listdir(logdir) are reported (and opened by get_incident_trigger)
    ln = P.find_def(mod, "LogPublisher.list_incident_names")
    lb = strip_doc(ln.body)
    lt = [U(s) for s in lb]
    loops = [s for s in lb if isinstance(s, ast.For)]
    if "basedir = self._logger.logdir" not in lt or len(loops) != 1 or U(loops[0].iter) != "os.listdir(basedir)" \
            or U(loops[0].target) != "fn" or len(loops[0].body) != 1 or not isinstance(loops[0].body[0], ast.If) or loops[0].body[0].orelse:
        raise P.Untranslatable("list_incident_names: no longer one loop over os.listdir(self._logger.logdir): %s" % lt)
    sel = loops[0].body[0]
    m = re.fullmatch(r"fn\.startswith\(('[^']*')\) and \(?not fn\.endswith\(('[^']*')\)\)?", U(sel.test))
    inner = [U(s) for s in sel.body]
    m2 = re.fullmatch(r"basename = six\.ensure_str\(self\.trim\(fn, (.+)\)\)", inner[0]) if inner else None
    # the reported pair: fullname = join(basedir, fn) ; [if os.path.islink(fullname): continue] ; yield (basename, fullname)
    # with the bracketed statement a symbolic link in the log directory is never reported (hence never opened by
    # get_incident_trigger); without it (the form before the fix) it is: listing_link_skipped = false.  Anything else fails closed.
    rep = [U(s) for s in sel.body[1].body] if (len(sel.body) == 2 and isinstance(sel.body[1], ast.If)) else None
    FULL, YLD = "fullname = six.ensure_str(os.path.join(basedir, fn))", "yield (basename, fullname)"
    if rep == [FULL, YLD]:
        link_skipped = False
    elif rep == [FULL, "if os.path.islink(fullname):\n    continue", YLD]:
        link_skipped = True
    else:
        link_skipped = None
    ok = (m and m2 and link_skipped is not None and not sel.body[1].orelse and U(sel.body[1].test) == "basename > since")
    if not ok:
        raise P.Untranslatable("list_incident_names: selection / naming changed: %s" % U(sel))
    if any(re.search(r"\bfullname\b|\bos\.(?!listdir\(basedir\))", t) for t in lt if not t.startswith("for fn in os.listdir(basedir)")):
        raise P.Untranslatable("list_incident_names: unrecognised statement outside the loop: %s" % lt)
    # the two consumers open exactly the file they are handed: remote_list_incidents, IncidentSubscription.catch_up
    rli = [U(s) for s in strip_doc(P.find_def(mod, "LogPublisher.remote_list_incidents").body)]
    if not any(re.fullmatch(r"for \(?name, ?fn\)? in self\.list_incident_names\(since\):\n    trigger = self\.get_incident_trigger\(fn\)(\n.*)*", t) for t in rli) \
            or any(re.search(r"\bopen\(|\bos\.", t) for t in rli):
        raise P.Untranslatable("remote_list_incidents no longer reads each reported file through get_incident_trigger: %s" % rli)
    cu = [U(s) for s in strip_doc(P.find_def(mod, "IncidentSubscription.catch_up").body)]
    if cu[:1] != ["new = dict(self.publisher.list_incident_names(since))"] or "trigger = self.publisher.get_incident_trigger(fn)" not in "\n".join(cu) \
            or any(re.search(r"\bopen\(|\bos\.", t) for t in cu):
        raise P.Untranslatable("IncidentSubscription.catch_up no longer reads the reported files through get_incident_trigger: %s" % cu)
    trims = list(ast.literal_eval("(" + m2.group(1) + ",)"))
    tr = [U(s) for s in strip_doc(P.find_def(mod, "LogPublisher.trim").body)]
    if tr != ["for suffix in suffixes:\n    if s.endswith(suffix):\n        s = s[:-len(suffix)]", "return s"] or not all(isinstance(x, str) and x for x in trims):
        raise P.Untranslatable("LogPublisher.trim changed: %s" % tr)
    git = [U(s) for s in strip_doc(P.find_def(mod, "LogPublisher.get_incident_trigger").body)]
    if not git or git[0] != "events = flogfile.get_events(abs_fn)":
        raise P.Untranslatable("get_incident_trigger no longer reads exactly the file it is given: %s" % git[:1])
    out.append("(* logging/publish.py LogPublisher.list_incident_names / trim *)")
    out.append("Definition listing_prefix : list N := %s.  (* %r *)" % (blist(ast.literal_eval(m.group(1))), ast.literal_eval(m.group(1))))
    out.append("Definition listing_skip_suffix : list N := %s.  (* %r *)" % (blist(ast.literal_eval(m.group(2))), ast.literal_eval(m.group(2))))
    out.append("Definition listing_trim : list (list N) := [%s].  (* %r *)" % ("; ".join(blist(x) for x in trims), trims))
    out.append("Definition listing_link_skipped : bool := %s.  (* list_incident_names skips (does not report) an entry that is a symbolic link *)"
               % ("true" if link_skipped else "false"))


def generate():
    out = ["(* GENERATED by /verif/translate/g_upload.py from appserver/services.py, appserver/server.py, util.py,\n"
           "   logging/gatherer.py, logging/publish.py -- do not edit; regenerated on every run *)\n"
           "From Coq Require Import NArith List.\nImport ListNotations.\nRequire Import Verif.lib.UploadShape."]
    gen_putfile(out)
    gen_registry(out)
    gen_gatherer(out)
    gen_publisher(out)
    return {"UploadGen.v": "\n\n".join(out) + "\n"}
