"""C16: reconnector.py -> coq/gen/ReconnectorGen.v

Every method of foolscap.reconnector.Reconnector that takes part in the retry state machine is
translated statement by statement into an action  st -> st * list out  over the primitives of
coq/lib/ReconnectorBase.v; the class constants and number literals become exact rationals: the exact
value of the int / IEEE double the literal denotes (taken from the parsed constant, never from source
text, so a literal reached through a propagated named constant is read the same way).  Statements which only log, remember the last failure
or fill the informational ReconnectionInfo are recognised *exactly* (white list on the unparsed
text) and dropped; anything else raises Untranslatable (fail closed).

The wiring facts the hand-written event dispatcher of lib/Reconnector.v relies on are checked here:
getReference's Deferred gets (_connected, _failed); notifyOnDisconnect gets _disconnected;
callLater gets _timer_expired; Tub.connectTo/startService/stopService call startConnecting and
stopConnecting the way the `permitted` predicate assumes.

Accepted forms beyond the reference text (each with its equivalence argument):

  * number literals by value.  `self._timer.reset(1.0)` and `self._timer.reset(RESET_DELAY)` with the module
    constant `RESET_DELAY = 1.0` propagated by the front-end give the same ast.Constant(1.0); the translator
    reads `node.value` (exact Fraction of the double), which is the object Python passes at run time in both
    forms.  No assumption about types: only int/float constants that are not bool are accepted.

  * effect-free helper methods.  A method of Reconnector that the model does not know is accepted iff its
    body consists ONLY of statements from the white list of statements the translation drops anyway (logging,
    `log_it = ...`, `ci = ...`, `if <pure test>: <such statements>`) plus `return <local name | literal |
    pure test>`; it takes only `self` and plain positional parameters.  Such a method cannot touch any field
    of the modelled state (_active, _stopped, _tub, _delay, _timer, the Deferreds, the watchers, the
    ReconnectionInfo state) nor call anything that does, so a call `self.<helper>(<names>)` is a pure test in
    the sense of PURE_TESTS: `if self._should_log_failure(f): log.msg(...)` is dropped exactly as
    `if log_it: log.msg(...)` was.  The arguments must be plain names (evaluating them calls nothing).  This
    does not depend on the value the helper returns: the guarded block is itself effect-free, so neither
    branch changes the modelled state.  (What is NOT accepted: a helper containing any translatable or unknown
    statement -- those are inlined by the front-end or fail closed.)

  * local aliases.  `x = self._reconnectionInfo` (an attribute assigned once, in __init__) and `x = self._delay`
    followed by statements that neither assign self._delay nor call a method of the Reconnector are copy-propagated:
    every later load of x in the same block is read as the attribute (the value cannot have changed in between).
    In startConnecting, after the top-level statement `self._tub = tub`, the parameter `tub` and `self._tub` are the
    same object: `tub._removeReconnector(self)` is read as `self._tub._removeReconnector(self)`.
"""
import ast
from fractions import Fraction
from translate import pylite as P

PROPERTIES = ["C16"]
OUTPUTS = ["ReconnectorGen.v"]

REL = "reconnector.py"
CONSTS = ("maxDelay", "initialDelay", "factor", "jitter")
METHODS = ["__init__", "startConnecting", "stopConnecting", "reset", "_connect", "_connected", "_failed",
           "_disconnected", "_retry", "_timer_expired"]
ISTATE = {"unstarted": "IUnstarted", "connecting": "IConnecting", "connected": "IConnected", "waiting": "IWaiting"}

# statements without effect on the state machine (exact unparsed text)
IGNORED_STMTS = {
    "self._url = url",
    "self._observer = (cb, args, kwargs)",
    "self._last_failure = None",
    "self._last_failure = f",
    "self._reconnectionInfo = ReconnectionInfo()",
    "self._reconnectionInfo._set_last_attempt(time.time())",
    "self._reconnectionInfo._set_next_attempt(time.time() + self._delay)",
    "self._reconnectionInfo._set_connection_info(ci)",
    "ci = self._tub.getConnectionInfoForFURL(self._url)",
    "ci = getattr(f, '_connectionInfo', None)",
    "log_it = self.verbose",
    "log_it = True",
    "cb, args, kwargs = self._observer",
}
# tests that may guard a block of ignored statements (pure)
PURE_TESTS = {"self.verbose", "ci", "log_it", "f.check(RemoteNegotiationError, NegotiationError)"}


def qlit(fr):
    fr = Fraction(fr)
    n, d = fr.numerator, fr.denominator
    return "(%d # %d)" % (n, d) if n >= 0 else "(-%d # %d)" % (-n, d)


class M:
    def __init__(self, src, fdef, consts, known):
        self.src = src
        self.f = fdef
        self.consts = consts
        self.known = known          # names of translated methods
        self.calls = []
        self.uses_z = 0
        self.uses_cb = 0

    def bail(self, node, why):
        raise P.Untranslatable("Reconnector.%s line %s: %s: %s" % (self.f.name, getattr(node, "lineno", "?"), why,
                                                                 ast.unparse(node)[:120]))

    def number(self, node):
        if isinstance(node, ast.Constant) and isinstance(node.value, (int, float)) and not isinstance(node.value, bool):
            try:
                return Fraction(node.value)       # exact: ints as such, doubles as the dyadic rational they are
            except (ValueError, TypeError, OverflowError):
                self.bail(node, "number literal")
        self.bail(node, "not a number literal")

    def qexpr(self, e):
        if isinstance(e, ast.Constant):
            return qlit(self.number(e))
        if isinstance(e, ast.Attribute) and isinstance(e.value, ast.Name) and e.value.id == "self":
            if e.attr == "_delay":
                return "(delay s)"
            if e.attr in self.consts:
                return e.attr
            self.bail(e, "unknown numeric attribute")
        if isinstance(e, ast.BinOp):
            ops = {ast.Mult: "*", ast.Add: "+", ast.Sub: "-", ast.Div: "/"}
            for k, v in ops.items():
                if isinstance(e.op, k):
                    return "(%s %s %s)" % (self.qexpr(e.left), v, self.qexpr(e.right))
            self.bail(e, "operator")
        if isinstance(e, ast.Call) and not e.keywords:
            fn = ast.unparse(e.func)
            if fn in ("min", "max") and len(e.args) == 2:
                return "(Q%s %s %s)" % (fn, self.qexpr(e.args[0]), self.qexpr(e.args[1]))
            if fn == "random.normalvariate" and len(e.args) == 2:
                self.uses_z += 1
                return "(normalvariate z %s %s)" % (self.qexpr(e.args[0]), self.qexpr(e.args[1]))
        self.bail(e, "numeric expression")

    def test(self, t):
        """Python truthiness of a guard, as  st -> bool"""
        if isinstance(t, ast.UnaryOp) and isinstance(t.op, ast.Not):
            return "(fun s => negb (%s s))" % self.test(t.operand)
        txt = ast.unparse(t)
        if txt == "self._active":
            return "active"
        if txt == "self._timer":
            return "timer_truthy"
        if txt == "self._stopped":
            return "stopped"
        if txt == "self._tub":
            return "tub"
        if isinstance(t, ast.Attribute) and isinstance(t.value, ast.Name) and t.value.id == "self" and t.attr in self.consts:
            return "(fun _ => q_truthy %s)" % t.attr
        self.bail(t, "guard")

    def ignorable(self, st):
        if isinstance(st, ast.Expr) and isinstance(st.value, ast.Constant) and isinstance(st.value.value, str):
            return True
        if isinstance(st, ast.Pass):
            return True
        txt = ast.unparse(st)
        if txt in IGNORED_STMTS:
            return True
        if isinstance(st, ast.Expr) and isinstance(st.value, ast.Call) and ast.unparse(st.value.func) == "log.msg":
            # the arguments are % formattings of fields; they must not call anything
            for a in st.value.args:
                for x in ast.walk(a):
                    if isinstance(x, ast.Call):
                        self.bail(st, "call inside a log message")
            return True
        if isinstance(st, ast.If) and self.pure_test(st.test):
            return all(self.ignorable(x) for x in st.body + st.orelse)
        return False

    pure_helpers = ()       # names of effect-free helper methods (see the module docstring), set by generate()

    def pure_test(self, t):
        if isinstance(t, ast.UnaryOp) and isinstance(t.op, ast.Not):
            return self.pure_test(t.operand)
        if ast.unparse(t) in PURE_TESTS:
            return True
        if isinstance(t, ast.Call) and not t.keywords and isinstance(t.func, ast.Attribute) \
                and isinstance(t.func.value, ast.Name) and t.func.value.id == "self" \
                and t.func.attr in self.pure_helpers and all(isinstance(a, ast.Name) for a in t.args):
            return True
        return False

    def effect_free_body(self):
        """is this method one of the effect-free helpers of the module docstring?"""
        f = self.f
        if f.decorator_list or f.args.vararg or f.args.kwarg or f.args.kwonlyargs or f.args.defaults \
                or not f.args.args or f.args.args[0].arg != "self":
            return False

        def ok(st):
            if isinstance(st, ast.Return):
                v = st.value
                return v is None or isinstance(v, (ast.Name, ast.Constant)) or self.pure_test(v)
            if isinstance(st, ast.If) and self.pure_test(st.test):
                return all(ok(x) for x in st.body + st.orelse)
            try:
                return self.ignorable(st)
            except P.Untranslatable:
                return False
        return all(ok(st) for st in f.body)

    def prim(self, st):
        txt = ast.unparse(st)
        if txt == "self._tub = tub":
            if self.depth == 0 and self.f.name == "startConnecting":
                self.tub_param_is_field = True
            return "(set_tub true)"
        if txt == "tub._removeReconnector(self)" and self.tub_param_is_field:
            return "remove_from_tub"
        if txt == "self._tub = None":
            return "(set_tub false)"
        if txt in ("self._active = True", "self._active = False"):
            return "(set_active %s)" % ("true" if txt.endswith("True") else "false")
        if txt in ("self._stopped = True", "self._stopped = False"):
            return "(set_stopped %s)" % ("true" if txt.endswith("True") else "false")
        if txt in ("self._timer = None", "self._timer = False"):
            return "timer_clear"
        if txt == "self._timer.cancel()":
            return "timer_cancel"
        if txt == "d = self._tub.getReference(self._url)":
            return "get_reference"
        if txt == "d.addCallbacks(self._connected, self._failed)":
            return "add_callbacks"
        if txt == "rref.notifyOnDisconnect(self._disconnected)":
            return "watch"
        if txt == "cb(rref, *args, **kwargs)":
            self.uses_cb += 1
            return "(user_callback cbk)"
        if txt == "self._tub._removeReconnector(self)":
            return "remove_from_tub"
        if isinstance(st, ast.Assign) and len(st.targets) == 1 and ast.unparse(st.targets[0]) == "self._delay":
            return "(set_delay (fun s => %s))" % self.qexpr(st.value)
        if isinstance(st, ast.Assign) and len(st.targets) == 1 and ast.unparse(st.targets[0]) == "self._timer":
            v = st.value
            if isinstance(v, ast.Call) and ast.unparse(v.func) == "reactor.callLater" and len(v.args) == 2 \
                    and not v.keywords and ast.unparse(v.args[1]) == "self._timer_expired":
                return "(call_later (fun s => %s))" % self.qexpr(v.args[0])
            self.bail(st, "assignment to _timer")
        if isinstance(st, ast.Expr) and isinstance(st.value, ast.Call):
            c = st.value
            fn = ast.unparse(c.func)
            if fn == "self._timer.reset" and len(c.args) == 1 and not c.keywords:
                return "(timer_reset %s)" % qlit(self.number(c.args[0]))
            if fn == "self._reconnectionInfo._set_state" and len(c.args) == 1 and isinstance(c.args[0], ast.Constant) \
                    and c.args[0].value in ISTATE:
                return "(set_info %s)" % ISTATE[c.args[0].value]
            if fn.startswith("self.") and fn[5:] in self.known and not c.args and not c.keywords:
                self.calls.append(fn[5:])
                return "m_" + fn[5:]
        self.bail(st, "statement outside the translatable subset")

    depth = 0
    tub_param_is_field = False

    def alias(self, st, rest):
        """copy propagation of `x = self._reconnectionInfo` / `x = self._delay` (see the module docstring);
        -> the rest of the block with x replaced, or None"""
        if not (isinstance(st, ast.Assign) and len(st.targets) == 1 and isinstance(st.targets[0], ast.Name)):
            return None
        src = ast.unparse(st.value)
        if src not in ("self._reconnectionInfo", "self._delay"):
            return None
        name = st.targets[0].id
        if name in ("self", "ci", "log_it", "d", "cb", "args", "kwargs", "rref", "f", "tub"):
            return None
        mod = ast.Module(body=rest, type_ignores=[])
        for x in ast.walk(mod):
            if isinstance(x, ast.Name) and x.id == name and not isinstance(x.ctx, ast.Load):
                return None                         # x is rebound later
            if src == "self._delay":
                if isinstance(x, (ast.Assign, ast.AugAssign)):
                    for t in (x.targets if isinstance(x, ast.Assign) else [x.target]):
                        if ast.unparse(t) == "self._delay":
                            return None
                if isinstance(x, ast.Call) and isinstance(x.func, ast.Attribute) and isinstance(x.func.value, ast.Name) \
                        and x.func.value.id == "self":
                    return None                     # a method of the Reconnector might assign _delay

        class Sub(ast.NodeTransformer):
            def visit_Name(s_, node):
                if node.id == name and isinstance(node.ctx, ast.Load):
                    return ast.copy_location(ast.parse(src, mode="eval").body, node)
                return node
        import copy
        return [ast.fix_missing_locations(Sub().visit(copy.deepcopy(x))) for x in rest]

    def block(self, stmts):
        if not stmts:
            return "ret"
        st, rest = stmts[0], stmts[1:]
        al = self.alias(st, rest)
        if al is not None:
            return self.block(al)
        if self.ignorable(st):
            return self.block(rest)
        if isinstance(st, ast.Return):
            if st.value is not None:
                self.bail(st, "return with a value")
            return "ret"      # whatever follows is dead
        if isinstance(st, ast.If):
            c = self.test(st.test)
            ends = lambda b: bool(b) and isinstance(b[-1], ast.Return)
            if ends(st.body) and not st.orelse:
                self.depth += 1
                body = self.block(st.body)
                self.depth -= 1
                return "(cond %s %s\n   %s)" % (c, body, self.block(rest))
            for b in (st.body, st.orelse):
                for x in ast.walk(ast.Module(body=b, type_ignores=[])):
                    if isinstance(x, ast.Return):
                        self.bail(st, "return inside a two-armed or non-final position")
            self.depth += 1
            b1, b2 = self.block(st.body), self.block(st.orelse)
            self.depth -= 1
            return "(seq (cond %s %s %s)\n   %s)" % (c, b1, b2, self.block(rest))
        return "(seq %s\n   %s)" % (self.prim(st), self.block(rest))


TUB_NAMES = {"reconnectors", "rc", "startConnecting", "stopConnecting", "_removeReconnector", "Reconnector", "running"}
FORBID = {"self.startService = self._tubsAreNotRestartable": "startService",
          "self.getReference = self._tubHasBeenShutDown": "getReference",
          "self.connectTo = self._tubHasBeenShutDown": "connectTo"}


class TubM:
    """one method of pb.Tub -> a Tub-level action (tact)"""

    def __init__(self, name, fdef):
        self.name = name
        self.f = fdef
        self.forbid = set()

    def bail(self, node, why):
        raise P.Untranslatable("Tub.%s line %s: %s: %s" % (self.name, getattr(node, "lineno", "?"), why, ast.unparse(node)[:120]))

    def irrelevant(self, st):
        """frame condition: a statement that mentions none of the names through which the Reconnectors are reached
        (self.reconnectors, a variable rc, start/stopConnecting, _removeReconnector, the class, self.running) and
        cannot leave the method (no return / raise / assert) neither changes the modelled Tub state nor the control
        flow; what it calls is outside the model (Twisted's MultiService, brokers, connectors)."""
        for x in ast.walk(st):
            if isinstance(x, ast.Name) and x.id in TUB_NAMES:
                return False
            if isinstance(x, ast.Attribute) and x.attr in TUB_NAMES:
                return False
            if isinstance(x, (ast.Return, ast.Raise, ast.Assert, ast.Global, ast.Nonlocal)):
                return False
        return True

    def test(self, t):
        if isinstance(t, ast.UnaryOp) and isinstance(t.op, ast.Not):
            return "(fun t => negb (%s t))" % self.test(t.operand)
        if ast.unparse(t) == "self.running":
            return "t_running"
        self.bail(t, "guard")

    def prim(self, st):
        txt = ast.unparse(st)
        if txt == "rc = Reconnector(_furl, _cb, args, kwargs)":
            return "(t_new init_state)"
        if txt == "rc.startConnecting(self)":
            return "(t_call_rc m_tub__removeReconnector m_startConnecting)"
        if txt == "rc.stopConnecting()":
            return "(t_call_rc m_tub__removeReconnector m_stopConnecting)"
        if txt == "eventual.eventually(rc.startConnecting, self)":
            return "t_enqueue_start"
        if txt == "self.reconnectors.append(rc)":
            return "t_append"
        if txt == "self.reconnectors.remove(rc)":
            return "t_remove"
        if txt == "del self.reconnectors":
            return "t_del_list"
        if txt == "service.MultiService.startService(self)":
            return "t_set_running"
        if txt == "assert self.running":
            return "t_assert_running"
        if txt in FORBID:
            self.forbid.add(FORBID[txt])
            return "t_forbid" if FORBID[txt] == "startService" else None
        if isinstance(st, ast.Expr) and isinstance(st.value, ast.Call) and ast.unparse(st.value.func) in ("self.log", "log.msg"):
            for a in list(st.value.args) + [k.value for k in st.value.keywords]:
                for x in ast.walk(a):
                    if isinstance(x, ast.Call):
                        self.bail(st, "call inside a log message")
            return None
        if isinstance(st, ast.For) and not st.orelse and isinstance(st.target, ast.Name) and st.target.id == "rc":
            it = ast.unparse(st.iter)
            if it == "list(self.reconnectors)":
                return "(t_for_copy %s)" % self.block(st.body, inner=True)
            if it == "self.reconnectors":
                return "(t_for_live %s)" % self.block(st.body, inner=True)
            self.bail(st, "loop over")
        self.bail(st, "statement outside the translatable subset")

    def block(self, stmts, inner=False):
        if not stmts:
            return "tret"
        st, rest = stmts[0], stmts[1:]
        if isinstance(st, ast.Expr) and isinstance(st.value, ast.Constant) and isinstance(st.value.value, str):
            return self.block(rest, inner)
        if isinstance(st, ast.Pass):
            return self.block(rest, inner)
        if isinstance(st, ast.Return):
            if inner or rest:
                self.bail(st, "return that is not the last statement")
            if self.name == "connectTo" and ast.unparse(st) != "return rc":
                self.bail(st, "connectTo returns something else")
            if self.name != "connectTo" and st.value is not None and not self.irrelevant(ast.Expr(value=st.value)):
                self.bail(st, "return value")
            return "tret"
        if isinstance(st, ast.If) and not self.irrelevant(st):
            c = self.test(st.test)
            for b in (st.body, st.orelse):
                for x in ast.walk(ast.Module(body=b, type_ignores=[])):
                    if isinstance(x, ast.Return):
                        self.bail(st, "return inside a branch")
            return "(tseq (tcond %s %s %s)\n   %s)" % (c, self.block(st.body, True), self.block(st.orelse, True), self.block(rest, inner))
        if self.name in ("startService", "stopService") and ast.unparse(st) not in FORBID \
                and ast.unparse(st) != "service.MultiService.startService(self)" and self.irrelevant(st):
            return self.block(rest, inner)
        p = self.prim(st)
        if p is None:
            return self.block(rest, inner)
        return "(tseq %s\n   %s)" % (p, self.block(rest, inner))

    def method(self):
        f = self.f
        want = {"connectTo": None, "startService": ["self"], "stopService": ["self"], "_removeReconnector": ["self", "rc"]}[self.name]
        if f.decorator_list:
            self.bail(f, "decorated")
        if want is not None and ([a.arg for a in f.args.args] != want or f.args.vararg or f.args.kwarg):
            self.bail(f, "signature")
        if self.name == "connectTo" and ([a.arg for a in f.args.args] != ["self", "_furl", "_cb"] or not f.args.vararg
                                         or f.args.vararg.arg != "args" or not f.args.kwarg or f.args.kwarg.arg != "kwargs"):
            self.bail(f, "signature")
        body = self.block(f.body)
        if self.name == "stopService" and self.forbid != {"startService", "getReference", "connectTo"}:
            raise P.Untranslatable("Tub.stopService no longer forbids startService/getReference/connectTo: %s" % sorted(self.forbid))
        return "(* Tub.%s, pb.py line %d *)\nDefinition m_tub_%s : tact :=\n  %s." % (self.name, f.lineno, self.name, body)


def generate():
    mod = P.load(REL)
    src = P.source(REL)
    cls = P.find_class(mod, "Reconnector")
    out = ["(* GENERATED by /verif/translate/g_reconnector.py from reconnector.py, pb.py -- do not edit; regenerated on every run *)\n"
           "From Coq Require Import QArith Qminmax List Bool.\nImport ListNotations.\n"
           "Require Import Verif.lib.ReconnectorBase.\nLocal Open Scope Q_scope."]

    # ---- class constants as exact rationals
    consts = {}
    for st in cls.body:
        if isinstance(st, ast.Assign) and len(st.targets) == 1 and isinstance(st.targets[0], ast.Name) \
                and st.targets[0].id in CONSTS:
            v = st.value
            if not (isinstance(v, ast.Constant) and isinstance(v.value, (int, float)) and not isinstance(v.value, bool)):
                raise P.Untranslatable("Reconnector.%s is not a number literal" % st.targets[0].id)
            if st.targets[0].id in consts:
                raise P.Untranslatable("Reconnector.%s assigned twice" % st.targets[0].id)
            consts[st.targets[0].id] = Fraction(v.value)
    missing = [k for k in CONSTS if k not in consts]
    if missing:
        raise P.Untranslatable("class constants not found: %s" % missing)
    for k in CONSTS:
        out.append("Definition %s : Q := %s." % (k, qlit(consts[k])))
    # no instance ever overwrites them
    for x in ast.walk(cls):
        if isinstance(x, (ast.Assign, ast.AugAssign)):
            for t in (x.targets if isinstance(x, ast.Assign) else [x.target]):
                if isinstance(t, ast.Attribute) and t.attr in CONSTS:
                    raise P.Untranslatable("instance assignment to %s" % t.attr)

    # ---- the methods
    defs = {n.name: n for n in cls.body if isinstance(n, ast.FunctionDef)}
    if len(defs) != len([n for n in cls.body if isinstance(n, ast.FunctionDef)]):
        raise P.Untranslatable("a Reconnector method is defined twice")
    readonly = {"getDelayUntilNextAttempt", "getLastFailure", "getReconnectionInfo"}
    extra = set(defs) - set(METHODS) - readonly
    notfree = sorted(nm for nm in extra if not M(src, defs[nm], {}, []).effect_free_body())
    if notfree:
        raise P.Untranslatable("Reconnector has methods the model does not know: %s" % notfree)
    M.pure_helpers = tuple(sorted(extra))
    # an effect-free helper may be used only as a pure test; any other mention (e.g. registered as a callback) is refused
    for nm in extra:
        uses = [x for x in ast.walk(cls) if isinstance(x, ast.Attribute) and x.attr == nm]
        calls = [x for x in ast.walk(cls) if isinstance(x, ast.Call) and isinstance(x.func, ast.Attribute) and x.func.attr == nm]
        if len(uses) != len(calls):
            raise P.Untranslatable("helper %s is used other than by calling it" % nm)
    for nm in readonly & set(defs):
        for x in ast.walk(defs[nm]):
            if isinstance(x, (ast.Assign, ast.AugAssign)) or \
                    (isinstance(x, ast.Call) and ast.unparse(x.func) not in ("self._timer.getTime", "time.time")):
                raise P.Untranslatable("%s is no longer a pure accessor" % nm)
    expect_args = {"__init__": ["self", "url", "cb", "args", "kwargs"], "startConnecting": ["self", "tub"],
                   "_connected": ["self", "rref"], "_failed": ["self", "f"]}
    trans, deps, usez, usecb = {}, {}, {}, {}
    for nm in METHODS:
        if nm not in defs:
            raise P.Untranslatable("Reconnector.%s not found" % nm)
        f = defs[nm]
        if f.decorator_list or f.args.vararg or f.args.kwarg or f.args.kwonlyargs or f.args.defaults:
            raise P.Untranslatable("Reconnector.%s has an unexpected signature" % nm)
        if [a.arg for a in f.args.args] != expect_args.get(nm, ["self"]):
            raise P.Untranslatable("Reconnector.%s has parameters %s" % (nm, [a.arg for a in f.args.args]))
        m = M(src, f, consts, [x for x in METHODS if x != "__init__"])
        trans[nm] = m.block(f.body)
        deps[nm] = m.calls
        usez[nm] = m.uses_z
        usecb[nm] = m.uses_cb
        if m.uses_z > 1:
            raise P.Untranslatable("Reconnector.%s draws more than one random number" % nm)
    # only _failed may draw; a caller of a drawing method would need the draw too
    for nm in METHODS:
        if usez[nm] and nm != "_failed":
            raise P.Untranslatable("Reconnector.%s draws a random number" % nm)
        if "_failed" in deps[nm]:
            raise P.Untranslatable("Reconnector.%s calls _failed directly" % nm)
        # the user callback is invoked from _connected only (exactly once on its active path); the actions it
        # performs re-entrantly are a parameter of the translated method
        if usecb[nm] != (1 if nm == "_connected" else 0):
            raise P.Untranslatable("Reconnector.%s invokes the user callback %d times" % (nm, usecb[nm]))
        if "_connected" in deps[nm]:
            raise P.Untranslatable("Reconnector.%s calls _connected directly" % nm)
    done, order = set(), []

    def visit(nm, stack=()):
        if nm in done:
            return
        if nm in stack:
            raise P.Untranslatable("recursive method calls: %s" % (stack + (nm,),))
        for d in deps[nm]:
            visit(d, stack + (nm,))
        done.add(nm)
        order.append(nm)
    for nm in METHODS:
        visit(nm)
    for nm in order:
        zarg = " (z : Q)" if nm == "_failed" else (" (cbk : act)" if nm == "_connected" else "")
        out.append("(* Reconnector.%s, line %d *)\nDefinition m_%s%s : act :=\n  %s." % (nm, defs[nm].lineno, nm, zarg, trans[nm]))

    # ---- initial state: __init__ must assign all five fields; ReconnectionInfo starts "unstarted"
    init_src = ast.unparse(defs["__init__"])
    for frag in ("self._active =", "self._stopped =", "self._delay =", "self._timer =", "self._tub ="):
        if frag not in init_src:
            raise P.Untranslatable("__init__ no longer assigns " + frag)
    ri = P.find_def(mod, "ReconnectionInfo.__init__")
    sts = [ast.unparse(s) for s in ri.body]
    st0 = [s for s in sts if s.startswith("self.state =")]
    if len(st0) != 1 or st0[0] not in ["self.state = '%s'" % k for k in ISTATE]:
        raise P.Untranslatable("ReconnectionInfo.__init__: state initialisation changed: %s" % st0)
    ss = P.find_def(mod, "ReconnectionInfo._set_state")
    if [ast.unparse(s) for s in ss.body] != ["self.state = state"]:
        raise P.Untranslatable("ReconnectionInfo._set_state changed")
    out.append("Definition init_info : istate := %s." % ISTATE[st0[0].split("'")[1]])
    out.append("Definition init_state : st :=\n  let s := fst (m___init__ blank) in\n"
               "  mkSt (active s) (stopped s) (tub s) (delay s) (timer s) (inflight s) (watching s) (leaked s) init_info.")

    # ---- how the Tub drives its Reconnectors (pb.py): Tub.connectTo, the Reconnector parts of Tub.startService and
    #      Tub.stopService, and Tub._removeReconnector are translated statement by statement into Tub-level actions
    #      (vocabulary: second half of lib/ReconnectorBase.v).  Statements of startService/stopService that do not
    #      mention the Reconnectors are dropped under a syntactic frame condition (see tub_irrelevant).
    pb = P.load("pb.py")
    tubcls = P.find_class(pb, "Tub")
    tdefs = {}
    for n in tubcls.body:
        if isinstance(n, ast.FunctionDef):
            tdefs.setdefault(n.name, []).append(n)
    for nm in ("connectTo", "startService", "stopService", "_removeReconnector"):
        if len(tdefs.get(nm, [])) != 1:
            raise P.Untranslatable("Tub.%s not found exactly once" % nm)
    out.append(TubM("_removeReconnector", tdefs["_removeReconnector"][0]).method())
    out.append(TubM("connectTo", tdefs["connectTo"][0]).method())
    out.append(TubM("startService", tdefs["startService"][0]).method())
    out.append(TubM("stopService", tdefs["stopService"][0]).method())
    # frame condition on the rest of pb.py: self.reconnectors is touched only by these four methods and by the
    # initialisation `self.reconnectors = []`; startConnecting/stopConnecting are called only from them
    allowed = set()
    for nm in ("connectTo", "startService", "stopService", "_removeReconnector"):
        for x in ast.walk(tdefs[nm][0]):
            allowed.add(id(x))
    inits = 0
    for x in ast.walk(pb):
        if isinstance(x, ast.Assign) and len(x.targets) == 1 and ast.unparse(x.targets[0]) == "self.reconnectors":
            if ast.unparse(x.value) != "[]":
                raise P.Untranslatable("self.reconnectors initialised to " + ast.unparse(x.value))
            inits += 1
            for y in ast.walk(x):
                allowed.add(id(y))
    if inits != 1:
        raise P.Untranslatable("self.reconnectors is initialised %d times" % inits)
    for x in ast.walk(pb):
        if isinstance(x, ast.Attribute) and x.attr in ("reconnectors", "startConnecting", "stopConnecting", "_removeReconnector") \
                and id(x) not in allowed:
            raise P.Untranslatable("pb.py line %d mentions %s outside connectTo/startService/stopService/_removeReconnector"
                                   % (x.lineno, x.attr))
    for frag, whom in (("_tubsAreNotRestartable", "startService"), ("_tubHasBeenShutDown", "connectTo")):
        f = P.find_def(pb, "Tub." + frag)
        if not (len(f.body) == 1 and isinstance(f.body[0], ast.Raise)):
            raise P.Untranslatable("Tub.%s no longer just raises" % frag)
    n_start = sum(1 for x in ast.walk(pb) if isinstance(x, ast.Attribute) and x.attr == "startConnecting")
    out.append("(* pb.py mentions startConnecting %d times: once in connectTo (running Tub), once in startService (queued) *)\n"
               "Definition tub_start_sites : nat := %d." % (n_start, n_start))
    return {"ReconnectorGen.v": "\n\n".join(out) + "\n"}
