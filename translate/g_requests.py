"""C03: translated parts of call.py (PendingRequest), broker.py (request table, finish),
referenceable.py (_callRemote) and the Answer/Error unslicers.

What is emitted into coq/gen/RequestsGen.v
  * PendingRequest.complete / PendingRequest.fail as programs of a tiny statement language
    (`pstmt`); the model *interprets* these programs, so removing `self.active = False`,
    swapping the guard, firing outside the guard ... changes the model the theorems are about.
  * Broker.finish as a program (`fstmt`): the re-entrancy guard, the flag assignment, the call
    of abandonAllRequests, in source order.
  * enumerated shape facts: how removeRequest deletes (del / pop with default), whether
    abandonAllRequests queues `req.fail` through eventually() or calls it directly, whether
    newRequestID refuses on a disconnected broker, first request id, one-way request id, ...
  * eventual.py: the FIFO append, the batch snapshot of _turn and whether an exception raised by one event is caught
    per event (TurnIsolatesEvents) or ends the loop (TurnStopsAtFirstException).
Everything that is not recognised raises Untranslatable (fail closed).

Accepted alternative forms (each equivalent to the reference form for ALL inputs, no assumption on value types):
  A1. abandonAllRequests:  `x = list(self.waitingForAnswers.values())` immediately followed by `for req in x:` instead of
      `for req in list(self.waitingForAnswers.values()):`, where x is a local that occurs nowhere else in the function.
      Equivalence: a for statement evaluates its iterable expression exactly once, before the first iteration; binding that
      value to a fresh local in the statement directly before (nothing executes in between) and iterating the local yields
      the same list object; the body cannot rebind or mutate it through the name because the name does not occur in it.
  A2. abandonAllRequests:  the lost-connection test used directly as the `if` test, or through ONE local assigned before the
      loop (round 2).  NOTE this is accepted as a *different* program, not as equivalent: hoisting evaluates the test once on
      the original `why`, which agrees with the per-iteration form because after the first mapped request `why` is a
      DeadReferenceError failure and the guarded block would build a DeadReferenceError again; the generated
      `lost_test_of_source` records which test is used and the model/theorems are re-checked against it.
  A4. Broker.finish: the statements `for (delivery, ready_deferred) in self.inboundDeliveryQueue:
      self.activeLocalCalls.pop(delivery.reqID, None)` (only after abandonAllRequests) and `self.inboundDeliveryQueue = []` are
      dropped from the translated program like the other table resets: they read/write only the callee-side tables
      inboundDeliveryQueue / activeLocalCalls, never waitingForAnswers, `disconnected` or a PendingRequest.
  A3. (via translate/normalize.py, not here) calls to new helpers are inlined; e.g. `tubid = self._getRemoteShortTubID(None)`
      becomes `if self.remote_tubref: tubid = ... else: tubid = None`, which the effect-freedom scan of the loop body accepts
      like the open-coded form (local assignments and calls that are not request effects).
"""
import ast
from translate import pylite as P

PROPERTIES = ["C03"]
OUTPUTS = ["RequestsGen.v", "BananaGen.v"]   # BananaGen.v: produced by g_banana (token constants, SIZE_LIMIT) -- the byte-level
# receive model lib/AnswerRecv.v is built on lib/Token.v / lib/Recv.v, which import it; regenerated here so that a run of C03 alone sees the current banana.py


def U(msg):
    raise P.Untranslatable(msg)


def src(n):
    return ast.unparse(n)


def is_docstring(st):
    return isinstance(st, ast.Expr) and isinstance(st.value, ast.Constant) and isinstance(st.value.value, str)


def body_of(fn):
    return [s for s in fn.body if not is_docstring(s) and not isinstance(s, ast.Pass)]


# ------------------------------------------------------------------ PendingRequest.complete / fail
EFFECT_ATTRS = {"callback", "errback", "removeRequest", "addRequest", "fail", "complete", "abandonAllRequests"}


def is_log_call(e):
    return (isinstance(e, ast.Call) and isinstance(e.func, ast.Attribute) and isinstance(e.func.value, ast.Name)
            and e.func.value.id == "log" and e.func.attr in ("msg", "err"))


def pure_logging(stmts):
    """only local assignments, log.msg/log.err calls and ifs of the same; no effect on the request"""
    for st in stmts:
        for x in ast.walk(st):
            if isinstance(x, (ast.Raise, ast.Return, ast.Delete, ast.Try, ast.While, ast.For, ast.With)):
                return False
            if isinstance(x, ast.Call) and isinstance(x.func, ast.Attribute) and x.func.attr in EFFECT_ATTRS:
                return False
            if isinstance(x, (ast.Assign, ast.AugAssign)):
                tg = x.targets if isinstance(x, ast.Assign) else [x.target]
                if not all(isinstance(t, ast.Name) for t in tg):
                    return False
        if isinstance(st, ast.Assign):
            continue
        if isinstance(st, ast.Expr) and is_log_call(st.value):
            continue
        if isinstance(st, ast.If) and pure_logging(st.body) and pure_logging(st.orelse):
            continue
        if isinstance(st, ast.Pass) or is_docstring(st):
            continue
        return False
    return True


def pstmts(stmts, argname, where):
    out = []
    for st in stmts:
        if is_docstring(st) or isinstance(st, ast.Pass):
            continue
        s = src(st)
        if isinstance(st, ast.If):
            t = src(st.test)
            if t == "self.broker":
                if st.orelse:
                    U("%s: `if self.broker` with an else branch" % where)
                out.append("PIfBroker [%s]" % "; ".join(pstmts(st.body, argname, where)))
                continue
            if t == "self.active":
                out.append("PIfActive [%s] [%s]" % ("; ".join(pstmts(st.body, argname, where)),
                                                    "; ".join(pstmts(st.orelse, argname, where))))
                continue
            if pure_logging([st]):
                out.append("PLog")
                continue
            U("%s: unrecognised conditional `%s`" % (where, t))
        if s == "self.broker.removeRequest(self)":
            out.append("PRemove")
        elif s in ("self.active = False", "self.active = True"):
            out.append("PSetActive %s" % ("false" if s.endswith("False") else "true"))
        elif s == "self.failure = %s" % argname:
            out.append("PSetFailure")
        elif s == "self.deferred.callback(%s)" % argname:
            out.append("PCallback")
        elif s == "self.deferred.errback(%s)" % argname:
            out.append("PErrback")
        elif pure_logging([st]):
            out.append("PLog")
        else:
            U("%s: unrecognised statement `%s`" % (where, s[:120]))
    # merge consecutive PLog
    merged = []
    for x in out:
        if x == "PLog" and merged and merged[-1] == "PLog":
            continue
        merged.append(x)
    return merged


def method_arg(fn, where):
    a = [x.arg for x in fn.args.args]
    if len(a) != 2 or a[0] != "self" or fn.args.vararg or fn.args.kwarg:
        U("%s: unexpected signature %s" % (where, a))
    return a[1]


# ------------------------------------------------------------------ Broker
def gen_broker(out):
    mod = P.load("broker.py")
    # class default `disconnected = False`
    cls = P.find_class(mod, "Broker")
    consts = P.module_consts(mod, body=cls.body)
    if consts.get("disconnected") is not False:
        U("Broker.disconnected class default is not False")
    # initBroker: nextReqID = count(1); waitingForAnswers = {}
    ib = P.find_def(mod, "Broker.initBroker")
    first = None
    table_init = False
    for st in ib.body:
        if isinstance(st, ast.Assign) and len(st.targets) == 1:
            t = src(st.targets[0])
            if t == "self.nextReqID":
                v = st.value
                if not (isinstance(v, ast.Call) and src(v.func) == "count" and len(v.args) == 1
                        and isinstance(v.args[0], ast.Constant) and isinstance(v.args[0].value, int)):
                    U("initBroker: nextReqID is not count(<int>)")
                first = v.args[0].value
            if t == "self.waitingForAnswers":
                if src(st.value) != "{}":
                    U("initBroker: waitingForAnswers is not initialised to {}")
                table_init = True
    if first is None or not table_init:
        U("initBroker: nextReqID / waitingForAnswers initialisation not found")
    out.append("Definition first_reqid : Z := %d." % first)

    # newRequestID
    nr = body_of(P.find_def(mod, "Broker.newRequestID"))
    if len(nr) == 2 and isinstance(nr[0], ast.If) and src(nr[0].test) == "self.disconnected" and not nr[0].orelse \
            and len(nr[0].body) == 1 and isinstance(nr[0].body[0], ast.Raise) \
            and src(nr[0].body[0].exc).startswith("DeadReferenceError(") and src(nr[1]) == "return next(self.nextReqID)":
        out.append("Definition newRequestID_refuses_when_disconnected : bool := true.")
    elif len(nr) == 1 and src(nr[0]) == "return next(self.nextReqID)":
        out.append("Definition newRequestID_refuses_when_disconnected : bool := false.")
    else:
        U("newRequestID has an unexpected body: " + "; ".join(src(s) for s in nr)[:200])

    # addRequest
    ad = [src(s) for s in body_of(P.find_def(mod, "Broker.addRequest"))]
    if ad != ["req.broker = self", "self.waitingForAnswers[req.reqID] = req"]:
        U("addRequest has an unexpected body: %s" % ad)
    out.append("Definition addRequest_sets_broker_and_stores : bool := true.")

    # removeRequest
    rm = [src(s) for s in body_of(P.find_def(mod, "Broker.removeRequest"))]
    if rm == ["del self.waitingForAnswers[req.reqID]"]:
        out.append("Definition removeRequest_kind : remove_kind := RemoveDel.")
    elif rm == ["self.waitingForAnswers.pop(req.reqID, None)"]:
        out.append("Definition removeRequest_kind : remove_kind := RemoveQuiet.")
    else:
        U("removeRequest has an unexpected body: %s" % rm)

    # getRequest: lookup, KeyError -> Violation
    gr = body_of(P.find_def(mod, "Broker.getRequest"))
    ok = (len(gr) == 1 and isinstance(gr[0], ast.Try) and len(gr[0].body) == 1
          and src(gr[0].body[0]) == "return self.waitingForAnswers[reqID]" and len(gr[0].handlers) == 1
          and gr[0].handlers[0].type is not None and src(gr[0].handlers[0].type) == "KeyError"
          and len(gr[0].handlers[0].body) == 1 and isinstance(gr[0].handlers[0].body[0], ast.Raise)
          and src(gr[0].handlers[0].body[0].exc).startswith("Violation(")
          and not gr[0].orelse and not gr[0].finalbody)
    if not ok:
        U("getRequest is no longer `try: return self.waitingForAnswers[reqID] except KeyError: raise Violation`")
    out.append("Definition getRequest_looks_up_table_only : bool := true.")

    # abandonAllRequests: [local assignments]; for req in list(self.waitingForAnswers.values()): [compute the reason]; eventually(req.fail, <reason>)
    ab = body_of(P.find_def(mod, "Broker.abandonAllRequests"))
    loops = [x for x in ab if isinstance(x, ast.For)]
    if len(loops) != 1 or ab[-1] is not loops[0] or loops[0].orelse:
        U("abandonAllRequests does not end in a single for loop")
    loop = loops[0]
    pre = ab[:-1]

    def effect_free(stmts, what):
        for st in stmts:
            for x in ast.walk(st):
                if isinstance(x, (ast.Continue, ast.Break, ast.Return, ast.Raise, ast.For, ast.While, ast.Try, ast.Delete)):
                    U("abandonAllRequests: control flow in %s may skip a request: %s" % (what, src(x)[:80]))
                if isinstance(x, ast.Call) and isinstance(x.func, ast.Attribute) and x.func.attr in EFFECT_ATTRS:
                    U("abandonAllRequests: unexpected effect in %s: %s" % (what, src(x)[:80]))
                if isinstance(x, (ast.Assign, ast.AugAssign)):
                    tg = x.targets if isinstance(x, ast.Assign) else [x.target]
                    if not all(isinstance(t, ast.Name) for t in tg):
                        U("abandonAllRequests: %s assigns to something that is not a local: %s" % (what, src(x)[:80]))
    effect_free(pre, "the statements before the loop")
    it = loop.iter
    if isinstance(it, ast.Name):
        # accepted form (A1, see module docstring): `x = list(self.waitingForAnswers.values())` as the statement
        # immediately before `for req in x:`, x a local used nowhere else in the function
        uses = [n for n in ast.walk(P.find_def(mod, "Broker.abandonAllRequests")) if isinstance(n, ast.Name) and n.id == it.id]
        prev = pre[-1] if pre else None
        if not (isinstance(prev, ast.Assign) and len(prev.targets) == 1 and isinstance(prev.targets[0], ast.Name)
                and prev.targets[0].id == it.id and len(uses) == 2):
            U("abandonAllRequests iterates over the local `%s`, which is not assigned exactly once immediately before the loop "
              "and used only there" % it.id)
        it = prev.value
        pre = pre[:-1]
    if src(loop.target) != "req" or src(it) not in ("list(self.waitingForAnswers.values())",):
        U("abandonAllRequests iterates over `%s`, expected a snapshot list(self.waitingForAnswers.values())" % src(it))
    last = loop.body[-1]
    mode = None
    reason_var = None
    if isinstance(last, ast.Expr) and isinstance(last.value, ast.Call) and src(last.value.func) == "eventually" \
            and len(last.value.args) == 2 and src(last.value.args[0]) == "req.fail" and isinstance(last.value.args[1], ast.Name) \
            and not last.value.keywords:
        mode, reason_var = "AbandonEventually", last.value.args[1].id
    elif isinstance(last, ast.Expr) and isinstance(last.value, ast.Call) and src(last.value.func) == "req.fail" \
            and len(last.value.args) == 1 and isinstance(last.value.args[0], ast.Name) and not last.value.keywords:
        mode, reason_var = "AbandonDirect", last.value.args[0].id
    else:
        U("abandonAllRequests: last statement of the loop is `%s`" % src(last)[:100])
    effect_free(loop.body[:-1], "the loop")
    out.append("Definition abandon_mode_of_source : abandon_mode := %s." % mode)

    # which reasons are turned into DeadReferenceError: the test guarding the only construction of DeadReferenceError.
    # Recognised tests (directly, or through one local variable assigned before the loop):
    #   why.check(*LOST_CONNECTION_ERRORS)   -> the listed classes and their subclasses (Failure.check)
    #   why.type in LOST_CONNECTION_ERRORS   -> the listed classes only
    ifs = [x for x in loop.body[:-1] if isinstance(x, ast.If)]
    if len(ifs) != 1 or ifs[0].orelse:
        U("abandonAllRequests: expected exactly one `if` (without else) deciding the DeadReferenceError mapping")
    guard = ifs[0]
    test = guard.test
    if isinstance(test, ast.Name):
        defs = [st for st in pre if isinstance(st, ast.Assign) and len(st.targets) == 1 and src(st.targets[0]) == test.id]
        if len(defs) != 1:
            U("abandonAllRequests: cannot resolve the guard variable `%s`" % test.id)
        test = defs[0].value
    t = src(test)
    if t == "why.check(*LOST_CONNECTION_ERRORS)":
        lost_test = "LostCheckSubclasses"
    elif t in ("why.type in LOST_CONNECTION_ERRORS", "why.type in tuple(LOST_CONNECTION_ERRORS)"):
        lost_test = "LostExactTypeOnly"
    else:
        U("abandonAllRequests: unrecognised lost-connection test `%s`" % t[:100])
    # inside the guard: a Failure of a fresh DeadReferenceError is assigned to the variable that is passed to req.fail
    gsrc = [src(x) for x in guard.body]
    if not any(x.startswith("e = DeadReferenceError(") for x in gsrc) or ("%s = failure.Failure(e)" % reason_var) not in gsrc:
        U("abandonAllRequests: the guarded block no longer builds failure.Failure(DeadReferenceError(..)) into `%s`: %s" % (reason_var, gsrc))
    # outside the guard the reason variable is the original `why` (or the previous iteration's value of `why`)
    if reason_var != "why":
        inits = [src(x) for x in loop.body[:-1] if isinstance(x, ast.Assign) and src(x.targets[0]) == reason_var]
        if inits != ["%s = why" % reason_var]:
            U("abandonAllRequests: `%s` is not initialised from `why` in every iteration: %s" % (reason_var, inits))
    # every store to the names that carry the decision / the reason, anywhere in the function, must be one of the
    # statements recognised above (otherwise e.g. `lost = False` at the end of the loop body would go unnoticed)
    fn_ab = P.find_def(mod, "Broker.abandonAllRequests")
    stores = {}
    for st in ast.walk(fn_ab):
        tg = []
        if isinstance(st, ast.Assign):
            tg = st.targets
        elif isinstance(st, (ast.AugAssign, ast.AnnAssign)):
            tg = [st.target]
        elif isinstance(st, (ast.For, ast.comprehension)):
            tg = [st.target]
        elif isinstance(st, ast.NamedExpr):
            tg = [st.target]
        for t_ in tg:
            for n in ast.walk(t_):
                if isinstance(n, ast.Name):
                    stores.setdefault(n.id, []).append(src(st) if not isinstance(st, ast.For) else "for")
    allowed = {reason_var: ["%s = failure.Failure(e)" % reason_var] + ([] if reason_var == "why" else ["%s = why" % reason_var]),
               "why": (["why = failure.Failure(e)"] if reason_var == "why" else []),
               "req": ["for"]}
    if isinstance(guard.test, ast.Name):
        allowed[guard.test.id] = ["%s = %s" % (guard.test.id, t)]
    for name, ok_ in allowed.items():
        if sorted(stores.get(name, [])) != sorted(ok_):
            U("abandonAllRequests: unexpected assignment(s) to `%s`: %s" % (name, stores.get(name)))
    if reason_var != "why":
        order = [src(x) for x in loop.body[:-1]]
        if order.index("%s = why" % reason_var) > loop.body.index(guard):
            U("abandonAllRequests: `%s = why` comes after the guard" % reason_var)
    out.append("Definition lost_test_of_source : lost_test := %s." % lost_test)
    # the list itself
    lce = [st for st in mod.body if isinstance(st, ast.Assign) and src(st.targets[0]) == "LOST_CONNECTION_ERRORS"]
    if len(lce) != 1 or src(lce[0].value) != "[error.ConnectionLost, error.ConnectionDone]":
        U("LOST_CONNECTION_ERRORS is no longer [error.ConnectionLost, error.ConnectionDone] (+ SSL.Error)")
    ssl = "LOST_CONNECTION_ERRORS.append(SSL.Error)" in P.source("broker.py")
    out.append("Definition lost_connection_errors_listed : list lost_class := [ConnectionLostC; ConnectionDoneC%s]."
               % ("; SSLErrorC" if ssl else ""))

    # finish
    fin = body_of(P.find_def(mod, "Broker.finish"))
    prog = []
    HARMLESS_ATTRS = {"remote_broker", "myReferenceByPUID", "myReferenceByCLID", "yourReferenceByCLID",
                      "yourReferenceByURL", "myGifts", "myGiftsByGiftID", "disconnectWatchers", "inboundDeliveryQueue"}
    for st in fin:
        s = src(st)
        if isinstance(st, ast.If) and src(st.test) == "self.disconnected":
            if len(st.body) == 1 and isinstance(st.body[0], ast.Return) and st.body[0].value is None and not st.orelse:
                prog.append("FReturnIfDisconnected")
                continue
            U("finish: unexpected `if self.disconnected` form")
        if s == "self.disconnected = True":
            prog.append("FSetDisconnected")
            continue
        if s == "self.abandonAllRequests(why)":
            prog.append("FAbandon")
            continue
        if isinstance(st, ast.Assert):
            continue
        if isinstance(st, ast.Assign) and len(st.targets) == 1 and isinstance(st.targets[0], ast.Attribute) \
                and src(st.targets[0].value) == "self" and st.targets[0].attr in HARMLESS_ATTRS \
                and src(st.value) in ("{}", "None", "[]"):
            continue
        if isinstance(st, ast.For) and src(st.iter) == "self.disconnectWatchers" and \
                all(src(b).startswith("eventually(") for b in st.body):
            continue
        # callee-side cleanup (fix 30b3768): forget the inbound calls that were parsed but will never run.  It reads
        # inboundDeliveryQueue and pops (with a default, so it cannot raise KeyError) from activeLocalCalls -- the table of
        # calls the PEER is waiting for -- and does not touch waitingForAnswers or any PendingRequest.  Accepted only after
        # abandonAllRequests, so that even an unexpected exception here could not keep the caller-side requests pending.
        if isinstance(st, ast.For) and src(st.iter) == "self.inboundDeliveryQueue" and not st.orelse \
                and isinstance(st.target, ast.Tuple) and all(isinstance(e, ast.Name) for e in st.target.elts) \
                and len(st.target.elts) == 2 \
                and [src(b) for b in st.body] == ["self.activeLocalCalls.pop(%s.reqID, None)" % st.target.elts[0].id]:
            if "FAbandon" not in prog:
                U("finish: the inbound-queue cleanup loop comes before abandonAllRequests")
            continue
        if isinstance(st, ast.If) and src(st.test) == "self.tub" and not st.orelse and \
                [src(b) for b in st.body] == ["self.tub.brokerDetached(self, why)"]:
            continue
        U("finish: unrecognised statement `%s`" % s[:120])
    out.append("Definition Broker_finish : list fstmt := [%s]." % "; ".join(prog))

    # connectionLost and shutdown both go through finish
    cl = [src(s) for s in body_of(P.find_def(mod, "Broker.connectionLost"))]
    if "self.finish(why)" not in cl:
        U("Broker.connectionLost no longer calls self.finish(why)")
    sh = [src(s) for s in body_of(P.find_def(mod, "Broker.shutdown"))]
    if "self.finish(why)" not in sh:
        U("Broker.shutdown no longer calls self.finish(why)")
    out.append("Definition connectionLost_and_shutdown_call_finish : bool := true.")


# ------------------------------------------------------------------ RemoteReference._callRemote
def gen_callremote(out):
    mod = P.load("referenceable.py")
    fn = P.find_def(mod, "RemoteReference._callRemote")
    body = body_of(fn)
    # 1. request id selection
    sel = [s for s in body if isinstance(s, ast.If) and src(s.test) == "callOnly"]
    if len(sel) != 1:
        U("_callRemote: expected exactly one `if callOnly:`")
    sel = sel[0]
    th = [src(s) for s in sel.body]
    el = [src(s) for s in sel.orelse]
    silent = None
    if len(sel.body) == 2 and isinstance(sel.body[0], ast.If) and src(sel.body[0].test) == "broker.disconnected" \
            and [src(x) for x in sel.body[0].body] == ["return"] and not sel.body[0].orelse:
        silent = True
        assign = sel.body[1]
    elif len(sel.body) == 1:
        silent = False
        assign = sel.body[0]
    else:
        U("_callRemote: unexpected one-way branch: %s" % th)
    if not (isinstance(assign, ast.Assign) and src(assign.targets[0]) == "reqID" and isinstance(assign.value, ast.Constant)
            and isinstance(assign.value.value, int)):
        U("_callRemote: one-way reqID is not an integer literal: %s" % th)
    if el != ["reqID = broker.newRequestID()"]:
        U("_callRemote: two-way reqID is not broker.newRequestID(): %s" % el)
    out.append("Definition oneway_reqid : Z := %d." % assign.value.value)
    out.append("Definition oneway_silent_when_disconnected : bool := %s." % ("true" if silent else "false"))
    # 2. req creation, commitment point 1, commitment point 2, return
    idx = {}
    for i, s in enumerate(body):
        t = src(s)
        if t.startswith("req = call.PendingRequest(reqID,"):
            idx["create"] = i
        if isinstance(s, ast.If) and src(s.test) == "not callOnly" and [src(x) for x in s.body] == ["broker.addRequest(req)"] \
                and not s.orelse:
            idx["add"] = i
        if isinstance(s, ast.Try):
            idx["try"] = i
            tr = s
        if t == "return req.deferred":
            idx["ret"] = i
    for k in ("create", "add", "try", "ret"):
        if k not in idx:
            U("_callRemote: could not find the `%s` step" % k)
    if not (idx["create"] < idx["add"] and idx["add"] + 1 == idx["try"] and idx["try"] + 1 == idx["ret"] == len(body) - 1):
        U("_callRemote: addRequest / try-send / return are no longer consecutive final statements")
    tb = [src(x) for x in tr.body]
    if tb != ["d = broker.send(slicer)", "d.addErrback(req.fail)"]:
        U("_callRemote: try body is %s" % tb)
    if len(tr.handlers) != 1 or tr.handlers[0].type is not None or \
            [src(x) for x in tr.handlers[0].body] != ["req.fail(failure.Failure())"] or tr.orelse or tr.finalbody:
        U("_callRemote: the except clause no longer routes the exception to req.fail")
    out.append("Definition callRemote_registers_before_send_and_routes_send_failure_to_fail : bool := true.")
    # callRemote / callRemoteOnly wrappers
    cr = [src(s) for s in body_of(P.find_def(mod, "RemoteReference.callRemote"))]
    if cr != ["return defer.maybeDeferred(self._callRemote, _name, False, args, kwargs)"]:
        U("callRemote wrapper changed: %s" % cr)
    out.append("Definition callRemote_is_maybeDeferred_of__callRemote : bool := true.")


# ------------------------------------------------------------------ Answer / Error unslicers
def gen_unslicers(out):
    """Answer/Error unslicers (call.py) and the top-level registry (broker.py).

    Accepted alternative forms (each equivalent to the reference form for ALL inputs):
      U1. the callbacks handed to `d.addCallbacks(ok, err)` in AnswerUnslicer.receiveClose may be closures defined in
          receiveClose or bound methods `self.<name>` of the class: both are called with the one argument the Deferred
          passes and run the same body with the same `self`.
      U2. `self.request == None` / `is None` / `not self.request` and `!= None` / `is not None` / `self.request` are the same
          test: self.request is either None or a PendingRequest (which defines neither __eq__ nor __bool__/__len__).
    """
    mod = P.load("call.py")

    def has(fnq, frag):
        f = P.find_def(mod, fnq)
        if frag not in src(f):
            U("%s no longer contains `%s`" % (fnq, frag))
        return f

    def none_test(t):
        s = src(t)
        if s in ("self.request == None", "self.request is None", "not self.request"):
            return "none"
        if s in ("self.request != None", "self.request is not None", "self.request"):
            return "some"
        return None

    def raises_banana(stmts):
        return len(stmts) == 1 and isinstance(stmts[0], ast.Raise) and stmts[0].exc is not None \
            and src(stmts[0].exc).startswith("BananaError(")

    # ---- receiveChild: the first child is the request id, looked up with getRequest and kept in self.request
    for cls in ("AnswerUnslicer", "ErrorUnslicer"):
        rc_ = body_of(P.find_def(mod, cls + ".receiveChild"))
        ifs = [s for s in rc_ if isinstance(s, ast.If) and none_test(s.test) == "none"]
        if len(ifs) != 1 or not ifs[0].orelse:
            U("%s.receiveChild: expected one `if self.request == None: ... else: ...`" % cls)
        bind = [src(s) for s in ifs[0].body if not isinstance(s, ast.Assert)]
        if bind[:2] != ["reqID = token", "self.request = self.broker.getRequest(reqID)"]:
            U("%s.receiveChild no longer binds self.request = self.broker.getRequest(reqID) from the first token: %s" % (cls, bind))
        for s in ifs[0].orelse:
            for x in ast.walk(s):
                if isinstance(x, ast.Attribute) and x.attr in ("getRequest", "complete", "fail") or \
                        (isinstance(x, ast.Assign) and any(src(t) == "self.request" for t in x.targets)):
                    U("%s.receiveChild: the branch for later children touches the request: %s" % (cls, src(s)[:80]))
        flag = "haveResults" if cls == "AnswerUnslicer" else "gotFailure"
        if "self.%s = True" % flag not in [src(s) for s in ifs[0].orelse]:
            U("%s.receiveChild: the branch for later children no longer sets self.%s" % (cls, flag))
        for s in rc_:
            if s is not ifs[0] and not isinstance(s, ast.Assert):
                U("%s.receiveChild: unexpected statement `%s`" % (cls, src(s)[:80]))

    # ---- checkToken: request id must be an INT; one result / failure; anything after that is a BananaError
    for cls, flag in (("AnswerUnslicer", "haveResults"), ("ErrorUnslicer", "gotFailure")):
        ct = body_of(P.find_def(mod, cls + ".checkToken"))
        okshape = (len(ct) == 1 and isinstance(ct[0], ast.If) and none_test(ct[0].test) == "none"
                   and len(ct[0].body) == 1 and isinstance(ct[0].body[0], ast.If)
                   and src(ct[0].body[0].test) == "typebyte != tokens.INT" and raises_banana(ct[0].body[0].body)
                   and not ct[0].body[0].orelse
                   and len(ct[0].orelse) == 1 and isinstance(ct[0].orelse[0], ast.If)
                   and src(ct[0].orelse[0].test) == "not self.%s" % flag
                   and raises_banana(ct[0].orelse[0].orelse))
        if not okshape:
            U("%s.checkToken is no longer `if no request: INT only (BananaError) / elif not %s: <constraint> / else: BananaError`" % (cls, flag))
        for x in ast.walk(ct[0].orelse[0]):
            if isinstance(x, ast.Attribute) and x.attr in ("getRequest", "complete", "fail"):
                U("%s.checkToken touches the request" % cls)
    out.append("Definition unslicer_reqid_must_be_INT_and_one_body_object : bool := true.")

    # ---- reportViolation: fails the bound request (if any), then gives up the sequence
    kinds = {}
    for cls in ("AnswerUnslicer", "ErrorUnslicer"):
        rv = body_of(P.find_def(mod, cls + ".reportViolation"))
        argn = method_arg(P.find_def(mod, cls + ".reportViolation"), cls + ".reportViolation")
        if not rv or src(rv[-1]) != "return %s" % argn:
            U("%s.reportViolation no longer ends in `return %s` (give up the sequence)" % (cls, argn))
        pre = rv[:-1]
        if not pre:
            kinds[cls] = "ReportIgnores"
        elif len(pre) == 1 and isinstance(pre[0], ast.If) and none_test(pre[0].test) == "some" and not pre[0].orelse \
                and [src(s) for s in pre[0].body] == ["self.request.fail(%s)" % argn]:
            kinds[cls] = "ReportFailsBound"
        else:
            U("%s.reportViolation changed: %s" % (cls, [src(s) for s in rv]))
    out.append("Definition answer_reportViolation : report_kind := %s." % kinds["AnswerUnslicer"])
    out.append("Definition error_reportViolation : report_kind := %s." % kinds["ErrorUnslicer"])

    # ---- receiveClose
    rc = P.find_def(mod, "AnswerUnslicer.receiveClose")
    cls_ans = P.find_class(mod, "AnswerUnslicer")
    rcb = body_of(rc)
    if not (rcb and isinstance(rcb[0], ast.If) and src(rcb[0].test) == "not self._child_deferred" and raises_banana(rcb[0].body)
            and not rcb[0].orelse):
        U("AnswerUnslicer.receiveClose no longer starts with `if not self._child_deferred: raise BananaError`")
    inner = {n.name: n for n in ast.walk(rc) if isinstance(n, ast.FunctionDef) and n is not rc}
    methods = {n.name: n for n in cls_ans.body if isinstance(n, ast.FunctionDef)}
    regs = [s.value for s in rcb if isinstance(s, ast.Expr) and isinstance(s.value, ast.Call)
            and src(s.value.func) == "d.addCallbacks"]
    if len(regs) != 1 or len(regs[0].args) != 2 or regs[0].keywords:
        U("AnswerUnslicer.receiveClose: expected exactly one d.addCallbacks(ok, err)")

    def resolve(e):
        if isinstance(e, ast.Name) and e.id in inner:
            f = inner[e.id]
            a = [x.arg for x in f.args.args]
            if len(a) == 1:
                return a[0], body_of(f)
        if isinstance(e, ast.Attribute) and src(e.value) == "self" and e.attr in methods:
            f = methods[e.attr]
            a = [x.arg for x in f.args.args]
            if len(a) == 2 and a[0] == "self":
                return a[1], body_of(f)
        U("AnswerUnslicer.receiveClose: cannot resolve the callback `%s`" % src(e))
    a_ok, b_ok = resolve(regs[0].args[0])
    a_err, b_err = resolve(regs[0].args[1])
    if [src(s) for s in b_ok] != ["self.request.complete(%s)" % a_ok]:
        U("AnswerUnslicer.receiveClose: the success callback is not `self.request.complete(res)`: %s" % [src(s) for s in b_ok])
    if [src(s) for s in b_err] != ["self.request.fail(%s)" % a_err]:
        U("AnswerUnslicer.receiveClose: the failure callback is not `self.request.fail(f)`: %s" % [src(s) for s in b_err])
    for s in rcb:
        if isinstance(s, ast.FunctionDef):
            continue
        for x in ast.walk(s):
            if isinstance(x, ast.Attribute) and x.attr in ("complete", "fail", "getRequest") and src(x.value) in ("self.request", "self.broker"):
                U("AnswerUnslicer.receiveClose touches the request outside the two callbacks: %s" % src(s)[:80])
    ec = [src(s) for s in body_of(P.find_def(mod, "ErrorUnslicer.receiveClose"))]
    if ec[:1] != ["f = self.failure"] or ec[-2:] != ["self.request.fail(f)", "return (None, None)"] or any("complete" in s for s in ec):
        U("ErrorUnslicer.receiveClose no longer is `f = self.failure; ...; self.request.fail(f); return None, None`: %s" % ec)
    cattrs = P.module_consts(mod, body=P.find_class(mod, "ErrorUnslicer").body)
    if "failure" in cattrs:
        U("ErrorUnslicer now has a class default for `failure` (CLOSE before the failure object used to be an AttributeError)")
    out.append("Definition wire_answer_is_lookup_then_complete_and_error_is_lookup_then_fail : bool := true.")

    # ---- who touches the pending-request table, in the whole package (tests excluded): only the classes modelled here.
    # Granularity is the class, so that extracting a helper method inside one of them changes nothing.
    import os
    expected_calls = {("call.py", "PendingRequest", "removeRequest"), ("call.py", "AnswerUnslicer", "getRequest"),
                      ("call.py", "ErrorUnslicer", "getRequest"), ("referenceable.py", "RemoteReference", "addRequest"),
                      ("broker.py", "Broker", "abandonAllRequests")}
    found_calls = set()
    MUT = {"pop", "popitem", "clear", "update", "setdefault", "__setitem__", "__delitem__"}
    for dirpath, dirs, files in os.walk(P.SRC):
        dirs[:] = sorted(d for d in dirs if d != "test")
        for fn in sorted(files):
            if not fn.endswith(".py"):
                continue
            rel = os.path.relpath(os.path.join(dirpath, fn), P.SRC)
            with open(os.path.join(dirpath, fn)) as f:
                text = f.read()
            if not any(w in text for w in ("waitingForAnswers", "getRequest", "removeRequest", "addRequest", "abandonAllRequests")):
                continue
            tree = ast.parse(text)
            parent = {}
            for n in ast.walk(tree):
                for ch in ast.iter_child_nodes(n):
                    parent[ch] = n

            def klass(n):
                while n in parent:
                    n = parent[n]
                    if isinstance(n, ast.ClassDef):
                        return n.name
                return None
            for n in ast.walk(tree):
                if isinstance(n, ast.Call) and isinstance(n.func, ast.Attribute) and \
                        n.func.attr in ("getRequest", "removeRequest", "addRequest", "abandonAllRequests"):
                    found_calls.add((rel, klass(n), n.func.attr))
                if isinstance(n, ast.Attribute) and n.attr == "waitingForAnswers":
                    up = parent.get(n)
                    mut = not isinstance(n.ctx, ast.Load)
                    if isinstance(up, ast.Subscript) and up.value is n and not isinstance(up.ctx, ast.Load):
                        mut = True
                    if isinstance(up, ast.Attribute) and up.attr in MUT:
                        mut = True
                    if mut and (rel, klass(n)) != ("broker.py", "Broker"):
                        U("%s (class %s) modifies Broker.waitingForAnswers: %s" % (rel, klass(n), src(up)[:80]))
    if found_calls != expected_calls:
        U("the pending-request table is used from unexpected places: extra %s, missing %s"
          % (sorted(found_calls - expected_calls), sorted(expected_calls - found_calls)))
    out.append("Definition request_table_touched_only_by_modelled_classes : bool := true.")

    # ---- the top-level registry: which opentypes create these unslicers
    bmod = P.load("broker.py")
    reg = [st for st in bmod.body if isinstance(st, ast.Assign) and src(st.targets[0]) == "PBTopRegistry"]
    if len(reg) != 1 or not isinstance(reg[0].value, ast.Dict):
        U("broker.PBTopRegistry is no longer a dict literal")
    names = {}
    for k, v in zip(reg[0].value.keys, reg[0].value.values):
        if not (isinstance(k, ast.Tuple) and len(k.elts) == 1 and isinstance(k.elts[0], ast.Constant) and isinstance(k.elts[0].value, str)):
            U("PBTopRegistry: key `%s` is not a 1-tuple of a string literal" % src(k))
        names.setdefault(src(v), []).append(k.elts[0].value)
    for cls, nm in (("call.AnswerUnslicer", "answer_opentype"), ("call.ErrorUnslicer", "error_opentype")):
        if len(names.get(cls, [])) != 1:
            U("PBTopRegistry: %s is not registered under exactly one opentype: %s" % (cls, names.get(cls)))
        out.append("Definition %s : list Z := [%s]." % (nm, "; ".join(str(b) for b in names[cls][0].encode("ascii"))))
    root = P.find_class(bmod, "PBRootUnslicer")
    tr = [src(s) for s in root.body if isinstance(s, ast.Assign) and src(s.targets[0]) == "topRegistries"]
    if tr != ["topRegistries = [PBTopRegistry]"]:
        U("PBRootUnslicer.topRegistries is no longer [PBTopRegistry]")
    rv = [src(s) for s in body_of(P.find_def(bmod, "PBRootUnslicer.reportViolation")) if not isinstance(s, ast.If) or "print" not in src(s)]
    if rv != ["return None"]:
        U("PBRootUnslicer.reportViolation no longer absorbs the failure (`return None`): %s" % rv)
    ctk = [src(s) for s in body_of(P.find_def(bmod, "PBRootUnslicer.checkToken"))]
    if len(ctk) != 1 or not ctk[0].startswith("if typebyte != tokens.OPEN:\n    raise BananaError("):
        U("PBRootUnslicer.checkToken no longer is `if typebyte != tokens.OPEN: raise BananaError`: %s" % ctk)
    out.append("Definition root_absorbs_violations_and_accepts_only_OPEN : bool := true.")


# ------------------------------------------------------------------ eventual.py: the queue abandonAllRequests relies on
def gen_eventual(out):
    mod = P.load("eventual.py")
    ap = [src(x) for x in body_of(P.find_def(mod, "_SimpleCallQueue.append"))]
    if not ap or ap[0] != "self._events.append((cb, args, kwargs))":
        U("_SimpleCallQueue.append no longer appends (cb, args, kwargs) to self._events: %s" % ap[:1])
    ev = body_of(P.find_def(mod, "eventually"))
    if [src(x) for x in ev] != ["_theSimpleQueue.append(cb, args, kwargs)"]:
        U("eventually() is no longer _theSimpleQueue.append(cb, args, kwargs)")
    turn = body_of(P.find_def(mod, "_SimpleCallQueue._turn"))
    srcs = [src(x) for x in turn]
    # the batch: everything queued when the turn starts, new events go to a fresh list
    if "(events, self._events) = (self._events, [])" not in srcs and "events, self._events = (self._events, [])" not in srcs:
        U("_turn no longer takes the batch with `events, self._events = self._events, []`: %s" % srcs[:3])
    out.append("Definition turn_takes_snapshot : bool := true.")

    def is_call(st):
        return src(st) == "cb(*args, **kwargs)"

    def swallowing(tr):
        # except: / except Exception:/BaseException: whose body only logs -> the exception does not propagate
        if tr.orelse or tr.finalbody or len(tr.handlers) != 1:
            return False
        h = tr.handlers[0]
        if h.type is not None and src(h.type) not in ("Exception", "BaseException"):
            return False
        return all(src(b) in ("log.err()", "pass") for b in h.body)
    loops = [x for x in turn if isinstance(x, ast.For)]
    tries = [x for x in turn if isinstance(x, ast.Try)]
    mode = None
    if len(loops) == 1 and not tries:
        lp = loops[0]
        if src(lp.target) == "(cb, args, kwargs)" and src(lp.iter) == "events" and not lp.orelse and len(lp.body) == 1 \
                and isinstance(lp.body[0], ast.Try) and swallowing(lp.body[0]) and len(lp.body[0].body) == 1 \
                and is_call(lp.body[0].body[0]):
            mode = "TurnIsolatesEvents"
    elif len(tries) == 1 and not loops:
        tr = tries[0]
        if swallowing(tr) and len(tr.body) == 1 and isinstance(tr.body[0], ast.For):
            lp = tr.body[0]
            if src(lp.target) == "(cb, args, kwargs)" and src(lp.iter) == "events" and not lp.orelse and len(lp.body) == 1 \
                    and is_call(lp.body[0]):
                mode = "TurnStopsAtFirstException"
    if mode is None:
        U("_turn: the loop over the batch has an unrecognised shape")
    out.append("Definition turn_mode_of_source : turn_mode := %s." % mode)



# ------------------------------------------------------------------ banana.py: the CLOSE and ABORT clauses of handleData
def gen_banana_clauses(out):
    """how handleData treats a CLOSE / an ABORT token that arrives while the index tokens of an OPEN are pending (inOpen)"""
    mod = P.load("banana.py")
    hd = P.find_def(mod, "Banana.handleData")
    clauses = {}
    for n in ast.walk(hd):
        if isinstance(n, ast.If) and isinstance(n.test, ast.Compare) and src(n.test.left) == "typebyte" \
                and len(n.test.ops) == 1 and isinstance(n.test.ops[0], ast.Eq) and src(n.test.comparators[0]) in ("CLOSE", "ABORT"):
            body = [st for st in n.body if not (isinstance(st, ast.If) and src(st.test) == "self.debugReceive")]
            if any(src(b) == "continue" for b in body):
                clauses.setdefault(src(n.test.comparators[0]), []).append(body)
    if len(clauses.get("CLOSE", [])) != 1 or len(clauses.get("ABORT", [])) != 1:
        U("handleData: expected exactly one `typebyte == CLOSE` and one `typebyte == ABORT` clause ending in continue")
    cl = clauses["CLOSE"][0]
    if [src(x) for x in cl[:1]] != ["count = header"] or src(cl[-1]) != "continue":
        U("handleData CLOSE clause: unexpected frame")
    mid = cl[1:-1]
    guard = None
    if len(mid) == 2 and isinstance(mid[0], ast.If) and src(mid[0].test) == "self.inOpen and (not self.discardCount)" \
            and len(mid[0].body) == 1 and isinstance(mid[0].body[0], ast.Raise) and src(mid[0].body[0].exc).startswith("BananaError(") \
            and not mid[0].orelse:
        guard = True
        mid = mid[1:]
    elif len(mid) == 1:
        guard = False
    if guard is None or not (isinstance(mid[0], ast.If) and src(mid[0].test) == "self.discardCount"
                             and [src(x) for x in mid[0].body if not (isinstance(x, ast.If) and "debugReceive" in src(x.test))] == ["self.discardCount -= 1"]
                             and [src(x) for x in mid[0].orelse] == ["self.handleClose(count)"]):
        U("handleData CLOSE clause is not `[index-phase guard]; if self.discardCount: self.discardCount -= 1 else: self.handleClose(count)`")
    out.append("Definition close_in_index_phase_is_fatal : bool := %s." % ("true" if guard else "false"))
    ab = clauses["ABORT"][0]
    calls = [x for x in ast.walk(ast.Module(body=ab, type_ignores=[])) if isinstance(x, ast.Call) and src(x.func) == "self.handleViolation"]
    if len(calls) != 1:
        U("handleData ABORT clause: expected exactly one handleViolation call")
    c = calls[0]
    kws = {k.arg: src(k.value) for k in c.keywords}
    tr = [x for x in ab if isinstance(x, ast.Try)]
    hb = [src(x) for x in tr[0].handlers[0].body] if len(tr) == 1 and len(tr[0].handlers) == 1 else []
    if kws == {} and not any(x == "self.inOpen = False" for x in hb):
        mode = "false"
    elif kws == {"inOpen": "self.inOpen"} and hb and hb[-1] == "self.inOpen = False":
        mode = "true"
    else:
        U("handleData ABORT clause: unrecognised handleViolation call `%s` / handler %s" % (src(c), hb))
    rej = [x for x in ab if isinstance(x, ast.If) and src(x.test) == "rejected"]
    if len(rej) != 1 or src(rej[0].body[-1]) != "continue":
        U("handleData ABORT clause: a rejected ABORT is no longer ignored")
    out.append("Definition abort_in_index_phase_abandons_sequence : bool := %s." % mode)


HEADER = '''
(* statement language of PendingRequest.complete / fail *)
Inductive pstmt :=
| PIfBroker (body : list pstmt)            (* if self.broker: body *)
| PIfActive (th el : list pstmt)           (* if self.active: th else: el *)
| PRemove                                  (* self.broker.removeRequest(self) *)
| PSetActive (b : bool)                    (* self.active = b *)
| PSetFailure                              (* self.failure = why *)
| PCallback                                (* self.deferred.callback(res) *)
| PErrback                                 (* self.deferred.errback(why) *)
| PLog.                                    (* logging only *)

(* statement language of Broker.finish (statements that do not touch the request table are dropped) *)
Inductive fstmt := FReturnIfDisconnected | FSetDisconnected | FAbandon.

Inductive remove_kind := RemoveDel | RemoveQuiet.          (* `del d[k]` raises KeyError / `d.pop(k, None)` does not *)
Inductive abandon_mode := AbandonEventually | AbandonDirect. (* eventually(req.fail, why) / req.fail(why) *)
(* the test in abandonAllRequests that decides which reasons become DeadReferenceError *)
Inductive lost_test := LostCheckSubclasses | LostExactTypeOnly. (* Failure.check on the list (matches subclasses) / `why.type in` the list (exact classes only) *)
(* _SimpleCallQueue._turn: try/except around each event / one try around the whole loop *)
Inductive turn_mode := TurnIsolatesEvents | TurnStopsAtFirstException.
Inductive lost_class := ConnectionLostC | ConnectionDoneC | SSLErrorC.
(* Answer/ErrorUnslicer.reportViolation: `if self.request != None: self.request.fail(f)` then `return f` / only `return f` *)
Inductive report_kind := ReportFailsBound | ReportIgnores.
'''


def generate():
    out = [P.PRELUDE % dict(src="call.py, broker.py, referenceable.py, eventual.py"), HEADER]
    mod = P.load("call.py")
    cls = P.find_class(mod, "PendingRequest")
    consts = P.module_consts(mod, body=cls.body)
    if not isinstance(consts.get("active"), bool):
        U("PendingRequest.active class default is not a boolean literal")
    out.append("Definition PendingRequest_active_default : bool := %s." % ("true" if consts["active"] else "false"))
    init = P.find_def(mod, "PendingRequest.__init__")
    si = [src(s) for s in body_of(init)]
    if "self.broker = None" not in si or "self.deferred = defer.Deferred()" not in si:
        U("PendingRequest.__init__ no longer sets broker = None and a fresh Deferred")
    if any(s.startswith("self.active") for s in si):
        U("PendingRequest.__init__ assigns self.active")
    for name in ("complete", "fail"):
        fn = P.find_def(mod, "PendingRequest." + name)
        arg = method_arg(fn, "PendingRequest." + name)
        prog = pstmts(fn.body, arg, "PendingRequest." + name)
        out.append("Definition PendingRequest_%s : list pstmt :=\n  [%s]." % (name, ";\n   ".join(prog)))
    gen_broker(out)
    gen_callremote(out)
    gen_unslicers(out)
    gen_eventual(out)
    gen_banana_clauses(out)
    res = {"RequestsGen.v": "\n\n".join(out) + "\n"}
    from translate import g_banana
    res.update(g_banana.generate())
    return res
