"""C01: translated parts of slicer.py, slicers/*.py, copyable.py, call.py, banana.py (object layer).

Emitted into coq/gen/SlicersGen.v:
  * per Slicer class: the `opentype` tuple (as byte strings) and the `trackReferences` flag, resolved through the
    class hierarchy of the *imported* classes ($VERIF_REPO/src is first on sys.path when the generator runs);
  * per Unslicer class: its `opentype` (the key under which the metaclass registered it in UnslicerRegistry) and
    whether its `start` registers the new object with `self.protocol.setObject(count, ...)` (AST fact, resolved
    through base classes);
  * the scoped sequences of call.py (ScopedSlicer subclasses) and that their unslicers are ScopedUnslicers;
  * the leaf bodies: the two INT tokens of BooleanSlicer, NoneSlicer's empty body, Unicode/Decimal = one string;
  * which Python type is sliced by which opentype (`slices = ...` / registerAdapter / SIMPLE_TOKENS);
  * shape facts (fail closed when the code no longer has the expected form): BaseSlicer.slice emits the opentype
    strings then the body; pushSlicer = sendOpen + registerRefID under trackReferences; popSlicer = sendClose(openID);
    ScopedSlicer's table is keyed by id(obj) and answers with a ReferenceSlicer; Banana.setObject/getObject walk the
    receive stack from the top; the object counter is taken and incremented at OPEN; PING / PONG are clauses of handleData's
    per-token chain (reached after the look-ahead window has been put back) that only answer / continue; list/set bodies iterate the
    object; dict body = key then value with OrderedDictSlicer's sort-with-fallback; Copyable = 'copyable', type name,
    then attribute name / value pairs; set-vocab switches the table to {} at start and to the new one at finish.
Everything that is not recognised raises Untranslatable.

Accepted alternative forms (each equivalent to the reference form for ALL inputs, no assumption on value types):
  * RootUnslicer.open, the registry scan after the 'copyable' branch.  Reference form (A):
        for reg in self.openRegistries:
            opener = reg.get(opentype)
            if opener is not None:
                child = opener()
                return child
        raise Violation(..)
    Also accepted (B):
        opener = self.<H>(self.openRegistries, opentype)
        if opener is not None:
            child = opener()
            return child
        raise Violation(..)
    where <H> is a method of RootUnslicer with parameters (self, p, q), no decorators, whose body (docstring aside) is exactly
        for reg in p:
            opener = reg.get(q)
            if opener is not None:
                return opener
        return None
    and which no class in slicers/root.py, broker.py or storage.py redefines.  Argument: H iterates p in order and performs
    exactly the calls reg.get(q) up to and including the first whose result is not None, then returns that result (else
    None) -- the same calls, in the same order, as the loop of (A) with p = self.openRegistries, q = opentype (both are
    evaluated once, before the first reg.get, in either form; opentype is a local that nothing rebinds in between).
    After H returns, (B) tests `opener is not None` on a local (an identity test: no user code runs) and then executes
    the same `child = opener(); return child` that (A) executes at the hit, with nothing in between; without a hit both
    reach the same raise.  Neither form depends on what the registries or factories are.
    (translate/normalize.py cannot inline H because its `return` sits inside a loop.)"""
import ast, importlib, sys
from translate import pylite as P

PROPERTIES = ["C01", "C04"]
OUTPUTS = ["SlicersGen.v"]


def bl(b):
    if isinstance(b, str):
        b = b.encode("utf-8")
    return "[" + "; ".join(str(x) for x in b) + "]"


def bll(t):
    return "[" + "; ".join(bl(x) for x in t) + "]"


def cbool(b):
    return "true" if b else "false"


def norm(src):
    return ast.unparse(ast.parse(src))


def body_src(fn):
    """source of a function body without docstring / debug prints"""
    stmts = [s for s in fn.body if not (isinstance(s, ast.Expr) and isinstance(s.value, ast.Constant))]
    return "\n".join(ast.unparse(s) for s in stmts)


def require(src, frags, where):
    for f in frags:
        if f not in src:
            raise P.Untranslatable("%s no longer contains `%s`" % (where, f))


def ast_class_chain(relmod, clsname, seen=None):
    """[(rel, ClassDef)] for the class and its (single-inheritance) bases that live in foolscap, nearest first"""
    out = []
    rel = relmod
    name = clsname
    for _ in range(10):
        mod = P.load(rel)
        cls = P.find_class(mod, name)
        out.append((rel, cls))
        if not cls.bases:
            break
        b = cls.bases[0]
        bname = ast.unparse(b)
        if "." in bname:
            modname, bname = bname.rsplit(".", 1)
        else:
            modname = None
        # where does bname come from?
        target = None
        if any(isinstance(n, ast.ClassDef) and n.name == bname for n in mod.body):
            target = rel
        else:
            for st in mod.body:
                if isinstance(st, ast.ImportFrom) and st.module:
                    for a in st.names:
                        if (a.asname or a.name) == bname and modname is None:
                            target = st.module
                            bname = a.name
                        elif modname is not None and (a.asname or a.name) == modname:
                            target = (("foolscap." if st.level else "") + (st.module or "") + "." + a.name).replace("..", ".")
        if target is None:
            break
        if target != rel:
            if target.startswith("."):
                target = "foolscap" + target
            if not target.startswith("foolscap"):
                break
            target = target[len("foolscap"):].lstrip(".").replace(".", "/") + ".py"
        rel = target
        name = bname
        try:
            P.load(rel)
        except (OSError, IOError):
            break
    return out


def start_registers(rel, clsname):
    """does <clsname>.start (resolved through the bases) call self.protocol.setObject(count, ...) ?"""
    for r, cls in ast_class_chain(rel, clsname):
        for st in cls.body:
            if isinstance(st, ast.FunctionDef) and st.name == "start":
                calls = [n for n in ast.walk(st) if isinstance(n, ast.Call)
                         and ast.unparse(n.func) == "self.protocol.setObject"]
                for c in calls:
                    if not (len(c.args) == 2 and ast.unparse(c.args[0]) == "count"):
                        raise P.Untranslatable("%s.start: unexpected setObject arguments %s" % (cls.name, ast.unparse(c)))
                return len(calls) > 0
    return False


def update_returns_value(rel, clsname):
    """does <clsname>.update(self, v, where) hand its first argument on to the next callback of the Deferred?
    True: every `return` returns that parameter and the body cannot fall off the end; False: it returns None
    (bare return / falls off the end) on every path; anything else is not translated."""
    for r, cls in ast_class_chain(rel, clsname):
        for st in cls.body:
            if isinstance(st, ast.FunctionDef) and st.name == "update":
                a = st.args
                if len(a.args) != 3 or a.vararg or a.kwarg or a.kwonlyargs or a.defaults or a.args[0].arg != "self":
                    raise P.Untranslatable("%s.update: unexpected parameters" % cls.name)
                v = a.args[1].arg
                for n in ast.walk(st):
                    if isinstance(n, (ast.Assign, ast.AugAssign, ast.AnnAssign)):
                        tg = n.targets if isinstance(n, ast.Assign) else [n.target]
                        if any(isinstance(t, ast.Name) and t.id == v for t in tg):
                            raise P.Untranslatable("%s.update rebinds its value parameter" % cls.name)
                    if isinstance(n, (ast.Try, ast.While, ast.For, ast.With, ast.Yield, ast.YieldFrom, ast.Lambda)) or \
                            (isinstance(n, ast.FunctionDef) and n is not st):
                        raise P.Untranslatable("%s.update: control flow the translator does not follow" % cls.name)
                rets = [n for n in ast.walk(st) if isinstance(n, ast.Return)]
                kinds = set()
                for rt in rets:
                    if rt.value is None or (isinstance(rt.value, ast.Constant) and rt.value.value is None):
                        kinds.add(False)
                    elif isinstance(rt.value, ast.Name) and rt.value.id == v:
                        kinds.add(True)
                    else:
                        raise P.Untranslatable("%s.update returns %s" % (cls.name, ast.unparse(rt.value)))

                def falls_off(body):
                    last = body[-1]
                    if isinstance(last, (ast.Return, ast.Raise)):
                        return False
                    if isinstance(last, ast.If):
                        return (not last.orelse) or falls_off(last.body) or falls_off(last.orelse)
                    return True
                if falls_off(st.body):
                    kinds.add(False)
                if kinds == {True}:
                    return True
                if kinds == {False}:
                    return False
                raise P.Untranslatable("%s.update returns its argument on some paths only" % cls.name)
    raise P.Untranslatable("%s has no update method" % clsname)


def start_registers_deferred(rel, clsname):
    """is the object that <clsname>.start registers a fresh Deferred kept in self.deferred (True) or the container (False)?"""
    for r, cls in ast_class_chain(rel, clsname):
        for st in cls.body:
            if isinstance(st, ast.FunctionDef) and st.name == "start":
                calls = [n for n in ast.walk(st) if isinstance(n, ast.Call) and ast.unparse(n.func) == "self.protocol.setObject"]
                if len(calls) != 1:
                    raise P.Untranslatable("%s.start: expected one setObject call" % cls.name)
                arg = ast.unparse(calls[0].args[1])
                assigns = {ast.unparse(n.targets[0]): ast.unparse(n.value) for n in ast.walk(st)
                           if isinstance(n, ast.Assign) and len(n.targets) == 1}
                if arg == "self.deferred" and assigns.get("self.deferred") in ("Deferred()", "defer.Deferred()"):
                    return True
                if arg in ("self.list", "self.set", "self.d") and assigns.get(arg) in ("[]", "set()", "{}"):
                    return False
                raise P.Untranslatable("%s.start registers %s = %r" % (cls.name, arg, assigns.get(arg)))
    raise P.Untranslatable("%s has no start method" % clsname)


def pending_completion_facts():
    out = []
    for nm, rel, cls in (("list", "slicers/list.py", "ListUnslicer"), ("set", "slicers/set.py", "SetUnslicer"),
                         ("dict", "slicers/dict.py", "DictUnslicer"), ("tuple", "slicers/tuple.py", "TupleUnslicer")):
        out.append("Definition upd_ret_%s : bool := %s.  (* %s.update returns the value it was called with (Deferred callback chain) *)"
                   % (nm, cbool(update_returns_value(rel, cls)), cls))
    fz = P.find_class(P.load("slicers/set.py"), "FrozenSetUnslicer")
    if any(isinstance(d, ast.FunctionDef) and d.name in ("update", "start", "receiveChild", "complete", "checkComplete") for d in fz.body):
        raise P.Untranslatable("FrozenSetUnslicer overrides part of TupleUnslicer's completion machinery")
    if [ast.unparse(b) for b in fz.bases] != ["TupleUnslicer"]:
        raise P.Untranslatable("FrozenSetUnslicer is no longer a TupleUnslicer")
    for nm, rel, cls, want in (("list", "slicers/list.py", "ListUnslicer", False), ("set", "slicers/set.py", "SetUnslicer", False),
                               ("dict", "slicers/dict.py", "DictUnslicer", False), ("tuple", "slicers/tuple.py", "TupleUnslicer", True),
                               ("copyable", "copyable.py", "RemoteCopyUnslicer", True)):
        got = start_registers_deferred(rel, cls)
        out.append("Definition defers_%s : bool := %s.  (* %s.start registers a Deferred (True) / the container itself (False) *)"
                   % (nm, cbool(got), cls))
    T = "slicers/tuple.py"
    require(body_src(P.find_def(P.load(T), "TupleUnslicer.receiveChild")),
            ["obj.addCallback(self.update, len(self.list))", "self.num_unreferenceable_children += 1", "self.list.append('placeholder')"],
            "TupleUnslicer.receiveChild")
    require(body_src(P.find_def(P.load(T), "TupleUnslicer.update")),
            ["self.list[index] = obj", "self.num_unreferenceable_children -= 1", "if self.finished:\n    self.checkComplete()"],
            "TupleUnslicer.update")
    require(body_src(P.find_def(P.load(T), "TupleUnslicer.checkComplete")),
            ["if self.num_unreferenceable_children:", "return self.complete()"], "TupleUnslicer.checkComplete")
    rc = body_src(P.find_def(P.load(T), "TupleUnslicer.receiveClose"))
    require(rc, ["if self.num_unreferenceable_children:", "return (self.deferred, ready_deferred)", "return self.complete()"],
            "TupleUnslicer.receiveClose")
    if "self.finished = 1" not in rc and "self.finished = True" not in rc:
        raise P.Untranslatable("TupleUnslicer.receiveClose no longer sets self.finished")
    cp = body_src(P.find_def(P.load(T), "TupleUnslicer.complete"))
    if not (cp.index("t = tuple(self.list)") < cp.index("self.protocol.setObject(self.count, t)") < cp.index("self.deferred.callback(t)")):
        raise P.Untranslatable("TupleUnslicer.complete: tuple(self.list) / setObject / callback are no longer in this order")
    require(body_src(P.find_def(P.load("slicers/list.py"), "ListUnslicer.receiveChild")),
            ["obj.addCallback(self.update, len(self.list))", "self.list.append(placeholder)"], "ListUnslicer.receiveChild")
    require(body_src(P.find_def(P.load("slicers/list.py"), "ListUnslicer.update")), ["self.list[index] = obj"], "ListUnslicer.update")
    require(body_src(P.find_def(P.load("slicers/set.py"), "SetUnslicer.receiveChild")),
            ["placeholder = _Placeholder()", "obj.addCallback(self.update, placeholder)", "self.set.add(placeholder)"], "SetUnslicer.receiveChild")
    require(body_src(P.find_def(P.load("slicers/set.py"), "SetUnslicer.update")),
            ["self.set.remove(placeholder)", "self.set.add(obj)"], "SetUnslicer.update")
    require(body_src(P.find_def(P.load("slicers/dict.py"), "DictUnslicer.receiveKey")),
            ["if isinstance(key, Deferred):\n    raise BananaError("], "DictUnslicer.receiveKey")
    require(body_src(P.find_def(P.load("slicers/dict.py"), "DictUnslicer.receiveValue")),
            ["value.addCallback(self.update, self.key)"], "DictUnslicer.receiveValue")
    require(body_src(P.find_def(P.load("slicers/dict.py"), "DictUnslicer.update")), ["self.d[key] = value"], "DictUnslicer.update")
    rcc = P.find_def(P.load("copyable.py"), "RemoteCopyUnslicer.receiveChild")
    first = [s for s in rcc.body if not (isinstance(s, ast.Expr) and isinstance(s.value, ast.Constant))][0]
    if ast.unparse(first) != "assert not isinstance(obj, defer.Deferred)":
        raise P.Untranslatable("RemoteCopyUnslicer.receiveChild no longer starts by refusing a Deferred")
    rcl = body_src(P.find_def(P.load("copyable.py"), "RemoteCopyUnslicer.receiveClose"))
    if not (rcl.index("self.protocol.setObject(self.count, obj)") < rcl.index("self.deferred.callback(obj)")):
        raise P.Untranslatable("RemoteCopyUnslicer.receiveClose: setObject / callback order")
    rrc = P.find_def(P.load("slicers/root.py"), "RootUnslicer.receiveChild")
    first = [s for s in rrc.body if not (isinstance(s, ast.Expr) and isinstance(s.value, ast.Constant))][0]
    if ast.unparse(first) != "assert not isinstance(obj, Deferred)":
        raise P.Untranslatable("RootUnslicer.receiveChild no longer starts by refusing a Deferred")
    out.append("Definition pending_shape_checked : bool := true.  (* placeholders, update callbacks, num_unreferenceable_children, complete() order *)")
    return out


def translate_scope_table(sm):
    """ScopedSlicer.registerRefID / slicerForObject, statement by statement, into Gallina over an association list
    id(obj) -> refid.  registerRefID must be ONE subscript store `self.references[id(obj)] = E` with E built from the
    parameters; slicerForObject must read the same dict with .get(id(obj)), test the result against None and hand
    `ReferenceSlicer(<the entry or one component of it>)` back on a hit, `self.parent.slicerForObject(obj)` on a miss.
    The component handed to ReferenceSlicer is resolved symbolically against E: it must be the `refid` parameter."""
    reg = P.find_def(sm, "ScopedSlicer.registerRefID")
    body = [st for st in reg.body if not (isinstance(st, ast.Expr) and isinstance(st.value, ast.Constant))]
    params = [a.arg for a in reg.args.args]
    if len(params) != 3 or params[0] != "self" or len(body) != 1 or not isinstance(body[0], ast.Assign) or len(body[0].targets) != 1:
        raise P.Untranslatable("ScopedSlicer.registerRefID is not a single store")
    p_refid, p_obj = params[1], params[2]
    tg = body[0].targets[0]
    if not (isinstance(tg, ast.Subscript) and ast.unparse(tg.value) == "self.references" and ast.unparse(tg.slice) == "id(%s)" % p_obj):
        raise P.Untranslatable("ScopedSlicer.registerRefID does not store under self.references[id(obj)]: " + ast.unparse(tg))
    E = body[0].value
    if isinstance(E, ast.Tuple) and all(isinstance(e, ast.Name) for e in E.elts):
        stored = [e.id for e in E.elts]
    elif isinstance(E, ast.Name):
        stored = E.id
    else:
        raise P.Untranslatable("ScopedSlicer.registerRefID stores " + ast.unparse(E))
    if not (isinstance(stored, list) and p_obj in stored):
        # the table is what keeps a registered object alive while its scope is open; without it id(obj) can be reused by a
        # later temporary and the lookup invents aliasing (the model identifies an object with its id for the whole scope)
        raise P.Untranslatable("ScopedSlicer.registerRefID: the stored entry %r no longer holds the object itself" % (stored,))
    look = P.find_def(sm, "ScopedSlicer.slicerForObject")
    lb = [st for st in look.body if not (isinstance(st, ast.Expr) and isinstance(st.value, ast.Constant))]
    lparams = [a.arg for a in look.args.args]
    if len(lparams) != 2 or not lb or not isinstance(lb[0], ast.Assign) or len(lb[0].targets) != 1 or not isinstance(lb[0].targets[0], ast.Name):
        raise P.Untranslatable("ScopedSlicer.slicerForObject: unexpected head")
    lobj = lparams[1]
    x = lb[0].targets[0].id
    if ast.unparse(lb[0].value) not in ("self.references.get(id(%s), None)" % lobj, "self.references.get(id(%s))" % lobj):
        raise P.Untranslatable("ScopedSlicer.slicerForObject does not read self.references.get(id(obj)): " + ast.unparse(lb[0].value))
    miss = "return self.parent.slicerForObject(%s)" % lobj
    rest = lb[1:]
    env = {}

    def hit_arg(stmts):
        """statements executed on a hit -> the expression handed to ReferenceSlicer"""
        for st in stmts[:-1]:
            if isinstance(st, ast.Assign) and len(st.targets) == 1 and isinstance(st.targets[0], ast.Name):
                env[st.targets[0].id] = st.value
            else:
                raise P.Untranslatable("ScopedSlicer.slicerForObject: unexpected statement on the hit path: " + ast.unparse(st))
        last = stmts[-1]
        if not (isinstance(last, ast.Return) and isinstance(last.value, ast.Call) and ast.unparse(last.value.func) == "ReferenceSlicer"
                and len(last.value.args) == 1 and not last.value.keywords):
            raise P.Untranslatable("ScopedSlicer.slicerForObject: the hit path does not return ReferenceSlicer(..): " + ast.unparse(last))
        a = last.value.args[0]
        while isinstance(a, ast.Name) and a.id in env:
            a = env[a.id]
        return a
    if len(rest) == 2 and isinstance(rest[0], ast.If) and ast.unparse(rest[0].test) == "%s is not None" % x and not rest[0].orelse \
            and ast.unparse(rest[1]) == miss:
        arg = hit_arg(rest[0].body)
    elif len(rest) >= 2 and isinstance(rest[0], ast.If) and ast.unparse(rest[0].test) == "%s is None" % x and not rest[0].orelse \
            and [ast.unparse(b) for b in rest[0].body] == [miss]:
        arg = hit_arg(rest[1:])
    else:
        raise P.Untranslatable("ScopedSlicer.slicerForObject: unknown hit/miss structure:\n" + "\n".join(ast.unparse(b) for b in lb))
    # resolve the argument against what registerRefID stored
    if isinstance(arg, ast.Name) and arg.id == x:
        got = stored
    elif isinstance(arg, ast.Subscript) and isinstance(arg.value, ast.Name) and arg.value.id == x and isinstance(arg.slice, ast.Constant) \
            and isinstance(arg.slice.value, int) and isinstance(stored, list) and 0 <= arg.slice.value < len(stored):
        got = stored[arg.slice.value]
    else:
        raise P.Untranslatable("ScopedSlicer.slicerForObject hands %s to ReferenceSlicer (stored: %r)" % (ast.unparse(arg), stored))
    if got != p_refid:
        # e.g. the object itself: ReferenceSlicer.__init__ asserts an int, the send fails
        raise P.Untranslatable("ScopedSlicer.slicerForObject hands the stored %r to ReferenceSlicer, not the reference id" % (got,))
    return [
        "Fixpoint gen_dict_get (d : list (Z * Z)) (k : Z) : option Z := match d with [] => None | (a, b) :: r => if a =? k then Some b else gen_dict_get r k end.",
        "(* ScopedSlicer.registerRefID: %s  -- the entry is modelled by its reference-id component *)" % ast.unparse(body[0]),
        "Definition gen_scoped_register (refs : list (Z * Z)) (oid refid : Z) : list (Z * Z) := (oid, refid) :: refs.  (* dict store: latest wins *)",
        "(* ScopedSlicer.slicerForObject: %s; hit -> ReferenceSlicer(%s) ; miss -> parent *)" % (ast.unparse(lb[0]), ast.unparse(arg)),
        "Definition gen_scoped_lookup (refs : list (Z * Z)) (oid : Z) : option Z := match gen_dict_get refs oid with Some e => Some e | None => None end.",
    ]


def read_registry_scan():
    """the statements of RootUnslicer.open after the 'copyable' branch: form (A) or form (B) of the module docstring"""
    rootmod = P.load("slicers/root.py")
    fn = P.find_def(rootmod, "RootUnslicer.open")
    body = [st for st in fn.body if not (isinstance(st, ast.Expr) and isinstance(st.value, ast.Constant))]
    idx = [i for i, st in enumerate(body) if isinstance(st, ast.If) and ast.unparse(st.test) == "opentype[0] == 'copyable'"]
    if len(idx) != 1:
        raise P.Untranslatable("RootUnslicer.open: expected exactly one `if opentype[0] == 'copyable':`")
    for st in body[:idx[0]]:
        if any(isinstance(n, ast.Name) and n.id == "opener" for n in ast.walk(st)):
            raise P.Untranslatable("RootUnslicer.open: `opener` is used before the registry scan")
    tail = [ast.unparse(st) for st in body[idx[0] + 1:]]
    hit = "if opener is not None:\n    child = opener()\n    return child"
    form_a = "for reg in self.openRegistries:\n    opener = reg.get(opentype)\n" + "\n".join("    " + l for l in hit.split("\n"))
    if len(tail) == 2 and tail[0] == form_a and tail[1].startswith("raise Violation("):
        return "A"
    if len(tail) == 3 and tail[1] == hit and tail[2].startswith("raise Violation("):
        st = body[idx[0] + 1]
        if isinstance(st, ast.Assign) and len(st.targets) == 1 and ast.unparse(st.targets[0]) == "opener" \
                and isinstance(st.value, ast.Call) and isinstance(st.value.func, ast.Attribute) \
                and ast.unparse(st.value.func.value) == "self" and not st.value.keywords \
                and [ast.unparse(a) for a in st.value.args] == ["self.openRegistries", "opentype"]:
            hname = st.value.func.attr
            cls = P.find_class(rootmod, "RootUnslicer")
            defs = [d for d in cls.body if isinstance(d, ast.FunctionDef) and d.name == hname]
            if len(defs) != 1 or defs[0].decorator_list:
                raise P.Untranslatable("RootUnslicer.%s: not defined exactly once / decorated" % hname)
            h = defs[0]
            a = h.args
            if len(a.args) != 3 or a.vararg or a.kwarg or a.kwonlyargs or a.defaults or a.args[0].arg != "self":
                raise P.Untranslatable("RootUnslicer.%s: unexpected parameters" % hname)
            p_, q_ = a.args[1].arg, a.args[2].arg
            hb = [ast.unparse(x) for x in h.body if not (isinstance(x, ast.Expr) and isinstance(x.value, ast.Constant))]
            want = ["for reg in %s:\n    opener = reg.get(%s)\n    if opener is not None:\n        return opener" % (p_, q_), "return None"]
            if hb != want or len({p_, q_, "reg", "opener", "self"}) != 5:
                raise P.Untranslatable("RootUnslicer.%s is not a first-hit registry scan:\n%s" % (hname, "\n".join(hb)))
            for rel in ("slicers/root.py", "broker.py", "storage.py"):
                for c in [x for x in P.load(rel).body if isinstance(x, ast.ClassDef)]:
                    if c is cls:
                        continue
                    for d in ast.walk(c):
                        if isinstance(d, ast.FunctionDef) and d.name == hname or \
                                isinstance(d, ast.Attribute) and d.attr == hname and isinstance(d.ctx, ast.Store):
                            raise P.Untranslatable("%s is redefined in %s (%s)" % (hname, rel, c.name))
            return "B"
    raise P.Untranslatable("RootUnslicer.open: the registry scan after the 'copyable' branch has an unknown form:\n" + "\n".join(tail))


def generate():
    for m in [k for k in sys.modules if k == "foolscap" or k.startswith("foolscap.")]:
        pass
    src_root = P.SRC.rsplit("/foolscap", 1)[0]
    if sys.path[0] != src_root:
        sys.path.insert(0, src_root)
    import foolscap
    if not foolscap.__file__.startswith(src_root):
        raise P.Untranslatable("foolscap imported from %s, expected %s" % (foolscap.__file__, src_root))
    from foolscap import slicer, copyable, call, banana, broker, tokens
    from foolscap.slicers import list as s_list, tuple as s_tuple, dict as s_dict, set as s_set, unicode as s_uni, \
        bool as s_bool, none as s_none, decimal_slicer as s_dec, vocab as s_vocab, root as s_root
    import decimal
    from twisted.python.components import getAdapterFactory

    out = [P.PRELUDE % dict(src="slicer.py, slicers/*.py, copyable.py, call.py, banana.py (object layer)")]

    # ---------------------------------------------------------------- slicers: opentype, trackReferences, slices
    SL = [("list", s_list.ListSlicer, list), ("tuple", s_tuple.TupleSlicer, tuple), ("dict", s_dict.OrderedDictSlicer, dict),
          ("set", s_set.SetSlicer, set), ("frozen", s_set.FrozenSetSlicer, frozenset), ("unicode", s_uni.UnicodeSlicer, str),
          ("boolean", s_bool.BooleanSlicer, bool), ("none", s_none.NoneSlicer, type(None)),
          ("decimal", s_dec.DecimalSlicer, decimal.Decimal)]
    slices_rows = []
    for nm, cls, pytype in SL:
        ot = cls.opentype
        if not (isinstance(ot, tuple) and len(ot) == 1 and isinstance(ot[0], str)):
            raise P.Untranslatable("%s.opentype is not a 1-tuple of str: %r" % (cls.__name__, ot))
        if not isinstance(cls.trackReferences, bool) or cls.sendOpen is not True:
            raise P.Untranslatable("%s.trackReferences/sendOpen unexpected" % cls.__name__)
        fac = getAdapterFactory(pytype, tokens.ISlicer, None)
        if fac is not cls:
            raise P.Untranslatable("objects of type %s are sliced by %r, expected %s" % (pytype.__name__, fac, cls.__name__))
        out.append("Definition ot_%s : list (list Z) := %s.  (* %s.opentype *)" % (nm, bll(ot), cls.__name__))
        out.append("Definition tr_%s : bool := %s.  (* %s.trackReferences *)" % (nm, cbool(cls.trackReferences), cls.__name__))
        slices_rows.append('("%s"%%string, %s)' % (pytype.__name__, bll(ot)))
    out.append("Definition slices_table : list (string * list (list Z)) := [%s]." % "; ".join(slices_rows))
    if banana.SIMPLE_TOKENS != (int, float, bytes):
        raise P.Untranslatable("banana.SIMPLE_TOKENS changed: %r" % (banana.SIMPLE_TOKENS,))
    bsrc = ast.unparse(P.find_def(P.load("banana.py"), "Banana.produce"))
    require(bsrc, ["elif type(obj) in SIMPLE_TOKENS:\n", "self.sendToken(obj)", "slicer = self.newSlicerFor(obj)",
                   "self.pushSlicer(slicer, obj)", "except StopIteration:", "self.popSlicer()"], "Banana.produce")
    rs = slicer.ReferenceSlicer
    if not (rs.opentype == ("reference",) or (isinstance(rs.opentype, tuple) and len(rs.opentype) == 1)) or rs.trackReferences:
        raise P.Untranslatable("ReferenceSlicer opentype/trackReferences unexpected")
    out.append("Definition ot_reference : list (list Z) := %s.  (* ReferenceSlicer.opentype *)" % bll(rs.opentype))
    rsb = body_src(P.find_def(P.load("slicer.py"), "ReferenceSlicer.sliceBody"))
    if norm(rsb) != norm("yield self.refid"):
        raise P.Untranslatable("ReferenceSlicer.sliceBody changed: " + rsb)

    # Copyable
    cs = copyable.CopyableSlicer
    if cs.trackReferences is not False and cs.trackReferences is not True:
        raise P.Untranslatable("CopyableSlicer.trackReferences")
    csl = body_src(P.find_def(P.load("copyable.py"), "CopyableSlicer.slice"))
    want = ("self.streamable = streamable\nyield b'copyable'\ncopytype = self.obj.getTypeToCopy()\n"
            "assert isinstance(copytype, str)\nyield six.ensure_binary(copytype)\nstate = self.obj.getStateToCopy()\n"
            "for k, v in state.items():\n    yield six.ensure_binary(k)\n    yield v")
    if norm(csl) != norm(want):
        raise P.Untranslatable("CopyableSlicer.slice changed:\n" + csl)
    out.append("Definition ot_copyable_head : list Z := %s.  (* first index token of CopyableSlicer.slice *)" % bl(b"copyable"))
    out.append("Definition tr_copyable : bool := %s.  (* CopyableSlicer.trackReferences (inherited) *)" % cbool(cs.trackReferences))
    if getAdapterFactory(copyable.ICopyable, tokens.ISlicer, None) is not cs:
        raise P.Untranslatable("ICopyable is no longer sliced by CopyableSlicer")

    # scoped sequences (call.py)
    scoped = []
    for cls in (call.CallSlicer, call.ArgumentSlicer, call.AnswerSlicer, call.ErrorSlicer):
        if not issubclass(cls, slicer.ScopedSlicer):
            raise P.Untranslatable("%s is no longer a ScopedSlicer" % cls.__name__)
        if cls.trackReferences is not False or len(cls.opentype) != 1:
            raise P.Untranslatable("%s: trackReferences/opentype unexpected" % cls.__name__)
        scoped.append(cls.opentype[0])
    out.append("Definition scoped_opentypes : list (list Z) := %s.  (* Call/Argument/Answer/ErrorSlicer.opentype *)" % bll(scoped))
    regs = {}
    regs.update(broker.PBTopRegistry)
    regs.update(broker.PBOpenRegistry)
    for nm in scoped:
        u = regs.get((nm,))
        if u is None or not issubclass(u, slicer.ScopedUnslicer):
            raise P.Untranslatable("the unslicer registered for (%r,) is not a ScopedUnslicer: %r" % (nm, u))
        # a scoped unslicer does not register itself
        relname = "call.py"
        if start_registers(relname, u.__name__):
            raise P.Untranslatable("%s.start registers itself with setObject" % u.__name__)
    for cls, want_scoped in ((s_root.RootSlicer, False), (s_root.ScopedRootSlicer, True), (broker.PBRootSlicer, False)):
        pass

    # ---------------------------------------------------------------- unslicers: registry + setObject in start
    UN = [("list", "slicers/list.py", s_list.ListUnslicer, 1), ("tuple", "slicers/tuple.py", s_tuple.TupleUnslicer, 2),
          ("set", "slicers/set.py", s_set.SetUnslicer, 3), ("frozen", "slicers/set.py", s_set.FrozenSetUnslicer, 4),
          ("dict", "slicers/dict.py", s_dict.DictUnslicer, 5), ("unicode", "slicers/unicode.py", s_uni.UnicodeUnslicer, 6),
          ("boolean", "slicers/bool.py", s_bool.BooleanUnslicer, 7), ("none", "slicers/none.py", s_none.NoneUnslicer, 8),
          ("decimal", "slicers/decimal_slicer.py", s_dec.DecimalUnslicer, 9),
          ("reference", "slicer.py", slicer.ReferenceUnslicer, 10)]
    rows = []
    for nm, rel, cls, code in UN:
        key = tuple(cls.opentype)
        if slicer.UnslicerRegistry.get(key) is not cls:
            raise P.Untranslatable("UnslicerRegistry[%r] is not %s" % (key, cls.__name__))
        rows.append("(%s, %d)" % (bll(key), code))
        out.append("Definition reg_%s : bool := %s.  (* %s.start calls self.protocol.setObject(count, ..) *)"
                   % (nm, cbool(start_registers(rel, cls.__name__)), cls.__name__))
    out.append("Definition unslicer_table : list (list (list Z) * Z) := [%s].  (* slicer.UnslicerRegistry (value types) *)"
               % "; ".join(rows))
    out.append("Definition reg_copyable : bool := %s.  (* RemoteCopyUnslicer.start *)"
               % cbool(start_registers("copyable.py", "RemoteCopyUnslicer")))
    # RootUnslicer.open: ('copyable',) waits for the class name, ('copyable', name) -> CopyableRegistry[name]
    ro = ast.unparse(P.find_def(P.load("slicers/root.py"), "RootUnslicer.open"))
    require(ro, ["if opentype[0] == 'copyable':", "if len(opentype) > 1:", "copyablename = opentype[1]",
                 "factory = copyable.CopyableRegistry[copyablename]", "return None"], "RootUnslicer.open")
    read_registry_scan()

    # index-token size limits: the class name after OPEN copyable is bounded by the registered names, not by the
    # longest opentype string (storage root and PB root alike)
    oc = ast.unparse(P.find_def(P.load("slicers/root.py"), "RootUnslicer.openerCheckToken"))
    require(oc, ["limit = self.maxIndexLength", "if tuple(opentype) == ('copyable',):",
                 "for cname in list(copyable.CopyableRegistry.keys()):", "limit = max(limit, len(cname))", "if size > limit:"],
            "RootUnslicer.openerCheckToken")
    poc = ast.unparse(P.find_def(P.load("broker.py"), "PBRootUnslicer.openerCheckToken"))
    require(poc, ["if tuple(opentype) == ('copyable',):", "copyable.CopyableRegistry.keys()", "if size > maxlen:"],
            "PBRootUnslicer.openerCheckToken")
    out.append("Definition copyable_name_limit_checked : bool := true.  (* class name bounded by the longest registered Copyable name *)")

    # ---------------------------------------------------------------- leaf bodies
    bb = body_src(P.find_def(P.load("slicers/bool.py"), "BooleanSlicer.sliceBody"))
    t = ast.parse(bb).body
    if not (len(t) == 1 and isinstance(t[0], ast.If) and ast.unparse(t[0].test) == "self.obj"
            and len(t[0].body) == 1 and len(t[0].orelse) == 1):
        raise P.Untranslatable("BooleanSlicer.sliceBody changed: " + bb)
    def yielded_int(st):
        if isinstance(st, ast.Expr) and isinstance(st.value, ast.Yield) and isinstance(st.value.value, ast.Constant) \
                and type(st.value.value.value) is int:
            return st.value.value.value
        raise P.Untranslatable("BooleanSlicer.sliceBody does not yield an int literal: " + ast.unparse(st))
    out.append("Definition bool_true_tok : Z := %d.  (* BooleanSlicer.sliceBody, self.obj true *)" % yielded_int(t[0].body[0]))
    out.append("Definition bool_false_tok : Z := %d." % yielded_int(t[0].orelse[0]))
    bu = body_src(P.find_def(P.load("slicers/bool.py"), "BooleanUnslicer.receiveChild"))
    require(bu, ["assert type(obj) == int", "self.value = bool(obj)"], "BooleanUnslicer.receiveChild")
    require(body_src(P.find_def(P.load("slicers/bool.py"), "BooleanUnslicer.receiveClose")), ["return (self.value, None)"],
            "BooleanUnslicer.receiveClose")
    nb = body_src(P.find_def(P.load("slicers/none.py"), "NoneSlicer.sliceBody"))
    if norm(nb) != norm("return []"):
        raise P.Untranslatable("NoneSlicer.sliceBody changed: " + nb)
    require(body_src(P.find_def(P.load("slicers/none.py"), "NoneUnslicer.receiveClose")), ["return (None, None)"],
            "NoneUnslicer.receiveClose")
    ub = body_src(P.find_def(P.load("slicers/unicode.py"), "UnicodeSlicer.sliceBody"))
    ok_bodies = [norm("yield self.obj.encode('UTF-8')"),
                 norm("try:\n    encoded = self.obj.encode('UTF-8')\nexcept UnicodeEncodeError:\n"
                      "    raise Violation('cannot serialize text which is not valid unicode: %r' % (self.obj,))\nyield encoded")]
    if norm(ub) not in ok_bodies:
        raise P.Untranslatable("UnicodeSlicer.sliceBody changed: " + ub)
    require(body_src(P.find_def(P.load("slicers/unicode.py"), "UnicodeUnslicer.receiveChild")),
            ["self.string = obj.decode('UTF-8')"], "UnicodeUnslicer.receiveChild")
    require(body_src(P.find_def(P.load("slicers/unicode.py"), "UnicodeUnslicer.receiveClose")), ["return (self.string, None)"],
            "UnicodeUnslicer.receiveClose")
    db = body_src(P.find_def(P.load("slicers/decimal_slicer.py"), "DecimalSlicer.sliceBody"))
    if norm(db) != norm("yield six.ensure_binary(str(self.obj))"):
        raise P.Untranslatable("DecimalSlicer.sliceBody changed: " + db)
    require(body_src(P.find_def(P.load("slicers/decimal_slicer.py"), "DecimalUnslicer.receiveChild")),
            ["self.value = decimal.Decimal(six.ensure_str(obj))"], "DecimalUnslicer.receiveChild")
    out.append("Definition leaf_bodies_checked : bool := true.  (* None: no token; unicode: UTF-8 string; decimal: str() string *)")

    # ---------------------------------------------------------------- container bodies
    lb = body_src(P.find_def(P.load("slicers/list.py"), "ListSlicer.sliceBody"))
    sb = body_src(P.find_def(P.load("slicers/set.py"), "SetSlicer.sliceBody"))
    for w, s in (("ListSlicer", lb), ("SetSlicer", sb)):
        if norm(s) != norm("for i in self.obj:\n    yield i"):
            raise P.Untranslatable("%s.sliceBody changed: %s" % (w, s))
    for cls, base in ((s_tuple.TupleSlicer, s_list.ListSlicer), (s_set.FrozenSetSlicer, s_set.SetSlicer)):
        if cls.sliceBody is not base.sliceBody:
            raise P.Untranslatable("%s.sliceBody is no longer %s.sliceBody" % (cls.__name__, base.__name__))
    ob = body_src(P.find_def(P.load("slicers/dict.py"), "OrderedDictSlicer.sliceBody"))
    wants = [norm("keys = list(self.obj.keys())\ntry:\n    keys.sort()\nexcept %s:\n    pass\n"
                  "for key in keys:\n    value = self.obj[key]\n    yield key\n    yield value" % exc)
             for exc in ("TypeError", "(TypeError, ArithmeticError)", "Exception")]
    if norm(ob) not in wants:
        raise P.Untranslatable("OrderedDictSlicer.sliceBody changed:\n" + ob)
    out.append("Inductive dict_order_t := SortedElseInsertion | Insertion | SortedOnly.")
    out.append("Definition dict_order : dict_order_t := SortedElseInsertion.  (* keys.sort() inside try/except TypeError: pass *)")
    # receivers append / add / store in arrival order
    require(body_src(P.find_def(P.load("slicers/list.py"), "ListUnslicer.receiveChild")), ["self.list.append(obj)"], "ListUnslicer.receiveChild")
    require(body_src(P.find_def(P.load("slicers/list.py"), "ListUnslicer.receiveClose")), ["return (self.list, ready_deferred)"], "ListUnslicer.receiveClose")
    require(body_src(P.find_def(P.load("slicers/tuple.py"), "TupleUnslicer.receiveChild")), ["self.list.append(obj)"], "TupleUnslicer.receiveChild")
    require(body_src(P.find_def(P.load("slicers/tuple.py"), "TupleUnslicer.complete")),
            ["t = tuple(self.list)", "self.protocol.setObject(self.count, t)", "self.deferred.callback(t)"], "TupleUnslicer.complete")
    require(body_src(P.find_def(P.load("slicers/set.py"), "SetUnslicer.receiveChild")), ["self.set.add(obj)"], "SetUnslicer.receiveChild")
    require(body_src(P.find_def(P.load("slicers/set.py"), "FrozenSetUnslicer.receiveClose")), ["frozenset("], "FrozenSetUnslicer.receiveClose")
    require(body_src(P.find_def(P.load("slicers/dict.py"), "DictUnslicer.receiveChild")),
            ["self.receiveKey(obj)", "self.receiveValue(obj)", "self.gettingKey = not self.gettingKey"], "DictUnslicer.receiveChild")
    require(body_src(P.find_def(P.load("slicers/dict.py"), "DictUnslicer.receiveValue")), ["self.d[self.key] = value"], "DictUnslicer.receiveValue")
    require(body_src(P.find_def(P.load("copyable.py"), "RemoteCopyUnslicer.receiveChild")),
            ["attrname = six.ensure_str(obj)", "self.setAttribute(self.attrname, obj)", "self.attrname = None"],
            "RemoteCopyUnslicer.receiveChild")

    # ---------------------------------------------------------------- pending completion (Deferred placeholders)
    out.extend(pending_completion_facts())

    # ---------------------------------------------------------------- BaseSlicer.slice / push / pop / counters / scopes
    sm = P.load("slicer.py")
    bs = body_src(P.find_def(sm, "BaseSlicer.slice"))
    want = ("self.streamable = streamable\nassert self.opentype\nfor o in self.opentype:\n    yield six.ensure_binary(o)\n"
            "for t in self.sliceBody(streamable, banana):\n    yield t")
    if norm(bs) != norm(want):
        raise P.Untranslatable("BaseSlicer.slice changed:\n" + bs)
    bm = P.load("banana.py")
    ps = ast.unparse(P.find_def(bm, "Banana.pushSlicer"))
    require(ps, ["openID = None\n", "if slicer.sendOpen:\n", "openID = self.sendOpen()\n",
                 "if slicer.trackReferences:\n", "topSlicer.registerRefID(openID, obj)",
                 "slicertuple = (slicer, slices, openID)", "self.slicerStack.append(slicertuple)"], "Banana.pushSlicer")
    pp = ast.unparse(P.find_def(bm, "Banana.popSlicer"))
    require(pp, ["slicer, slices, openID = self.slicerStack.pop()", "if openID is not None:\n", "self.sendClose(openID)"], "Banana.popSlicer")
    nf = ast.unparse(P.find_def(bm, "Banana.newSlicerFor"))
    require(nf, ["topSlicer = self.slicerStack[-1][0]", "return topSlicer.slicerForObject(obj)"], "Banana.newSlicerFor")
    so = body_src(P.find_def(bm, "Banana.sendOpen"))
    require(so, ["openID = self.openCount", "self.openCount += 1", "return openID"], "Banana.sendOpen")
    hd = ast.unparse(P.find_def(bm, "Banana.handleData"))
    require(hd, ["self.inboundObjectCount = self.objectCounter\n", "self.objectCounter += 1\n",
                 "self.inboundOpenCount = header"], "Banana.handleData")
    # the object number is taken for EVERY inbound OPEN, before the token can be rejected or dropped (discardCount):
    # sender (openCount) and receiver (objectCounter) stay in step across rejected messages
    hdn = P.find_def(bm, "Banana.handleData")
    open_ifs = [x for x in ast.walk(hdn) if isinstance(x, ast.If) and ast.unparse(x.test) == "typebyte == OPEN"]
    incs = [x for x in ast.walk(hdn) if isinstance(x, ast.AugAssign) and ast.unparse(x.target) == "self.objectCounter"]
    if len(open_ifs) != 2 or len(incs) != 1 or ast.unparse(incs[0]) != "self.objectCounter += 1":
        raise P.Untranslatable("handleData: expected two `if typebyte == OPEN` blocks and one `self.objectCounter += 1`")
    first = min(open_ifs, key=lambda x: x.lineno)
    second = max(open_ifs, key=lambda x: x.lineno)
    heads = [ast.unparse(x) for x in first.body[:2]]
    if heads != ["self.inboundObjectCount = self.objectCounter", "self.objectCounter += 1"]:
        raise P.Untranslatable("handleData: the object number is no longer taken at the top of the first `if typebyte == OPEN` block: %r" % heads)
    rej_uses = [x.lineno for x in ast.walk(hdn) if isinstance(x, ast.Name) and x.id == "rejected" and isinstance(x.ctx, ast.Load)]
    if not rej_uses or min(rej_uses) < first.lineno:
        raise P.Untranslatable("handleData: `rejected` is consulted before the object number is taken")
    require(ast.unparse(second), ["if rejected:", "if self.inOpen:\n            self.discardCount += 1", "self.inOpen = False"],
            "Banana.handleData (OPEN while discarding)")
    require(hd, ["elif typebyte == CLOSE:\n", "if self.discardCount:\n", "self.discardCount -= 1\n", "self.handleClose(count)"],
            "Banana.handleData (CLOSE while discarding)")
    require(hd, ["rejected = False\n", "if self.discardCount:\n            rejected = True"], "Banana.handleData (discard test)")
    out.append("Definition open_counts_when_discarded : bool := true.  (* objectCounter += 1 at every OPEN, before rejection / discard *)")
    # keepalive tokens: PING / PONG are clauses of the per-token elif chain that starts at the second `if typebyte == OPEN`,
    # i.e. they are reached only AFTER the unused rest of the 65-byte look-ahead window has been put back into the receive
    # buffer; the PING clause answers and goes on to the next token, the PONG clause just goes on: neither touches the
    # receive stack, inOpen, discardCount or the buffer -- whatever state the receiver is in (Obj.step / ObjDefer.dstep:
    # TPing / TPong leave the state unchanged, in the index phase too)
    loops = [x for x in ast.walk(hdn) if isinstance(x, ast.While) and ast.unparse(x.test) == "len(self.buffer)"]
    if len(loops) != 1:
        raise P.Untranslatable("handleData: expected one `while len(self.buffer)` token loop")
    top = loops[0].body
    putback = [i for i, x in enumerate(top) if norm(ast.unparse(x)) == norm("self.buffer.appendleft(first65[pos + 1:])")]
    chain_at = [i for i, x in enumerate(top) if x is second]
    if len(putback) != 1 or len(chain_at) != 1 or putback[0] > chain_at[0]:
        raise P.Untranslatable("handleData: the rest of the look-ahead window is no longer put back (once, at the top level of the token "
                               "loop) before the per-token clauses")
    ka_tests = [x for x in ast.walk(hdn) if isinstance(x, ast.Compare) and any(isinstance(n_, ast.Name) and n_.id in ("PING", "PONG") for n_ in ast.walk(x))]
    clauses, node = {}, second
    while True:
        clauses[ast.unparse(node.test)] = node
        if len(node.orelse) == 1 and isinstance(node.orelse[0], ast.If):
            node = node.orelse[0]
        else:
            break
    for nm, want in (("PING", ["self.sendPONG(header)", "continue"]), ("PONG", ["continue"])):
        cl = clauses.get("typebyte == %s" % nm)
        if cl is None or [ast.unparse(x) for x in cl.body] != want:
            raise P.Untranslatable("handleData: the %s clause of the per-token chain is no longer exactly %r" % (nm, want))
    allowed = {id(clauses["typebyte == PING"].test), id(clauses["typebyte == PONG"].test)}
    for x in ka_tests:
        if id(x) in allowed:
            continue
        if ast.unparse(x) == "typebyte not in (PING, PONG, ABORT, CLOSE, ERROR)":
            continue                # the always-legal test: only decides whether checkToken is asked
        raise P.Untranslatable("handleData: keepalive tokens are tested for outside their two clauses: " + ast.unparse(x))
    out.append("Definition keepalive_tokens_ignored : bool := true.  (* PING: sendPONG(header); continue.  PONG: continue.  Both after the look-ahead put-back *)")
    ho = ast.unparse(P.find_def(bm, "Banana.handleOpen"))
    require(ho, ["self.opentype.append(indexToken)", "child = top.doOpen(opentype)", "child.openCount = openCount",
                 "self.receiveStack.append(child)", "child.start(objectCount)"], "Banana.handleOpen")
    if ho.index("self.receiveStack.append(child)") > ho.index("child.start(objectCount)"):
        raise P.Untranslatable("handleOpen: start() now runs before the child is pushed")
    hc = ast.unparse(P.find_def(bm, "Banana.handleClose"))
    require(hc, ["if self.receiveStack[-1].openCount != closeCount:", "obj, ready_deferred = child.receiveClose()",
                 "self.receiveStack.pop()", "self.handleToken(obj, ready_deferred)"], "Banana.handleClose")
    sobj = body_src(P.find_def(bm, "Banana.setObject"))
    if norm(sobj) != norm("for i in range(len(self.receiveStack) - 1, -1, -1):\n    self.receiveStack[i].setObject(count, obj)"):
        raise P.Untranslatable("Banana.setObject changed: " + sobj)
    gobj = body_src(P.find_def(bm, "Banana.getObject"))
    want = ("for i in range(len(self.receiveStack) - 1, -1, -1):\n    obj = self.receiveStack[i].getObject(count)\n"
            "    if obj is not None:\n        return obj\nraise ValueError(\"dangling reference '%d'\" % count)")
    if norm(gobj) != norm(want):
        raise P.Untranslatable("Banana.getObject changed: " + gobj)
    ru = body_src(P.find_def(sm, "ReferenceUnslicer.receiveChild"))
    require(ru, ["self.obj = self.protocol.getObject(obj)"], "ReferenceUnslicer.receiveChild")
    require(body_src(P.find_def(sm, "ReferenceUnslicer.receiveClose")), ["return (self.obj, None)"], "ReferenceUnslicer.receiveClose")
    # scopes
    out.extend(translate_scope_table(sm))
    si = body_src(P.find_def(sm, "ScopedSlicer.__init__"))
    require(si, ["self.references = {}"], "ScopedSlicer.__init__")
    require(body_src(P.find_def(sm, "BaseSlicer.registerRefID")), ["return self.parent.registerRefID(refid, obj)"], "BaseSlicer.registerRefID")
    require(body_src(P.find_def(sm, "BaseSlicer.slicerForObject")), ["return self.parent.slicerForObject(obj)"], "BaseSlicer.slicerForObject")
    su = body_src(P.find_def(sm, "ScopedUnslicer.setObject"))
    require(su, ["self.references[counter] = obj"], "ScopedUnslicer.setObject")
    sg = body_src(P.find_def(sm, "ScopedUnslicer.getObject"))
    require(sg, ["obj = self.references.get(counter)", "return obj"], "ScopedUnslicer.getObject")
    require(body_src(P.find_def(sm, "ScopedUnslicer.__init__")), ["self.references = {}"], "ScopedUnslicer.__init__")
    rm = P.load("slicers/root.py")
    if norm(body_src(P.find_def(rm, "RootSlicer.registerRefID"))) != norm("pass"):
        raise P.Untranslatable("RootSlicer.registerRefID is no longer a no-op")
    if norm(body_src(P.find_def(rm, "RootUnslicer.setObject"))) != norm("pass") or \
            norm(body_src(P.find_def(rm, "RootUnslicer.getObject"))) != norm("return None"):
        raise P.Untranslatable("RootUnslicer.setObject/getObject changed")
    require(body_src(P.find_def(rm, "ScopedRootSlicer.registerRefID")), ["self.references[id(obj)] = (obj, refid)"], "ScopedRootSlicer.registerRefID")
    require(body_src(P.find_def(rm, "ScopedRootSlicer.slicerForObject")),
            ["obj_refid = self.references.get(id(obj), None)", "return ReferenceSlicer(obj_refid[1])"], "ScopedRootSlicer.slicerForObject")
    require(body_src(P.find_def(rm, "ScopedRootUnslicer.setObject")), ["self.references[counter] = obj"], "ScopedRootUnslicer.setObject")
    out.append("Definition scope_shape_checked : bool := true.  (* ScopedSlicer/ScopedUnslicer tables, Banana.setObject/getObject, counters *)")

    # ---------------------------------------------------------------- vocab switch
    vm = P.load("slicers/vocab.py")
    rv = s_vocab.ReplaceVocabSlicer
    if rv.trackReferences is not False or len(rv.opentype) != 1:
        raise P.Untranslatable("ReplaceVocabSlicer opentype/trackReferences")
    out.append("Definition ot_set_vocab : list (list Z) := %s.  (* ReplaceVocabSlicer.opentype *)" % bll(rv.opentype))
    if slicer.BananaUnslicerRegistry.get(tuple(rv.opentype)) is not s_vocab.ReplaceVocabUnslicer:
        raise P.Untranslatable("BananaUnslicerRegistry[set-vocab] is not ReplaceVocabUnslicer")
    vs = body_src(P.find_def(vm, "ReplaceVocabSlicer.slice"))
    require(vs, ["self.start(banana)\nfor o in self.opentype:\n    yield six.ensure_binary(o)", "indices.sort()",
                 "for index in indices:\n    string = indexToString[index]\n    yield index\n    yield six.ensure_binary(string)\nself.finish(banana)"],
            "ReplaceVocabSlicer.slice")
    if norm(body_src(P.find_def(vm, "ReplaceVocabSlicer.start"))) != norm("banana.outgoingVocabTableWasReplaced({})"):
        raise P.Untranslatable("ReplaceVocabSlicer.start changed")
    if norm(body_src(P.find_def(vm, "ReplaceVocabSlicer.finish"))) != norm("banana.outgoingVocabTableWasReplaced(self.obj)"):
        raise P.Untranslatable("ReplaceVocabSlicer.finish changed")
    require(body_src(P.find_def(vm, "ReplaceVocabUnslicer.receiveClose")),
            ["self.protocol.replaceIncomingVocabulary(self.d)"], "ReplaceVocabUnslicer.receiveClose")
    require(body_src(P.find_def(vm, "ReplaceVocabUnslicer.receiveChild")),
            ["self.key = token", "self.d[self.key] = token"], "ReplaceVocabUnslicer.receiveChild")
    st = ast.unparse(P.find_def(bm, "Banana.sendToken"))
    require(st, ["if obj in self.outgoingVocabulary:\n", "symbolID = self.outgoingVocabulary[obj]\n",
                 "int2b128(symbolID, write)\n", "write(VOCAB)"], "Banana.sendToken")
    require(hd, ["elif typebyte == VOCAB:", "obj = self.incomingVocabulary[header]"], "Banana.handleData (VOCAB)")
    sv = ast.unparse(P.find_def(bm, "Banana.setOutgoingVocabulary"))
    require(sv, ["vocabDict = dict(list(zip(vocabStrings, list(range(len(vocabStrings))))))", "s = ReplaceVocabSlicer(vocabDict)",
                 "self.send(s)"], "Banana.setOutgoingVocabulary")
    # the receiver's limit on a table word: ReplaceVocabUnslicer.valueConstraint = ByteStringConstraint(N), applied by checkToken to
    # the STRING header of every value (a longer word is a Violation: the rest of the set-vocab sequence is discarded, the OLD table stays)
    from foolscap import constraint as c_mod
    vc = s_vocab.ReplaceVocabUnslicer.valueConstraint
    if vc is None:
        lim = None
    elif type(vc) is c_mod.ByteStringConstraint and (vc.maxLength is None or type(vc.maxLength) is int) and vc.minLength == 0:
        lim = vc.maxLength
    else:
        raise P.Untranslatable("ReplaceVocabUnslicer.valueConstraint is not ByteStringConstraint(maxLength)")
    require(body_src(P.find_def(vm, "ReplaceVocabUnslicer.checkToken")),
            ["if typebyte != STRING:", "if self.valueConstraint:\n", "self.valueConstraint.checkToken(typebyte, size)"],
            "ReplaceVocabUnslicer.checkToken")
    if s_vocab.ReplaceVocabUnslicer.maxKeys is not None:
        raise P.Untranslatable("ReplaceVocabUnslicer.maxKeys is set")
    cm = P.load("constraint.py")
    require(body_src(P.find_def(cm, "ByteStringConstraint.__init__")), ["self.taster = {STRING: self.maxLength, VOCAB: None}"],
            "ByteStringConstraint.__init__")
    require(body_src(P.find_def(cm, "Constraint.checkToken")), ["limit = self.taster.get(typebyte, 'not in list')", "if limit is not None and size > limit:"],
            "Constraint.checkToken")
    out.append("Definition vocab_word_limit : option Z := %s.  (* ReplaceVocabUnslicer.valueConstraint = ByteStringConstraint(maxLength) *)"
               % ("None" if lim is None else "Some %d" % lim))
    out.append("Definition vocab_shape_checked : bool := true.  (* set-vocab: table {} while the sequence is sent, new table after it *)")
    return {"SlicersGen.v": "\n\n".join(out) + "\n"}
