"""C04: queue disciplines read from the source as *shape facts* (fail closed).

  slicers/root.py  RootSlicer.__next__ / send      -> sendq_pop, sendq_push, send_idle_before_append, send_wakes
  banana.py        Banana.produce/pushSlicer/popSlicer/send  -> one serialization stack, top = last (checked; no value)
  broker.py        Broker.scheduleCall / doNextCall -> inq_push, inq_pop, head_of_line, ready_rearms, call_after_ready
  broker.py        Broker._doCall                   -> schema check first; then the target -- a remotely callable object OR a bare
                                                       callable (bound method / function) -- is invoked directly (checked)
  eventual.py      _SimpleCallQueue.append / _turn  -> evq_push, evq_iter, evq_snapshot
  referenceable.py LocalReferenceable.callRemote    -> local call goes through fireEventually (checked)

Every queue attribute may only be touched where the model says it is (a frame check over all non-test modules).

Forms accepted in Broker.doNextCall besides the reference text, each equivalent to it for all values:

 1. `if A or B or C: return`  for  `if A: return` `if B: return` `if C: return`.
    `or` evaluates its operands left to right, takes the truth value of each at most once and stops at the first
    true one; the `if` then returns.  The chain of ifs does exactly the same evaluations in the same order and returns
    in exactly the same cases; nothing else happens in either form.  (The tests themselves must still be among
    self.disconnected / self._waiting_for_call_to_be_ready / not self.inboundDeliveryQueue.)
 2. `d = ready_deferred or defer.succeed(None)`  for  `if not ready_deferred: ready_deferred = defer.succeed(None)`
    `d = ready_deferred`.  Both take the truth value of ready_deferred once, evaluate defer.succeed(None) only when it
    is false, and bind d to ready_deferred itself otherwise.  The only difference is that the old form also rebinds
    the local ready_deferred; the translator checks that this local is not read again afterwards (in either form).
 3. the first link of the callback chain, `d.addBoth(X)`, may be a one-argument closure defined in doNextCall just
    before (any name; a local referenced once) or `self.M` where M is a (self, result) method of Broker.  The body
    required is the same (clear the flag, eventually(self.doNextCall), return the argument); the closure uses nothing
    of its environment but self, and a bound method called with one argument runs the same body with the same self.
    So that the attribute lookup self.M at addBoth time yields that function, M must be defined once, not decorated,
    and mentioned nowhere else in the package (frame check: no other caller, no instance attribute of that name).

One further place may touch the inbound queue, Broker.finish (connection teardown), under these conditions:
 4. after `self.disconnected = True` (never stored again in finish) it may iterate over the queue (loop body not touching
    the queue, the flag, doNextCall/scheduleCall/_doCall) and assign `self.inboundDeliveryQueue = []`; doNextCall must
    test self.disconnected among its return guards.  From that assignment on doNextCall returns before looking at the
    queue, so no delivery is dequeued or entered any more whether the list is emptied or not: the set and order of
    calls entered is the same for all inputs.  (Connection loss itself stays outside the model.)
"""
import ast, os
from translate import pylite as P

PROPERTIES = ["C04"]
OUTPUTS = ["OrderGen.v"]


def U(n):
    return ast.unparse(n)


def attr_calls(fn, recv, names=None):
    """calls  <recv>.<method>(...)  inside fn, e.g. recv='self.sendQueue'"""
    out = []
    for n in ast.walk(fn):
        if isinstance(n, ast.Call) and isinstance(n.func, ast.Attribute) and U(n.func.value) == recv:
            if names is None or n.func.attr in names:
                out.append(n)
    return out


def pop_end(fn, recv, where):
    """the single dequeue of `recv` in fn: pop(0) -> PopFront, pop()/pop(-1) -> PopBack"""
    cs = attr_calls(fn, recv)
    muts = [c for c in cs if c.func.attr not in ("__len__",)]
    if len(muts) != 1 or muts[0].func.attr not in ("pop", "popleft"):
        raise P.Untranslatable("%s: expected exactly one dequeue of %s, found %s" % (where, recv, [U(c) for c in muts]))
    c = muts[0]
    if c.keywords:
        raise P.Untranslatable("%s: %s" % (where, U(c)))
    if c.func.attr == "popleft" and not c.args:
        return "PopFront"
    if c.func.attr == "pop":
        if not c.args:
            return "PopBack"
        if len(c.args) == 1:
            a = c.args[0]
            try:
                v = P.const_expr(a)
            except P.Untranslatable:
                v = None
            if v == 0 and not isinstance(v, bool):
                return "PopFront"
            if v == -1:
                return "PopBack"
    raise P.Untranslatable("%s: dequeue of %s at an unrecognised position: %s" % (where, recv, U(c)))


def push_end(fn, recv, where):
    cs = attr_calls(fn, recv)
    if len(cs) != 1:
        raise P.Untranslatable("%s: expected exactly one enqueue on %s, found %s" % (where, recv, [U(c) for c in cs]))
    c = cs[0]
    if c.func.attr == "append" and len(c.args) == 1 and not c.keywords:
        return "PushBack", c
    if c.func.attr == "insert" and len(c.args) == 2 and not c.keywords:
        try:
            v = P.const_expr(c.args[0])
        except P.Untranslatable:
            v = None
        if v == 0 and not isinstance(v, bool):
            return "PushFront", c
    if c.func.attr == "appendleft" and len(c.args) == 1:
        return "PushFront", c
    raise P.Untranslatable("%s: enqueue on %s not recognised: %s" % (where, recv, U(c)))


def index_of(stmts, pred, what):
    hits = [i for i, s in enumerate(stmts) if pred(s)]
    if len(hits) != 1:
        raise P.Untranslatable("expected exactly one statement `%s`, found %d" % (what, len(hits)))
    return hits[0]


def strip_doc(body):
    if body and isinstance(body[0], ast.Expr) and isinstance(body[0].value, ast.Constant) and isinstance(body[0].value.value, str):
        return body[1:]
    return body


def frame(attr, allowed, files=None):
    """every mention of `.attr` in foolscap's non-test modules must be inside one of the allowed (file, function) places"""
    root = P.SRC
    for dp, dn, fns in os.walk(root):
        if os.path.basename(dp) == "test" or "/test/" in dp + "/":
            continue
        for fn in fns:
            if not fn.endswith(".py"):
                continue
            rel = os.path.relpath(os.path.join(dp, fn), root)
            if files is not None and rel not in files:
                continue
            try:
                mod = P.load(rel)
            except SyntaxError as e:
                raise P.Untranslatable("cannot parse %s: %s" % (rel, e))
            # map each node to its enclosing function chain
            def visit(node, chain):
                for ch in ast.iter_child_nodes(node):
                    c2 = chain
                    if isinstance(ch, (ast.FunctionDef, ast.ClassDef, ast.AsyncFunctionDef)):
                        c2 = chain + [ch.name]
                    if isinstance(ch, ast.Attribute) and ch.attr == attr:
                        place = (rel, ".".join(c2))
                        if place not in allowed:
                            # reading a copy for debugging output is harmless: `x.attr[:]`
                            raise P.Untranslatable("%s is used outside the modelled places: %s in %s" % (attr, rel, ".".join(c2)))
                    visit(ch, c2)
            visit(mod, [])


# ---------------------------------------------------------------------------------------------------------------
# statement-by-statement translation of small state-machine methods (AsyncAND._cbDeferred / __init__,
# ArgumentUnslicer.updateChild): the attributes of `self` that matter become Coq variables, every path through the body
# becomes one branch of a nested `if`, a call listed in `fires` sets the output `fire`, `return` ends the path.
# Anything else raises Untranslatable.

class SM:
    def __init__(self, where, attrs, params, fires, skip=(), lens=None):
        self.where = where
        self.attrs = attrs          # python attribute of self -> (coq variable, "Z" | "bool")
        self.params = params        # python parameter -> (coq variable, "bool")
        self.fires = fires          # unparsed callee -> "true" (callback) | "false" (errback)
        self.skip = skip            # unparsed statements that do not touch the state (checked verbatim)
        self.lens = lens or {}      # python list parameter -> coq variable holding its length

    def bad(self, node, why):
        raise P.Untranslatable("%s: %s: %s" % (self.where, why, U(node)[:160]))

    def attr_of(self, e):
        if isinstance(e, ast.Attribute) and isinstance(e.value, ast.Name) and e.value.id == "self" and e.attr in self.attrs:
            return self.attrs[e.attr]
        return None

    def zexpr(self, e):
        a = self.attr_of(e)
        if a and a[1] == "Z":
            return a[0]
        if isinstance(e, ast.Constant) and isinstance(e.value, int) and not isinstance(e.value, bool):
            return "(%d)%%Z" % e.value
        if isinstance(e, ast.Call) and isinstance(e.func, ast.Name) and e.func.id == "len" and len(e.args) == 1 \
                and isinstance(e.args[0], ast.Name) and e.args[0].id in self.lens and not e.keywords:
            return self.lens[e.args[0].id]
        if isinstance(e, ast.BinOp) and isinstance(e.op, (ast.Add, ast.Sub)):
            return "(%s %s %s)%%Z" % (self.zexpr(e.left), "+" if isinstance(e.op, ast.Add) else "-", self.zexpr(e.right))
        self.bad(e, "integer expression not understood")

    def cond(self, e):
        a = self.attr_of(e)
        if a:
            return a[0] if a[1] == "bool" else "(negb (Z.eqb %s 0))" % a[0]
        if isinstance(e, ast.Name) and e.id in self.params:
            return self.params[e.id][0]
        if isinstance(e, ast.Name) and e.id in self.lens:
            return "(negb (Z.eqb %s 0))" % self.lens[e.id]
        if isinstance(e, ast.Constant) and isinstance(e.value, bool):
            return "true" if e.value else "false"
        if isinstance(e, ast.UnaryOp) and isinstance(e.op, ast.Not):
            return "(negb %s)" % self.cond(e.operand)
        if isinstance(e, ast.BoolOp):
            f = "andb" if isinstance(e.op, ast.And) else "orb"
            out = self.cond(e.values[0])
            for v in e.values[1:]:
                out = "(%s %s %s)" % (f, out, self.cond(v))
            return out
        if isinstance(e, ast.Compare) and len(e.ops) == 1:
            ops = {ast.Eq: "Z.eqb %s %s", ast.NotEq: "negb (Z.eqb %s %s)", ast.Lt: "Z.ltb %s %s", ast.LtE: "Z.leb %s %s",
                   ast.Gt: "Z.ltb %(b)s %(a)s", ast.GtE: "Z.leb %(b)s %(a)s"}
            for k, fmt in ops.items():
                if isinstance(e.ops[0], k):
                    a_, b_ = self.zexpr(e.left), self.zexpr(e.comparators[0])
                    return "(" + (fmt % dict(a=a_, b=b_) if "%(" in fmt else fmt % (a_, b_)) + ")"
        self.bad(e, "condition not understood")

    def final(self):
        return "(" + ", ".join([v for v, _ in self.attrs.values()] + ["fire"]) + ")"

    def run(self, stmts, fired=False):
        if not stmts:
            return self.final()
        st, rest = stmts[0], list(stmts[1:])
        src = U(st)
        if src in self.skip or (isinstance(st, ast.Expr) and isinstance(st.value, ast.Constant)) or isinstance(st, ast.Pass) \
                or (isinstance(st, ast.If) and U(st.test) in ("self.debug", "self.debugSend")):
            return self.run(rest, fired)
        if isinstance(st, ast.Return):
            return self.final()
        if isinstance(st, ast.If):
            c = self.cond(st.test)
            return "(if %s\n then %s\n else %s)" % (c, self.run(list(st.body) + rest, fired), self.run(list(st.orelse) + rest, fired))
        if isinstance(st, ast.AugAssign) and isinstance(st.op, (ast.Add, ast.Sub)):
            a = self.attr_of(st.target)
            if a and a[1] == "Z":
                return "(let %s := (%s %s %s)%%Z in\n %s)" % (a[0], a[0], "+" if isinstance(st.op, ast.Add) else "-",
                                                              self.zexpr(st.value), self.run(rest, fired))
        if isinstance(st, ast.Assign) and len(st.targets) == 1:
            a = self.attr_of(st.targets[0])
            if a:
                v = self.zexpr(st.value) if a[1] == "Z" else self.cond(st.value)
                return "(let %s := %s in\n %s)" % (a[0], v, self.run(rest, fired))
        if isinstance(st, ast.Expr) and isinstance(st.value, ast.Call) and U(st.value.func) in self.fires:
            if fired:
                self.bad(st, "a second fire on one path")
            return "(let fire := Some %s in\n %s)" % (self.fires[U(st.value.func)], self.run(rest, True))
        self.bad(st, "statement not understood")


def sm_define(name, binders, rty, body):
    return "Definition %s %s : %s :=\n let fire := @None bool in\n %s." % (name, binders, rty, body)


def gen_gift_network(out, bro, ref):
    """AsyncAND, ArgumentUnslicer.updateChild / receiveClose, CallUnslicer.receiveClose, TheirReferenceUnslicer"""
    util = P.load("util.py")
    callm = P.load("call.py")
    # ---- AsyncAND._cbDeferred / __init__
    cb = P.find_def(util, "AsyncAND._cbDeferred")
    if [a.arg for a in cb.args.args] != ["self", "result", "succeeded"]:
        raise P.Untranslatable("AsyncAND._cbDeferred: parameters changed")
    sm = SM("AsyncAND._cbDeferred", {"remaining": ("remaining", "Z"), "_fired": ("fired", "bool")}, {"succeeded": ("succeeded", "bool")},
            {"self.callback": "true", "self.errback": "false"})
    out.append(sm_define("and_cb", "(remaining : Z) (fired : bool) (succeeded : bool)", "Z * bool * option bool", sm.run(strip_doc(cb.body)))
               + "   (* util.py AsyncAND._cbDeferred, statement by statement *)")
    ini = P.find_def(util, "AsyncAND.__init__")
    if [a.arg for a in ini.args.args] != ["self", "deferredList"]:
        raise P.Untranslatable("AsyncAND.__init__: parameters changed")
    loop = "for d in deferredList:\n    d.addCallbacks(self._cbDeferred, self._cbDeferred, callbackArgs=(True,), errbackArgs=(False,))"
    ibody = strip_doc(ini.body)
    if U(ibody[-1]) != loop:
        raise P.Untranslatable("AsyncAND.__init__: every component must get _cbDeferred(True)/(False) as its last statement: %s" % U(ibody[-1]))
    sm = SM("AsyncAND.__init__", {"remaining": ("remaining", "Z"), "_fired": ("fired", "bool")}, {}, {"self.callback": "true"},
            skip=("defer.Deferred.__init__(self)", loop), lens={"deferredList": "n"})
    out.append("Definition and_init_full (n : Z) : Z * bool * option bool :=\n let remaining := 0%Z in let fired := false in let fire := @None bool in\n "
               + sm.run(ibody) + ".   (* util.py AsyncAND.__init__ for a list of n Deferreds *)")
    out.append("Definition and_init (n : Z) : Z * bool := fst (and_init_full n).")
    acls = P.find_class(util, "AsyncAND")
    if [U(b) for b in acls.bases] != ["defer.Deferred"] or \
            sorted(n.name for n in acls.body if isinstance(n, ast.FunctionDef)) != ["__init__", "_cbDeferred"]:
        raise P.Untranslatable("AsyncAND: base class or method set changed")
    frame("remaining", {("util.py", "AsyncAND.__init__"), ("util.py", "AsyncAND._cbDeferred")}, files=["util.py", "call.py", "broker.py"])
    # ---- ArgumentUnslicer.updateChild
    uc = P.find_def(callm, "ArgumentUnslicer.updateChild")
    if [a.arg for a in uc.args.args] != ["self", "obj", "which"]:
        raise P.Untranslatable("ArgumentUnslicer.updateChild: parameters changed")
    store = "if isinstance(which, int):\n    self.args[which] = obj\nelse:\n    self.kwargs[which] = obj"
    ub = strip_doc(uc.body)
    if store not in [U(x) for x in ub]:
        raise P.Untranslatable("ArgumentUnslicer.updateChild no longer stores the resolved object in args[which] / kwargs[which]")
    sm = SM("ArgumentUnslicer.updateChild", {"num_unreferenceable_children": ("nunref", "Z"), "_all_children_are_referenceable_d": ("has_all", "bool")},
            {}, {"self._all_children_are_referenceable_d.callback": "true"}, skip=(store,))
    body = sm.run(ub)
    out.append("Definition update_child_full (nunref : Z) (has_all : bool) : Z * bool * option bool :=\n let fire := @None bool in\n " + body
               + ".   (* call.py ArgumentUnslicer.updateChild, statement by statement *)")
    out.append("Definition update_child (nunref : Z) (has_all : bool) : Z * bool :=\n"
               " match update_child_full nunref has_all with (n, _, f) => (n, match f with Some _ => true | None => false end) end.")
    # ---- ArgumentUnslicer.receiveChild: every Deferred argument is counted and watched, every ready_deferred is kept
    acl = P.find_class(callm, "ArgumentUnslicer")
    counted = [n for n in ast.walk(acl) if isinstance(n, ast.If) and U(n.test) == "isinstance(argvalue, defer.Deferred)"
               and any(U(x) == "self.num_unreferenceable_children += 1" for x in n.body)
               and any(U(x).startswith("argvalue.addCallback(self.updateChild, ") for x in n.body)]
    kept = [n for n in ast.walk(acl) if isinstance(n, ast.If) and U(n.test) == "ready_deferred"
            and any(U(x) == "self._ready_deferreds.append(ready_deferred)" for x in n.body)]
    if len(counted) < 1 or len(kept) < 1 or len(counted) != len(kept):
        raise P.Untranslatable("ArgumentUnslicer.receiveChild: bookkeeping of unready arguments changed (%d counted, %d kept)" % (len(counted), len(kept)))
    # ---- ArgumentUnslicer.receiveClose: dl = [all-children-referenceable if nunref] + ready_deferreds; AsyncAND(dl) if dl
    rc = P.find_def(callm, "ArgumentUnslicer.receiveClose")
    rsrc = [U(x) for x in strip_doc(rc.body)]
    guard = [x for x in strip_doc(rc.body) if isinstance(x, ast.If) and U(x.test) == "self.num_unreferenceable_children"]
    if len(guard) != 1 or [U(x) for x in guard[0].body] != ["d = self._all_children_are_referenceable_d = defer.Deferred()", "dl.append(d)"] \
            or guard[0].orelse:
        raise P.Untranslatable("ArgumentUnslicer.receiveClose: the all-children-referenceable Deferred is no longer created under `if self.num_unreferenceable_children:`")
    try:
        i_new, i_g, i_ext = rsrc.index("dl = []"), rsrc.index(U(guard[0])), rsrc.index("dl.extend(self._ready_deferreds)")
    except ValueError:
        raise P.Untranslatable("ArgumentUnslicer.receiveClose: construction of dl changed: %s" % rsrc)
    # `X = None; if L: X = AsyncAND(L)` may live in a one-parameter module-level helper `if not p: return None; return AsyncAND(p)`:
    # both yield None for an empty list and AsyncAND of that very list otherwise
    helpers = [n.name for n in callm.body if isinstance(n, ast.FunctionDef) and len(n.args.args) == 1 and not n.decorator_list
               and [U(x) for x in strip_doc(n.body)] == ["if not %s:\n    return None" % n.args.args[0].arg, "return AsyncAND(%s)" % n.args.args[0].arg]]
    tail = rsrc[i_ext + 1:]
    tail_ok = tail == ["ready_deferred = None", "if dl:\n    ready_deferred = AsyncAND(dl)", "return (self, ready_deferred)"] \
        or tail in [["return (self, %s(dl))" % h] for h in helpers]
    if not (i_new < i_g < i_ext) or not tail_ok:
        raise P.Untranslatable("ArgumentUnslicer.receiveClose: construction of dl changed: %s" % rsrc)
    out.append("Definition args_close_has_all (nunref : Z) : bool := negb (Z.eqb nunref 0).   (* receiveClose: `if self.num_unreferenceable_children:` creates it *)")
    out.append("Definition args_close_dl_len (nunref nready : Z) : Z := ((if negb (Z.eqb nunref 0) then 1 else 0) + nready)%Z."
               "   (* dl = [d]? ++ self._ready_deferreds *)")
    frame("num_unreferenceable_children", {("call.py", "ArgumentUnslicer.start"), ("call.py", "ArgumentUnslicer.receiveChild"),
                                           ("call.py", "ArgumentUnslicer.updateChild"), ("call.py", "ArgumentUnslicer.receiveClose"),
                                           ("call.py", "ArgumentUnslicer.describe")}, files=["call.py", "broker.py", "referenceable.py"])
    # ---- CallUnslicer: the arguments' ready_deferred is kept and wrapped in one more AsyncAND
    ccl = P.find_class(callm, "CallUnslicer")
    ckept = [n for n in ast.walk(ccl) if isinstance(n, ast.If) and U(n.test) == "ready_deferred"
             and any(U(x) == "self._ready_deferreds.append(ready_deferred)" for x in n.body)]
    crc = U(P.find_def(callm, "CallUnslicer.receiveClose"))
    comb = ["AsyncAND(self._ready_deferreds)"] + ["%s(self._ready_deferreds)" % h for h in helpers]
    hit = [c for c in comb if c in crc]
    if len(ckept) != 1 or len(hit) != 1 or (hit[0].startswith("AsyncAND") and "self._ready_deferreds" not in crc.split(hit[0])[0]):
        raise P.Untranslatable("CallUnslicer: the ready_deferred of the arguments is no longer combined by AsyncAND when present")
    # ---- TheirReferenceUnslicer.receiveClose: object first, then readiness; a failed gift gives a placeholder and an errback
    tr = P.find_def(ref, "TheirReferenceUnslicer.receiveClose")
    inner = {n.name: [U(x) for x in strip_doc(n.body) if not U(x).startswith("log.")] for n in tr.body if isinstance(n, ast.FunctionDef)}
    if inner.get("_ready") != ["obj_deferred.callback(rref)", "ready_deferred.callback(rref)"]:
        raise P.Untranslatable("TheirReferenceUnslicer._ready changed: %s" % inner.get("_ready"))
    fl = inner.get("_failed") or []
    if len(fl) != 2 or not fl[0].startswith("obj_deferred.callback(") or fl[1] != "ready_deferred.errback(f)":
        raise P.Untranslatable("TheirReferenceUnslicer._failed changed: %s" % fl)
    tsrc = U(tr)
    for frag in ("d = self.broker.tub.getReference(self.url)", "d.addBoth(self.ackGift)", "d.addCallbacks(_ready, _failed)",
                 "return (obj_deferred, ready_deferred)"):
        if frag not in tsrc:
            raise P.Untranslatable("TheirReferenceUnslicer.receiveClose no longer contains `%s`" % frag)
    if not tsrc.index("d.addBoth(self.ackGift)") < tsrc.index("d.addCallbacks(_ready, _failed)"):
        raise P.Untranslatable("TheirReferenceUnslicer.receiveClose: ackGift no longer precedes _ready/_failed")
    # the acknowledgement goes through broker.remote_broker, which Broker.finish sets to None
    ack = [U(x) for x in strip_doc(P.find_def(ref, "TheirReferenceUnslicer.ackGift").body)]
    fin = [U(x) for x in strip_doc(P.find_def(bro, "Broker.finish").body)]
    ack_fails = (len(ack) == 2 and ack[0].startswith("if self.giftID != 0:\n    rb = self.broker.remote_broker\n    rb.callRemoteOnly(")
                 and ack[1] == "return rref" and "self.remote_broker = None" in fin)
    out.append("Definition ack_after_loss_fails : bool := %s.   (* ackGift uses broker.remote_broker unguarded; Broker.finish sets it to None *)"
               % ("true" if ack_fails else "false"))
    if not ack_fails and ack != ["return rref"] and not any("remote_broker" in a for a in ack):
        raise P.Untranslatable("TheirReferenceUnslicer.ackGift changed: %s" % ack)


def generate():
    out = [P.PRELUDE % dict(src="slicers/root.py, banana.py, broker.py, eventual.py, referenceable.py, call.py, util.py")]
    out.append("Inductive pop_end := PopFront | PopBack.\nInductive push_end := PushBack | PushFront.\n"
               "Inductive iter_dir := IterForward | IterReverse.\nInductive hol := HolBlocking | HolNone.")

    # ---------------------------------------------------------------- RootSlicer
    root = P.load("slicers/root.py")
    nxt = P.find_def(root, "RootSlicer.__next__")
    body = strip_doc(nxt.body)
    # shape: [if objectSentDeferred: fire], if self.sendQueue: (obj, self.objectSentDeferred) = self.sendQueue.pop(K); ...; return obj
    guards = [s for s in body if isinstance(s, ast.If) and U(s.test) == "self.sendQueue"]
    if len(guards) != 1:
        raise P.Untranslatable("RootSlicer.__next__: expected one `if self.sendQueue:` block")
    g = guards[0]
    sendq_pop = pop_end(nxt, "self.sendQueue", "RootSlicer.__next__")
    first = g.body[0]
    if not (isinstance(first, ast.Assign) and isinstance(first.value, ast.Call)
            and U(first.value.func) in ("self.sendQueue.pop", "self.sendQueue.popleft")):
        raise P.Untranslatable("RootSlicer.__next__: the guarded block no longer starts with the dequeue: " + U(first))
    if not (isinstance(g.body[-1], ast.Return) and U(g.body[-1].value) == "obj"):
        raise P.Untranslatable("RootSlicer.__next__: the dequeued object is no longer returned")
    if g.orelse:
        raise P.Untranslatable("RootSlicer.__next__: unexpected else branch")
    # when the queue is empty: a fresh producingDeferred is returned (the sender goes idle)
    tail = body[body.index(g) + 1:]
    tail_src = [U(s) for s in tail if not (isinstance(s, ast.If) and "debugSend" in U(s.test))]
    if tail_src != ["self.producingDeferred = Deferred()", "self.streamable = True", "return self.producingDeferred"]:
        raise P.Untranslatable("RootSlicer.__next__: idle tail changed: %s" % tail_src)
    out.append("Definition sendq_pop : pop_end := %s.   (* RootSlicer.__next__: %s *)" % (sendq_pop, U(first)))

    snd = P.find_def(root, "RootSlicer.send")
    sbody = strip_doc(snd.body)
    sendq_push, pushcall = push_end(snd, "self.sendQueue", "RootSlicer.send")
    if U(pushcall.args[-1]) != "(obj, objectSentDeferred)":
        raise P.Untranslatable("RootSlicer.send enqueues %s" % U(pushcall.args[-1]))
    i_idle = index_of(sbody, lambda s: isinstance(s, ast.Assign) and U(s.targets[0]) == "idle", "idle = ...")
    idle_src = U(sbody[i_idle].value)
    if idle_src != "len(self.protocol.slicerStack) == 1 and (not self.sendQueue)":
        raise P.Untranslatable("RootSlicer.send: idle test changed: " + idle_src)
    i_push = index_of(sbody, lambda s: isinstance(s, ast.Expr) and s.value is pushcall, "self.sendQueue.<enqueue>(...)")
    i_wake = index_of(sbody, lambda s: isinstance(s, ast.If) and U(s.test) == "idle", "if idle:")
    wake_src = U(sbody[i_wake])
    need = ["if self.producingDeferred:", "d = self.producingDeferred", "self.producingDeferred = None", "d.callback(None)"]
    pos = -1
    for frag in need:
        p2 = wake_src.find(frag, pos + 1)
        if p2 < 0:
            raise P.Untranslatable("RootSlicer.send: wake-up block changed (missing `%s` in order)" % frag)
        pos = p2
    if not (i_push < i_wake):
        raise P.Untranslatable("RootSlicer.send: wake-up happens before the enqueue")
    out.append("Definition sendq_push : push_end := %s.   (* RootSlicer.send: %s *)" % (sendq_push, U(pushcall)))
    out.append("Definition send_idle_before_enqueue : bool := %s.   (* `idle = ...` is computed %s the enqueue *)"
               % ("true" if i_idle < i_push else "false", "before" if i_idle < i_push else "AFTER"))
    frame("sendQueue", {("slicers/root.py", "RootSlicer.__init__"), ("slicers/root.py", "RootSlicer.__next__"),
                        ("slicers/root.py", "RootSlicer.send"), ("slicers/root.py", "RootSlicer.connectionLost")})

    # ---------------------------------------------------------------- Banana: one stack, one top-level object at a time
    ban = P.load("banana.py")
    prod = P.find_def(ban, "Banana.produce")
    psrc = U(prod)
    for frag in ("while self.slicerStack and (not self.paused):", "slicer, slices, openID = self.slicerStack[-1]",
                 "obj = next(slices)", "obj.addCallback(self.produce)", "self.popSlicer()"):
        if frag not in psrc:
            raise P.Untranslatable("Banana.produce no longer contains `%s`" % frag)
    if len(attr_calls(prod, "self.slicerStack")) != 0:
        raise P.Untranslatable("Banana.produce mutates slicerStack directly")
    push = P.find_def(ban, "Banana.pushSlicer")
    pe, _ = push_end(push, "self.slicerStack", "Banana.pushSlicer")
    pop = P.find_def(ban, "Banana.popSlicer")
    po = pop_end(pop, "self.slicerStack", "Banana.popSlicer")
    if (pe, po) != ("PushBack", "PopBack"):
        raise P.Untranslatable("Banana slicer stack is not a stack: %s/%s" % (pe, po))
    bsend = P.find_def(ban, "Banana.send")
    if [U(s) for s in strip_doc(bsend.body) if not (isinstance(s, ast.If) and "debugSend" in U(s.test))] != ["return self.rootSlicer.send(obj)"]:
        raise P.Untranslatable("Banana.send changed")
    bro = P.load("broker.py")
    bcls = P.find_class(bro, "Broker")
    if any(isinstance(n, ast.FunctionDef) and n.name in ("send", "produce", "pushSlicer", "popSlicer") for n in bcls.body):
        raise P.Untranslatable("Broker overrides a Banana send-side method")
    out.append("Definition slicer_stack_is_lifo : bool := true.   (* produce reads slicerStack[-1]; pushSlicer appends; popSlicer pops the end *)")

    # the caller hands the CallSlicer to broker.send synchronously inside _callRemote
    ref = P.load("referenceable.py")
    cr = P.find_def(ref, "RemoteReference._callRemote")
    if "d = broker.send(slicer)" not in U(cr) or "slicer = call.CallSlicer(reqID, clid, methodName, args, kwargs)" not in U(cr):
        raise P.Untranslatable("RemoteReference._callRemote no longer sends a CallSlicer synchronously")
    for nm in ("callRemote", "callRemoteOnly"):
        f = P.find_def(ref, "RemoteReference." + nm)
        if "defer.maybeDeferred(self._callRemote, _name" not in U(f):
            raise P.Untranslatable("RemoteReference.%s no longer calls _callRemote synchronously" % nm)

    # ---------------------------------------------------------------- Broker inbound queue
    sch = P.find_def(bro, "Broker.scheduleCall")
    inq_push, pc = push_end(sch, "self.inboundDeliveryQueue", "Broker.scheduleCall")
    if U(pc.args[-1]) != "(delivery, ready_deferred)":
        raise P.Untranslatable("Broker.scheduleCall enqueues %s" % U(pc.args[-1]))
    ssrc = [U(s) for s in strip_doc(sch.body) if not U(s).startswith(("log.", "self.log", "if self.debug"))]
    if len(ssrc) != 2 or ssrc[0] != U(pc) or ssrc[1] != "eventually(self.doNextCall)":
        raise P.Untranslatable("Broker.scheduleCall changed: %s" % ssrc)
    out.append("Definition inq_push : push_end := %s.   (* Broker.scheduleCall: %s *)" % (inq_push, U(pc)))

    dn = P.find_def(bro, "Broker.doNextCall")
    dbody = strip_doc(dn.body)
    inq_pop = pop_end(dn, "self.inboundDeliveryQueue", "Broker.doNextCall")
    i_pop = index_of(dbody, lambda s: isinstance(s, ast.Assign) and isinstance(s.value, ast.Call)
                     and U(s.value.func).startswith("self.inboundDeliveryQueue."), "dequeue")
    if U(dbody[i_pop].targets[0]) not in ("(delivery, ready_deferred)", "delivery, ready_deferred"):
        raise P.Untranslatable("Broker.doNextCall: dequeue target changed")
    out.append("Definition inq_pop : pop_end := %s.   (* Broker.doNextCall: %s *)" % (inq_pop, U(dbody[i_pop])))

    def guard_tests(st):
        """`if T: return` -> [T];  `if A or B or C: return` -> [A, B, C]  (accepted form 1, see the docstring)"""
        if not (isinstance(st, ast.If) and len(st.body) == 1 and isinstance(st.body[0], ast.Return)
                and st.body[0].value is None and not st.orelse):
            return None

        def flat(t):
            if isinstance(t, ast.BoolOp) and isinstance(t.op, ast.Or):
                return [x for v in t.values for x in flat(v)]
            return [U(t)]
        return flat(st.test)
    pre = dbody[:i_pop]
    tests = []
    for st in pre:
        g = guard_tests(st)
        if g is None:
            raise P.Untranslatable("Broker.doNextCall: statements before the dequeue changed: %s" % [U(x) for x in pre])
        tests += g
    hol_guard = [t for t in tests if t == "self._waiting_for_call_to_be_ready"]
    empty_guard = [t for t in tests if t == "not self.inboundDeliveryQueue"]
    others = [t for t in tests if t not in ("self._waiting_for_call_to_be_ready", "not self.inboundDeliveryQueue", "self.disconnected")]
    if others or len(empty_guard) != 1 or len(hol_guard) > 1:
        raise P.Untranslatable("Broker.doNextCall: statements before the dequeue changed: %s" % [U(x) for x in pre])
    post = dbody[i_pop + 1:]
    post_src = [U(x) for x in post]
    sets_waiting = bool(post_src) and post_src[0] == "self._waiting_for_call_to_be_ready = True"
    if hol_guard and not sets_waiting:
        raise P.Untranslatable("Broker.doNextCall: the waiting flag is tested but not set right after the dequeue")
    out.append("Definition checks_disconnected : bool := %s.   (* Broker.doNextCall: `if self.disconnected: return` before the dequeue *)"
               % ("true" if "self.disconnected" in tests else "false"))
    head_of_line = "HolBlocking" if (hol_guard and sets_waiting) else "HolNone"
    out.append("Definition head_of_line : hol := %s.   (* `if self._waiting_for_call_to_be_ready: return` before the dequeue, flag set after it *)"
               % head_of_line)
    # the callback chain of the dequeued delivery; its first link clears the flag and re-arms doNextCall
    chain = [x for x in post if isinstance(x, ast.Expr) and isinstance(x.value, ast.Call) and U(x.value.func).startswith("d.add")]
    chain_src = [U(x) for x in chain]
    if len(chain) != 5 or not chain_src[0].startswith("d.addBoth(") or chain_src[1:] != [
            "d.addCallback(lambda res: self._doCall(delivery))", "d.addCallback(self._callFinished, delivery)",
            "d.addErrback(self.callFailed, delivery.reqID, delivery)", "d.addErrback(log.err)"]:
        raise P.Untranslatable("Broker.doNextCall: callback chain changed: %s" % chain_src)
    first = chain[0].value
    if len(first.args) != 1 or first.keywords:
        raise P.Untranslatable("Broker.doNextCall: first link of the chain changed: %s" % chain_src[0])
    cb = first.args[0]
    ready_place = None
    if isinstance(cb, ast.Name):
        # a closure defined in doNextCall before it is registered (any name)
        defs = [x for x in post[:post.index(chain[0])] if isinstance(x, ast.FunctionDef) and x.name == cb.id]
        if len(defs) != 1 or defs[0].decorator_list or [a.arg for a in defs[0].args.args] == [] or len(defs[0].args.args) != 1 \
                or defs[0].args.vararg or defs[0].args.kwarg or defs[0].args.defaults or defs[0].args.kwonlyargs:
            raise P.Untranslatable("Broker.doNextCall: the ready callback %s is not a one-argument closure defined just before" % cb.id)
        rfn, rparam = defs[0], defs[0].args.args[0].arg
        ready_place = ("broker.py", "Broker.doNextCall." + cb.id)
    elif isinstance(cb, ast.Attribute) and U(cb.value) == "self":
        # a bound method of the same Broker (accepted form 3, see the docstring)
        rfn = P.find_def(bro, "Broker." + cb.attr)
        a = rfn.args
        if rfn.decorator_list or [x.arg for x in a.args] != ["self", a.args[-1].arg] or len(a.args) != 2 or a.vararg or a.kwarg \
                or a.defaults or a.kwonlyargs:
            raise P.Untranslatable("Broker.%s is not a plain (self, result) method" % cb.attr)
        rparam = a.args[1].arg
        ready_place = ("broker.py", "Broker." + cb.attr)
        # nobody else may call it, override it on the instance, or take it from another class
        frame(cb.attr, {("broker.py", "Broker.doNextCall")})
        for m2 in ("broker.py", "pb.py", "referenceable.py", "banana.py"):
            for n2 in ast.walk(P.load(m2)):
                if isinstance(n2, (ast.FunctionDef, ast.ClassDef)) and n2.name == cb.attr and n2 is not rfn:
                    raise P.Untranslatable("%s is defined more than once" % cb.attr)
    else:
        raise P.Untranslatable("Broker.doNextCall: first link of the chain changed: %s" % chain_src[0])
    rsrc = [U(x) for x in strip_doc(rfn.body)]
    want = ["self._waiting_for_call_to_be_ready = False", "eventually(self.doNextCall)", "return %s" % rparam]
    if hol_guard:
        if rsrc != want:
            raise P.Untranslatable("Broker.doNextCall: ready callback changed: %s" % rsrc)
    else:
        if rsrc[-2:] != want[-2:]:
            raise P.Untranslatable("Broker.doNextCall: ready callback changed: %s" % rsrc)
    # d = the delivery's ready_deferred, or an already fired Deferred when there is none (accepted form 2)
    between = [x for x in post[1:post.index(chain[0])] if not isinstance(x, ast.FunctionDef)]
    bsrc = [U(x) for x in between]
    if bsrc not in (["if not ready_deferred:\n    ready_deferred = defer.succeed(None)", "d = ready_deferred"],
                    ["d = ready_deferred or defer.succeed(None)"]):
        raise P.Untranslatable("Broker.doNextCall: ready_deferred defaulting changed: %s" % bsrc)
    later_reads = [n2 for x in post[post.index(chain[0]):] for n2 in ast.walk(x) if isinstance(n2, ast.Name) and n2.id == "ready_deferred"]
    later_reads += [n2 for x in post if isinstance(x, ast.FunctionDef) for n2 in ast.walk(x) if isinstance(n2, ast.Name) and n2.id == "ready_deferred"]
    if later_reads:
        raise P.Untranslatable("Broker.doNextCall: ready_deferred is used again after d was chosen")
    inq_places = {("broker.py", "Broker.initBroker"), ("broker.py", "Broker.scheduleCall"),
                  ("broker.py", "Broker.doNextCall"), ("pb.py", "Tub.debug_listBrokers")}
    # Broker.finish may drop the queued deliveries of a connection that is gone (accepted form 4, see the docstring)
    fin = P.find_def(bro, "Broker.finish")
    fbody = strip_doc(fin.body)
    fuses = [k for k, st in enumerate(fbody) if any(isinstance(n, ast.Attribute) and n.attr == "inboundDeliveryQueue" for n in ast.walk(st))]
    clears = any(U(fbody[k]) == "self.inboundDeliveryQueue = []" for k in fuses)
    out.append("Definition finish_clears_inq : bool := %s.   (* Broker.finish: self.inboundDeliveryQueue = [] after disconnected = True *)"
               % ("true" if clears else "false"))
    fsrc = [U(x) for x in fbody]
    if fsrc[:1] != ["if self.disconnected:\n    return"] or "self.disconnected = True" not in fsrc:
        raise P.Untranslatable("Broker.finish no longer sets self.disconnected exactly once, guarded against a second run")
    bcl = U(P.find_def(bro, "Broker.connectionLost"))
    if "self.finish(why)" not in bcl:
        raise P.Untranslatable("Broker.connectionLost no longer calls finish")
    if fuses:
        i_disc = index_of(fbody, lambda st: U(st) == "self.disconnected = True", "self.disconnected = True")
        if "self.disconnected" not in tests:
            raise P.Untranslatable("Broker.finish empties the inbound queue but doNextCall does not test self.disconnected")
        for k in fuses:
            st = fbody[k]
            ok = k > i_disc and (
                U(st) == "self.inboundDeliveryQueue = []" or
                (isinstance(st, ast.For) and U(st.iter) == "self.inboundDeliveryQueue" and not st.orelse and
                 not any(isinstance(n, ast.Attribute) and n.attr in ("inboundDeliveryQueue", "doNextCall", "scheduleCall", "_doCall",
                                                                      "_waiting_for_call_to_be_ready", "disconnected")
                         for b in st.body for n in ast.walk(b))))
            if not ok:
                raise P.Untranslatable("Broker.finish uses the inbound queue in an unexpected way: " + U(st))
        if any(isinstance(n, ast.Attribute) and n.attr == "disconnected" and isinstance(n.ctx, ast.Store)
               for st in fbody[i_disc + 1:] for n in ast.walk(st)):
            raise P.Untranslatable("Broker.finish changes self.disconnected again")
        inq_places.add(("broker.py", "Broker.finish"))
    frame("inboundDeliveryQueue", inq_places)
    frame("_waiting_for_call_to_be_ready", {("broker.py", "Broker.initBroker"), ("broker.py", "Broker.doNextCall"), ready_place})
    # the call is scheduled by the root unslicer as soon as the CallUnslicer closes
    bru = P.find_def(bro, "PBRootUnslicer.receiveChild")
    if "self.broker.scheduleCall(token, ready_deferred)" not in U(bru):
        raise P.Untranslatable("PBRootUnslicer.receiveChild no longer schedules the call")
    # _doCall: schema check (may raise) strictly before the method gets control
    dc = P.find_def(bro, "Broker._doCall")
    top = strip_doc(dc.body)
    guard0 = bool(top) and isinstance(top[0], ast.If) and U(top[0].test) == "self.disconnected" and not top[0].orelse \
        and len(top[0].body) == 1 and isinstance(top[0].body[0], ast.Raise)
    if not guard0 and any(isinstance(n, ast.Attribute) and n.attr == "disconnected" for n in ast.walk(dc)):
        raise P.Untranslatable("Broker._doCall mentions self.disconnected in an unrecognised way")
    out.append("Definition docall_checks_disconnected : bool := %s.   (* Broker._doCall starts with `if self.disconnected: raise ...` *)"
               % ("true" if guard0 else "false"))
    def first_stmt_with(attr):
        hits = [k for k, st in enumerate(top) if any(isinstance(n, ast.Call) and isinstance(n.func, ast.Attribute) and n.func.attr == attr
                                                      for n in ast.walk(st))]
        return hits
    a, b = first_stmt_with("checkAllArgs"), first_stmt_with("doRemoteCall")
    if len(a) != 1 or not b or not a[0] < min(b):
        raise P.Untranslatable("Broker._doCall: checkAllArgs no longer precedes doRemoteCall")
    chk = top[a[0]]
    if not (isinstance(chk, ast.If) and U(chk.test) == "delivery.methodSchema" and not chk.orelse and len(chk.body) == 1
            and isinstance(chk.body[0], ast.Expr) and isinstance(chk.body[0].value, ast.Call)
            and U(chk.body[0].value.func) == "delivery.methodSchema.checkAllArgs" and len(chk.body[0].value.args) == 3
            and U(chk.body[0].value.args[2]) == "True"):
        raise P.Untranslatable("Broker._doCall: the schema check changed: " + U(chk))
    # ... and the target gets control SYNCHRONOUSLY, inside _doCall, whatever kind of target it is: every `return` of
    # _doCall hands back the value of the invocation itself -- `obj(*args, **kwargs)` for a bare callable (methodname is
    # None: bound method / function, negative clid) or `<local>.doRemoteCall(delivery.methodname, args, kwargs)` -- and
    # nothing in _doCall postpones work (no eventual-send, no timer, no Deferred chaining, no nested function)
    rets = [n for n in ast.walk(dc) if isinstance(n, ast.Return)]
    kinds = set()
    for r in rets:
        v = r.value
        if isinstance(v, ast.Call) and isinstance(v.func, ast.Name) and U(v) == "%s(*args, **kwargs)" % v.func.id:
            kinds.add("callable")
        elif isinstance(v, ast.Call) and isinstance(v.func, ast.Attribute) and isinstance(v.func.value, ast.Name) \
                and v.func.attr == "doRemoteCall" and [U(a) for a in v.args] == ["delivery.methodname", "args", "kwargs"] and not v.keywords:
            kinds.add("method")
        else:
            raise P.Untranslatable("Broker._doCall: a return that is not the direct invocation of the target: " + U(r))
    if kinds != {"callable", "method"}:
        raise P.Untranslatable("Broker._doCall no longer invokes both kinds of target (bare callable / remotely callable object) directly")
    for n in ast.walk(dc):
        if n is not dc and isinstance(n, (ast.FunctionDef, ast.Lambda, ast.AsyncFunctionDef, ast.Yield, ast.YieldFrom, ast.Await)):
            raise P.Untranslatable("Broker._doCall contains a nested function / lambda / yield: the target may get control later")
        if isinstance(n, (ast.Name, ast.Attribute)) and (n.id if isinstance(n, ast.Name) else n.attr) in (
                "eventually", "fireEventually", "callLater", "addCallback", "addCallbacks", "addBoth", "maybeDeferred", "deferLater"):
            raise P.Untranslatable("Broker._doCall postpones work: " + (n.id if isinstance(n, ast.Name) else n.attr))
    sel = [st for st in top if isinstance(st, ast.If) and U(st.test) == "delivery.methodname is None"]
    if len(sel) != 1 or not any(isinstance(x, ast.Return) for x in sel[0].body):
        raise P.Untranslatable("Broker._doCall: the choice between the two kinds of target is no longer `if delivery.methodname is None:`")
    out.append("Definition docall_enters_target_synchronously : bool := true.   (* Broker._doCall: every return is the direct invocation "
               "of the bare callable with the received arguments / X.doRemoteCall(delivery.methodname, args, kwargs); nothing is postponed (checked; no value) *)")

    # ---------------------------------------------------------------- the Deferred network of third-party references
    gen_gift_network(out, bro, ref)

    # ---------------------------------------------------------------- eventual queue
    evm = P.load("eventual.py")
    app = P.find_def(evm, "_SimpleCallQueue.append")
    evq_push, epc = push_end(app, "self._events", "_SimpleCallQueue.append")
    if U(epc.args[-1]) != "(cb, args, kwargs)":
        raise P.Untranslatable("_SimpleCallQueue.append enqueues %s" % U(epc.args[-1]))
    out.append("Definition evq_push : push_end := %s.   (* _SimpleCallQueue.append: %s *)" % (evq_push, U(epc)))
    trn = P.find_def(evm, "_SimpleCallQueue._turn")
    tb = strip_doc(trn.body)
    snap = [s for s in tb if isinstance(s, ast.Assign) and U(s) == "events, self._events = (self._events, [])"]
    if len(snap) != 1:
        raise P.Untranslatable("_SimpleCallQueue._turn: snapshot-and-clear statement changed")
    loops = [s for s in tb if isinstance(s, ast.For)]
    isolates = True
    if not loops:
        # alternative shape: one try block around the whole loop -- a raising callable ends the batch
        tries = [s for s in tb if isinstance(s, ast.Try) and any(isinstance(x, ast.For) for x in s.body)]
        if len(tries) != 1:
            raise P.Untranslatable("_SimpleCallQueue._turn: loop changed")
        loops = [x for x in tries[0].body if isinstance(x, ast.For)]
        if [U(x) for x in loops[0].body] != ["cb(*args, **kwargs)"] or U(loops[0].target) != "(cb, args, kwargs)":
            raise P.Untranslatable("_SimpleCallQueue._turn: loop body changed")
        hs = tries[0].handlers
        requeue = [x for h in hs for x in ast.walk(h) if isinstance(x, ast.Call) and U(x.func) == "self.append"]
        if len(hs) != 1 or hs[0].type is not None or len(requeue) != 1:
            raise P.Untranslatable("_SimpleCallQueue._turn: exception handling changed")
        isolates = False
        it = U(loops[0].iter)
        if it == "batch":
            b = [s for s in tb if isinstance(s, ast.Assign) and U(s.targets[0]) == "batch"]
            if len(b) != 1 or U(b[0].value) != "iter(events)":
                raise P.Untranslatable("_SimpleCallQueue._turn: iterates over an unknown batch")
            it = "events"
        evq_iter = "IterForward" if it == "events" else None
        if evq_iter is None:
            raise P.Untranslatable("_SimpleCallQueue._turn iterates over " + it)
    else:
        if U(loops[0].target) != "(cb, args, kwargs)" or tb.index(loops[0]) < tb.index(snap[0]):
            raise P.Untranslatable("_SimpleCallQueue._turn: loop changed")
        it = U(loops[0].iter)
        if it == "events":
            evq_iter = "IterForward"
        elif it in ("reversed(events)", "events[::-1]"):
            evq_iter = "IterReverse"
        else:
            raise P.Untranslatable("_SimpleCallQueue._turn iterates over " + it)
        lb = loops[0].body
        if not (len(lb) == 1 and isinstance(lb[0], ast.Try) and [U(s) for s in lb[0].body] == ["cb(*args, **kwargs)"]
                and len(lb[0].handlers) == 1 and lb[0].handlers[0].type is None and not lb[0].orelse and not lb[0].finalbody
                and [U(x) for x in lb[0].handlers[0].body] == ["log.err()"]):
            raise P.Untranslatable("_SimpleCallQueue._turn: loop body changed")
    out.append("Definition evq_isolates_exceptions : bool := %s.   (* _SimpleCallQueue._turn: try/except %s *)"
               % ("true" if isolates else "false", "around each callable" if isolates else "around the whole batch; the rest is queued again"))
    out.append("Definition evq_iter : iter_dir := %s.   (* _SimpleCallQueue._turn: for ... in %s *)" % (evq_iter, it))
    ev = P.find_def(evm, "eventually")
    if "_theSimpleQueue.append(cb, args, kwargs)" not in U(ev):
        raise P.Untranslatable("eventually() changed")
    fe = P.find_def(evm, "fireEventually")
    if "eventually(d.callback, value)" not in U(fe):
        raise P.Untranslatable("fireEventually() changed")
    frame("_events", {("eventual.py", "_SimpleCallQueue.__init__"), ("eventual.py", "_SimpleCallQueue.append"),
                      ("eventual.py", "_SimpleCallQueue._turn"), ("eventual.py", "_SimpleCallQueue.flush")},
          files=["eventual.py"])
    frame("_theSimpleQueue", {("eventual.py", "eventually"), ("eventual.py", "flushEventualQueue")})
    # broker.LoopbackTransport.write = eventually(self.peer.dataReceived, bytes)
    lw = P.find_def(bro, "LoopbackTransport.write")
    if [U(x) for x in strip_doc(lw.body)] != ["eventually(self.peer.dataReceived, bytes)"]:
        raise P.Untranslatable("LoopbackTransport.write changed")
    # LocalReferenceable.callRemote = fireEventually().addCallback(call)
    lcr = P.find_def(ref, "LocalReferenceable.callRemote")
    lsrc = U(lcr)
    if "d = fireEventually()" not in lsrc or "d.addCallback(_try)" not in lsrc:
        raise P.Untranslatable("LocalReferenceable.callRemote changed")
    return {"OrderGen.v": "\n\n".join(out) + "\n"}
