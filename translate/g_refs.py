"""C08/C09: translated parts of referenceable.py / broker.py / call.py (reference tables and counts).

Translated with PyLite (functions):   ReferenceableTracker.send, ReferenceableTracker.decref
Translated expressions:               getRef's `received_count += 1` (both tracker classes), _handleRefLost's tuple
                                      assignment and its `count == 0` guard, freeYourReferenceTracker's keep-test,
                                      the first clid / request id (itertools.count(n))
Shape facts (fail closed):            what is looked up by what, what is deleted by what key, which tables finish()
                                      empties, which function resolves your-reference / call targets.
"""
import ast, copy
from translate import pylite as P

PROPERTIES = ["C08", "C09"]
OUTPUTS = ["RefsGen.v"]


def body_stmts(fn, keep_asserts=False):
    """statements of a function, without docstring / pass / (optionally) asserts, unparsed"""
    out = []
    for st in fn.body:
        if isinstance(st, ast.Expr) and isinstance(st.value, ast.Constant) and isinstance(st.value.value, str):
            continue
        if isinstance(st, ast.Pass):
            continue
        if isinstance(st, ast.Assert) and not keep_asserts:
            continue
        out.append(st)
    return out


def expect(fnname, stmts, wanted):
    got = [ast.unparse(s) for s in stmts]
    if got != wanted:
        raise P.Untranslatable("%s no longer has the expected shape.\n  expected: %r\n  found:    %r" % (fnname, wanted, got))


def expr_translator(env):
    fn = P.Fn("shape", ast.parse("def shape():\n    pass").body[0], dict(params={}))
    return fn, dict(env)


DEAD_TEST = "self.ref is None or self.ref() is None"


def getref_incr(mod, qual, proxyclass):
    """getRef: `if <dead>: ref = <proxyclass>(self); self.ref = weakref.ref(ref, self._refLost)`;
    `self.received_count += k`; `return self.ref()`  ->  Gallina text of the new received_count"""
    f = P.find_def(mod, qual)
    st = body_stmts(f)
    if len(st) != 3 or not isinstance(st[0], ast.If) or st[0].orelse:
        raise P.Untranslatable("%s: expected `if dead: ...; received_count += 1; return self.ref()`" % qual)
    if ast.unparse(st[0].test) != DEAD_TEST:
        raise P.Untranslatable("%s: the proxy is recreated under the test %r, expected %r (None or dead weakref)"
                               % (qual, ast.unparse(st[0].test), DEAD_TEST))
    expect(qual + " (recreate branch)", st[0].body, ["ref = %s(self)" % proxyclass, "self.ref = weakref.ref(ref, self._refLost)"])
    if ast.unparse(st[2]) != "return self.ref()":
        raise P.Untranslatable("%s: does not return self.ref()" % qual)
    a = st[1]
    if isinstance(a, ast.AugAssign) and ast.unparse(a.target) == "self.received_count":
        val = ast.BinOp(left=a.target, op=a.op, right=a.value)
    elif isinstance(a, ast.Assign) and len(a.targets) == 1 and ast.unparse(a.targets[0]) == "self.received_count":
        val = a.value
    else:
        raise P.Untranslatable("%s: second statement does not update self.received_count: %s" % (qual, ast.unparse(a)))
    fn, env = expr_translator({"self_received_count": P.Z})
    t, ty = fn.ex(val, env)
    fn.need(ty, P.Z, a)
    return t


def count_start(mod, attr):
    """`self.<attr> = count(n)` in Broker.initBroker -> n"""
    ib = P.find_def(mod, "Broker.initBroker")
    c = [s for s in ast.walk(ib) if isinstance(s, ast.Assign) and len(s.targets) == 1
         and ast.unparse(s.targets[0]) == "self." + attr]
    if len(c) != 1 or not isinstance(c[0].value, ast.Call) or ast.unparse(c[0].value.func) != "count" \
            or len(c[0].value.args) != 1 or not isinstance(c[0].value.args[0], ast.Constant) \
            or not isinstance(c[0].value.args[0].value, int):
        raise P.Untranslatable("initBroker: self.%s is not count(<int literal>)" % attr)
    return c[0].value.args[0].value


def generate():
    ref = P.load("referenceable.py")
    bro = P.load("broker.py")
    cal = P.load("call.py")
    out = [P.PRELUDE % dict(src="referenceable.py, broker.py, call.py")]

    # ---- ReferenceableTracker.send: refcount += 1; `return True` iff it became 1, otherwise falls off the end.
    # The implicit `return None` is translated as `return False`: the only callers use the result as a truth value.
    f = copy.deepcopy(P.find_def(ref, "ReferenceableTracker.send"))
    if not isinstance(f.body[-1], ast.Return):
        f.body.append(ast.Return(value=ast.Constant(value=False)))
    for n in ast.walk(f):
        if isinstance(n, ast.Return) and n.value is None:
            n.value = ast.Constant(value=False)
    ast.fix_missing_locations(f)
    spec = dict(params={}, ret=P.B, attrs={"refcount": P.Z}, returns_attrs=["refcount"])
    out.append("(* ReferenceableTracker.send : refcount -> (first time?, refcount') *)\n" + P.Fn("send", f, spec).emit())
    for qual in ("ReferenceableSlicer.slice", "CallableSlicer.sliceBody"):
        fn_ = P.find_def(ref, qual)
        uses = [n for n in ast.walk(fn_) if isinstance(n, ast.Name) and n.id == "firstTime"]
        asg = [n for n in ast.walk(fn_) if isinstance(n, ast.Assign) and ast.unparse(n) == "firstTime = tracker.send()"]
        tests = [n for n in ast.walk(fn_) if isinstance(n, ast.If) and ast.unparse(n.test) == "firstTime"]
        if len(asg) != 1 or len(tests) != 1 or len(uses) != 2:
            raise P.Untranslatable("%s: the result of tracker.send() is no longer used only as `if firstTime:`" % qual)
    # the clid put on the wire is the tracker's, obtained by object identity (puid), and send() is called once per emission
    sl = P.find_def(ref, "ReferenceableSlicer.slice")
    src_sl = ast.unparse(sl)
    for frag in ("puid = ipb.IReferenceable(self.obj).processUniqueID()",
                 "tracker = broker.getTrackerForMyReference(puid, self.obj)",
                 "yield b'my-reference'\n        yield tracker.clid\n        firstTime = tracker.send()"):
        if frag not in src_sl:
            raise P.Untranslatable("ReferenceableSlicer.slice no longer contains: " + frag)
    if src_sl.count("tracker.send()") != 1:
        raise P.Untranslatable("ReferenceableSlicer.slice calls tracker.send() %d times" % src_sl.count("tracker.send()"))

    # ---- ReferenceableTracker.decref
    spec = dict(params={"count": P.Z}, ret=P.B, attrs={"refcount": P.Z}, returns_attrs=["refcount"])
    out.append("(* ReferenceableTracker.decref : count -> refcount -> (went to zero?, refcount') | AssertionError *)\n"
               + P.translate_function("referenceable.py", "ReferenceableTracker.decref", "decref", spec))

    # ---- getRef (both tracker classes; D15 was: the method-reference class lacked the dead-weakref test)
    out.append("Definition getRef_incr (self_received_count : Z) : Z := %s."
               % getref_incr(ref, "RemoteReferenceTracker.getRef", "RemoteReference"))
    out.append("Definition getRef_incr_method (self_received_count : Z) : Z := %s."
               % getref_incr(ref, "RemoteMethodReferenceTracker.getRef", "RemoteMethodReference"))
    rl = P.find_def(ref, "RemoteReferenceTracker._refLost")
    expect("RemoteReferenceTracker._refLost", body_stmts(rl), ["eventually(self._handleRefLost)"])

    # ---- _handleRefLost
    h = P.find_def(ref, "RemoteReferenceTracker._handleRefLost")
    st = body_stmts(h)
    if len(st) != 1 or not isinstance(st[0], ast.If) or st[0].orelse or ast.unparse(st[0].test) != DEAD_TEST:
        raise P.Untranslatable("_handleRefLost: expected a single `if %s:`" % DEAD_TEST)
    b = body_stmts(ast.FunctionDef(body=st[0].body))
    if len(b) != 3:
        raise P.Untranslatable("_handleRefLost: expected 3 statements in the dead branch, found %d" % len(b))
    a = b[0]
    if not (isinstance(a, ast.Assign) and len(a.targets) == 1 and isinstance(a.targets[0], ast.Tuple)
            and [ast.unparse(t) for t in a.targets[0].elts] == ["count", "self.received_count"]
            and isinstance(a.value, ast.Tuple) and len(a.value.elts) == 2):
        raise P.Untranslatable("_handleRefLost: expected `count, self.received_count = <e1>, <e2>`, found " + ast.unparse(a))
    fn, env = expr_translator({"self_received_count": P.Z})
    e1, t1 = fn.ex(a.value.elts[0], env)
    e2, t2 = fn.ex(a.value.elts[1], env)
    fn.need(t1, P.Z, a); fn.need(t2, P.Z, a)
    out.append("(* _handleRefLost: `%s`  ->  (count, received_count') *)\n"
               "Definition handleRefLost_assign (self_received_count : Z) : Z * Z := (%s, %s)." % (ast.unparse(a), e1, e2))
    g = b[1]
    if not (isinstance(g, ast.If) and not g.orelse and len(g.body) == 1 and isinstance(g.body[0], ast.Return)
            and g.body[0].value is None):
        raise P.Untranslatable("_handleRefLost: expected `if <test on count>: return`, found " + ast.unparse(g))
    fn, env = expr_translator({"count": P.Z})
    out.append("Definition handleRefLost_skip (count : Z) : bool := %s." % fn.cond(g.test, env))
    if ast.unparse(b[2]) != "self.broker.freeYourReference(self, count)":
        raise P.Untranslatable("_handleRefLost: expected self.broker.freeYourReference(self, count), found " + ast.unparse(b[2]))

    # ---- Broker.freeYourReference: decref(clid=tracker.clid, count=count) as a call with answer; the tracker is
    # released by freeYourReferenceTracker when the answer arrives
    fy = P.find_def(bro, "Broker.freeYourReference")
    src_fy = ast.unparse(fy)
    for frag in ("d = rb.callRemote('decref', clid=tracker.clid, count=count)",
                 "d.addCallback(self.freeYourReferenceTracker, tracker)",
                 "if not self.remote_broker:\n        self.freeYourReferenceTracker(None, tracker)\n        return"):
        if frag not in src_fy:
            raise P.Untranslatable("Broker.freeYourReference no longer contains: " + frag)

    # ---- Broker.freeYourReferenceTracker
    ft = P.find_def(bro, "Broker.freeYourReferenceTracker")
    st = body_stmts(ft)
    if len(st) != 3 or not all(isinstance(s, ast.If) and not s.orelse for s in st):
        raise P.Untranslatable("freeYourReferenceTracker: expected three `if` statements")
    if not (len(st[0].body) == 1 and isinstance(st[0].body[0], ast.Return) and st[0].body[0].value is None):
        raise P.Untranslatable("freeYourReferenceTracker: first statement is not `if <test>: return`")

    class Rw(ast.NodeTransformer):
        def visit_Attribute(self, node):
            if ast.unparse(node) == "tracker.received_count":
                return ast.copy_location(ast.Name(id="received_count", ctx=ast.Load()), node)
            return self.generic_visit(node)
    test = Rw().visit(copy.deepcopy(st[0].test))
    fn, env = expr_translator({"received_count": P.Z})
    out.append("(* freeYourReferenceTracker: `if %s: return` *)\n"
               "Definition freeTracker_keeps (received_count : Z) : bool := %s." % (ast.unparse(st[0].test), fn.cond(test, env)))
    out.append("Inductive delkey := DelByClid | DelByIdentity.")
    if ast.unparse(st[1]) == "if tracker.clid in self.yourReferenceByCLID:\n    del self.yourReferenceByCLID[tracker.clid]":
        out.append("(* the import-table entry is deleted by the tracker's clid, whichever tracker is registered there *)\n"
                   "Definition freeTracker_delkey : delkey := DelByClid.")
    elif ast.unparse(st[1]) in (
            "if self.yourReferenceByCLID.get(tracker.clid) is tracker:\n    del self.yourReferenceByCLID[tracker.clid]",):
        out.append("Definition freeTracker_delkey : delkey := DelByIdentity.")
    else:
        raise P.Untranslatable("freeYourReferenceTracker: unexpected deletion from yourReferenceByCLID: " + ast.unparse(st[1]))

    # ---- Broker.getTrackerForYourReference: lookup by clid, create + register when absent
    gy = P.find_def(bro, "Broker.getTrackerForYourReference")
    st = body_stmts(gy)
    if len(st) != 4 or ast.unparse(st[1]) != "tracker = self.yourReferenceByCLID.get(clid)" \
            or not isinstance(st[2], ast.If) or ast.unparse(st[2].test) != "not tracker" or st[2].orelse \
            or ast.unparse(st[3]) != "return tracker":
        raise P.Untranslatable("getTrackerForYourReference: unexpected shape")
    src_b = [ast.unparse(s) for s in st[2].body]
    for frag in ("tracker = trackerclass(self, clid, url, interfaceName)", "self.yourReferenceByCLID[clid] = tracker"):
        if frag not in src_b:
            raise P.Untranslatable("getTrackerForYourReference no longer contains: " + frag)
    ru = P.find_def(ref, "ReferenceUnslicer.receiveClose")
    src_ru = ast.unparse(ru)
    if "tracker = self.broker.getTrackerForYourReference(self.clid, self.interfaceName, self.url)" not in src_ru \
            or "return (tracker.getRef(), None)" not in src_ru:
        raise P.Untranslatable("ReferenceUnslicer.receiveClose: unexpected shape")

    # ---- Broker.getTrackerForMyReference: lookup by puid; fresh clid from nextCLID; registered in both tables
    gm = P.find_def(bro, "Broker.getTrackerForMyReference")
    st = body_stmts(gm)
    if len(st) != 3 or ast.unparse(st[0]) != "tracker = self.myReferenceByPUID.get(puid)" \
            or not isinstance(st[1], ast.If) or ast.unparse(st[1].test) != "not tracker" or st[1].orelse \
            or ast.unparse(st[2]) != "return tracker":
        raise P.Untranslatable("getTrackerForMyReference: unexpected shape")
    expect("getTrackerForMyReference (create branch)", st[1].body,
           ["clid = next(self.nextCLID)", "tracker = referenceable.ReferenceableTracker(self.tub, obj, puid, clid)",
            "self.myReferenceByPUID[puid] = tracker", "self.myReferenceByCLID[clid] = tracker"])
    init = P.find_def(ref, "ReferenceableTracker.__init__")
    if "self.refcount = 0" not in [ast.unparse(s) for s in init.body] or "self.clid = clid" not in [ast.unparse(s) for s in init.body]:
        raise P.Untranslatable("ReferenceableTracker.__init__: refcount no longer starts at 0 / clid not stored")
    rinit = P.find_def(ref, "RemoteReferenceTracker.__init__")
    rs = [ast.unparse(s) for s in rinit.body]
    if "self.received_count = 0" not in rs or "self.ref = None" not in rs or "self.clid = clid" not in rs:
        raise P.Untranslatable("RemoteReferenceTracker.__init__: unexpected initial state")
    out.append("Definition first_clid : Z := %d." % count_start(bro, "nextCLID"))
    out.append("Definition first_reqid : Z := %d." % count_start(bro, "nextReqID"))
    nr = P.find_def(bro, "Broker.newRequestID")
    if "return next(self.nextReqID)" not in ast.unparse(nr):
        raise P.Untranslatable("newRequestID: unexpected shape")

    # ---- Broker.remote_decref
    rd = P.find_def(bro, "Broker.remote_decref")
    st = body_stmts(rd)
    expect("Broker.remote_decref", st,
           ["tracker = self.myReferenceByCLID.get(clid, None)", "if not tracker:\n    return", "done = tracker.decref(count)",
            "if done:\n    del self.myReferenceByPUID[tracker.puid]\n    del self.myReferenceByCLID[clid]"])

    # ---- your-reference and call targets are resolved through the export table, by clid
    gc_ = P.find_def(bro, "Broker.getMyReferenceByCLID")
    st = body_stmts(gc_)
    expect("Broker.getMyReferenceByCLID", st, ["if clid == 0:\n    return self", "return self.myReferenceByCLID[clid].obj"])
    yu = P.find_def(ref, "YourReferenceUnslicer.receiveClose")
    if "obj = self.broker.getMyReferenceByCLID(self.clid)" not in ast.unparse(yu) or "return (obj, None)" not in ast.unparse(yu):
        raise P.Untranslatable("YourReferenceUnslicer.receiveClose: unexpected shape")
    ys = P.find_def(ref, "YourReferenceSlicer.slice")
    # which test decides that a proxy is "going home" (sent as a bare `your-reference <clid>`, meaningful only in the
    # export table of ONE connection) rather than as a gift (`their-reference <giftID> <furl>`)
    src_ys = ast.unparse(ys)
    if "tracker = self.obj.tracker" not in src_ys:
        raise P.Untranslatable("YourReferenceSlicer.slice: unexpected shape")
    homes = [n for n in ast.walk(ys) if isinstance(n, ast.If)
             and [ast.unparse(x) for x in n.body[:2]] == ["yield b'your-reference'", "yield tracker.clid"]]
    if len(homes) != 1 or len(homes[0].body) != 2 or "yield b'their-reference'" not in ast.unparse(ast.Module(body=homes[0].orelse, type_ignores=[])):
        raise P.Untranslatable("YourReferenceSlicer.slice: expected `if <home test>: yield b'your-reference'; yield tracker.clid else: ... their-reference`")
    if src_ys.count("yield b'your-reference'") != 1:
        raise P.Untranslatable("YourReferenceSlicer.slice: your-reference is emitted in more than one place")
    test = ast.unparse(homes[0].test)
    HOME = {"tracker.broker == broker": "HomeSameConnection", "tracker.broker is broker": "HomeSameConnection",
            "broker == tracker.broker": "HomeSameConnection", "broker is tracker.broker": "HomeSameConnection",
            "tracker.broker.remote_tubref == broker.remote_tubref": "HomeSamePeerTub",
            "broker.remote_tubref == tracker.broker.remote_tubref": "HomeSamePeerTub"}
    if test not in HOME:
        raise P.Untranslatable("YourReferenceSlicer.slice: unrecognised going-home test: " + test)
    out.append("Inductive homekey := HomeSameConnection | HomeSamePeerTub.")
    out.append("(* YourReferenceSlicer.slice: `if %s:` -> bare your-reference <clid>, else gift *)\n"
               "Definition yourref_homekey : homekey := %s." % (test, HOME[test]))
    cu = P.find_def(cal, "CallUnslicer.receiveChild")
    if "self.obj = self.broker.getMyReferenceByCLID(token)" not in ast.unparse(cu):
        raise P.Untranslatable("CallUnslicer.receiveChild no longer resolves the target with getMyReferenceByCLID")
    cr = P.find_def(ref, "RemoteReference._callRemote")
    if "clid = self.tracker.clid" not in ast.unparse(cr) or "slicer = call.CallSlicer(reqID, clid, methodName, args, kwargs)" not in ast.unparse(cr):
        raise P.Untranslatable("RemoteReference._callRemote no longer addresses the call with self.tracker.clid")

    # ---- util.AsyncAND: the barrier on which a container / a call waits until every gift inside it has been introduced.
    # Shape: where is `remaining` established relative to the subscriptions (an input that has ALREADY fired runs its
    # callback synchronously inside addCallbacks)
    ut = P.load("util.py")
    ai = P.find_def(ut, "AsyncAND.__init__")
    loops = [n for n in ai.body if isinstance(n, ast.For)]
    if len(loops) != 1 or "addCallbacks(self._cbDeferred, self._cbDeferred" not in ast.unparse(loops[0]):
        raise P.Untranslatable("AsyncAND.__init__: expected one loop subscribing _cbDeferred to every input")
    pre = [ast.unparse(x) for x in ai.body[:ai.body.index(loops[0])]]
    inloop = [ast.unparse(x) for x in loops[0].body]
    if "self.remaining = len(deferredList)" in pre and not any("self.remaining" in x for x in inloop):
        andinit = "CountBeforeSubscribing"
        if not any(x.startswith("if not deferredList:") and "self.callback(None)" in x and "return" in x for x in pre):
            raise P.Untranslatable("AsyncAND.__init__: the empty list no longer fires at once")
    elif "self.remaining = 0" in pre and "self.remaining += 1" in inloop and inloop.index("self.remaining += 1") == 0:
        andinit = "CountWhileSubscribing"
    else:
        raise P.Untranslatable("AsyncAND.__init__: unrecognised way of counting the inputs: %r / %r" % (pre, inloop))
    out.append("Inductive andinit := CountBeforeSubscribing | CountWhileSubscribing.")
    out.append("Definition asyncand_init : andinit := %s." % andinit)
    cbd = P.find_def(ut, "AsyncAND._cbDeferred")
    st = body_stmts(cbd)
    if len(st) != 2 or ast.unparse(st[0]) != "self.remaining -= 1" or not isinstance(st[1], ast.If) \
            or ast.unparse(st[1].test) != "succeeded" or not isinstance(st[1].body[0], ast.If) \
            or ast.unparse(st[1].body[0].test) != "not self._fired and self.remaining == 0" \
            or "self.callback(None)" not in ast.unparse(st[1].body[0]):
        raise P.Untranslatable("AsyncAND._cbDeferred: unexpected shape")
    # who waits on it: containers and calls combine the ready_deferreds of their children with AsyncAND
    for rel, qual in (("call.py", "CallUnslicer.receiveClose"), ("call.py", "ArgumentUnslicer.receiveClose"),
                      ("slicers/tuple.py", "TupleUnslicer.receiveClose")):
        if "AsyncAND(" not in ast.unparse(P.find_def(P.load(rel), qual)):
            raise P.Untranslatable("%s no longer waits for its children with AsyncAND" % qual)

    # ---- finish(): which tables are emptied on connection loss
    fi = P.find_def(bro, "Broker.finish")
    cleared = [ast.unparse(s.targets[0])[5:] for s in fi.body if isinstance(s, ast.Assign) and len(s.targets) == 1
               and ast.unparse(s.targets[0]).startswith("self.") and isinstance(s.value, ast.Dict) and not s.value.keys]
    for t in ("myReferenceByPUID", "myReferenceByCLID", "yourReferenceByCLID", "yourReferenceByURL"):
        out.append("Definition finish_clears_%s : bool := %s." % (t, "true" if t in cleared else "false"))
    cl = P.find_def(bro, "Broker.connectionLost")
    if "self.finish(why)" not in [ast.unparse(s) for s in cl.body]:
        raise P.Untranslatable("Broker.connectionLost no longer calls self.finish(why)")
    return {"RefsGen.v": "\n\n".join(out) + "\n"}
