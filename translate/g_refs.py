"""C08/C09: translated parts of referenceable.py / broker.py / call.py (reference tables and counts).

Translated with PyLite (functions):   ReferenceableTracker.send, ReferenceableTracker.decref
Translated expressions:               getRef's `received_count += 1` (both tracker classes), _handleRefLost's tuple
                                      assignment and its `count == 0` guard, freeYourReferenceTracker's keep-test,
                                      the first clid / request id (itertools.count(n))
Shape facts (fail closed):            what is looked up by what, what is deleted by what key, which tables finish()
                                      empties, which function resolves your-reference / call targets.

FORMS ACCEPTED AS THE SAME SHAPE (robustness round).  Before a function body is compared with its expected shape it is
canonicalised by the rewrites below.  R1, R2, R5 are equivalences for ALL inputs.  R3, R4, R6 hold under a side condition
about the package that is CHECKED syntactically on every run (whole package except foolscap/test); when the side condition
cannot be established the rewrite is not applied and the shape comparison fails closed as before.

 R1  `if not not X:`  ==  `if X:`.   `not not X` is bool(X): X is evaluated once and its truth value taken once, in both.
 R2  `V = E` immediately followed by `if V: ...`, V a local name that occurs nowhere else in the function
       ==  `if E: ...`.   E is evaluated at the same point, its value is only tested for truth, the binding is dead.
 R3  `self.A.get(k)`  ==  `self.A.get(k, None)`  when is_dict_attr(A): every store to an attribute named A anywhere in the
       package is `<x>.A = {}` (a dict display), so self.A is a builtin dict, whose get() has default None.
 R4  `K = tracker.A` (K a local assigned exactly once, `tracker` a parameter / local that is never re-bound) and later uses
     of K  ==  `tracker.A` written out at each use,  when the function is straight-line (no loop/try/with), K is not used
     before its assignment, and is_frozen_tracker_attr(A): in the tracker classes (and classes derived from them) A is not
     defined at class level, is stored to only as `self.A = ...` inside `__init__`, never deleted; nothing in the package
     stores to `<not self>.A`; no class defines __getattribute__/__setattr__/__delattr__; no setattr/delattr names A; and no
     dynamic store (setattr with a computed name, __dict__) can reach a tracker instance (dynamic_store_may_hit: such stores
     occur only through `self` inside classes unrelated to the trackers).  Then reading tracker.A has
     no side effect and yields the same value however often and whenever it is read during the function, so reading it once
     into a local or re-reading it (also across the intervening dict operations) is the same.  (This is the model's
     standing assumption about t_clid anyway: a tracker's clid/url/puid never change.)
 R5  statements that only assert (an `assert`, or an `if` without else whose body is only asserts) are not part of a shape:
     `if c: assert t`  ==  `assert (not c) or t`  for all inputs; the model has no assertion failures for argument types.
 R6  `self.M()` where M is, package-wide, only ever defined as a method whose body is the single statement `return <E>`
     (E mentioning no local but self), never stored to as an attribute: resolved by the MRO of the concrete class being
     read, and replaced by E.  A method a class does not define itself is read from its (single) base class.
"""
import ast, copy
from translate import pylite as P

PROPERTIES = ["C08", "C09"]
# R3, R4, R6 rely on facts about the package that are checked syntactically (see docstring); set to False to fall back to
# the purely type-free rewrites R1, R2, R5 (the forms needing R3/R4/R6 then fail closed again)
TYPED_REWRITES = True
OUTPUTS = ["RefsGen.v"]


def body_stmts(fn, keep_asserts=False):
    """statements of a function, without docstring / pass / (optionally) asserts, unparsed"""
    out = []
    for st in fn.body:
        if isinstance(st, ast.Expr) and isinstance(st.value, ast.Constant) and isinstance(st.value.value, str):
            continue
        if isinstance(st, ast.Pass):
            continue
        if isinstance(st, ast.Assert) and not keep_asserts:
            continue
        out.append(st)
    return out


# ---------------------------------------------------------------------------------------------------------------
# package-wide side conditions (R3, R4, R6)
_PKG = None


def package_modules():
    global _PKG
    if _PKG is None:
        import os
        _PKG = []
        for root, dirs, files in os.walk(P.SRC):
            dirs[:] = [d for d in dirs if d != "test"]
            for f in sorted(files):
                if f.endswith(".py"):
                    rel = os.path.relpath(os.path.join(root, f), P.SRC)
                    try:
                        _PKG.append((rel, ast.parse(open(os.path.join(root, f)).read())))
                    except SyntaxError:
                        raise P.Untranslatable("cannot parse %s" % rel)
    return _PKG


def is_dict_attr(name):
    """every store to an attribute called `name` in the package is `<x>.name = {}`; nothing dynamic could store to it"""
    n_stores = 0
    for rel, mod in package_modules():
        for n in ast.walk(mod):
            targets = []
            if isinstance(n, ast.Assign):
                targets = n.targets
            elif isinstance(n, (ast.AugAssign, ast.AnnAssign)):
                targets = [n.target]
            elif isinstance(n, ast.Delete):
                targets = n.targets
            elif isinstance(n, (ast.For, ast.With)):
                targets = [x for x in ast.walk(n.target)] if isinstance(n, ast.For) else []
            for t in targets:
                for a in ast.walk(t):
                    if isinstance(a, ast.Attribute) and a.attr == name and isinstance(a.ctx, (ast.Store, ast.Del)):
                        if not (isinstance(n, ast.Assign) and len(n.targets) == 1 and a is n.targets[0]
                                and isinstance(n.value, ast.Dict) and not n.value.keys):
                            return False
                        n_stores += 1
            if isinstance(n, ast.ClassDef):
                for st in n.body:
                    if isinstance(st, (ast.FunctionDef, ast.ClassDef)) and st.name == name:
                        return False
                    if isinstance(st, ast.Assign) and any(isinstance(t, ast.Name) and t.id == name for t in st.targets):
                        return False
    return n_stores > 0 and not any(_uses_setattr_on(mod, name) for rel, mod in package_modules()) \
        and not dynamic_store_may_hit(class_family(BROKER_CLASSES))


def class_family(names):
    """simple names of the package classes related by inheritance (ancestors or descendants) to any of `names`"""
    graph = {}
    for rel, mod in package_modules():
        for c in ast.walk(mod):
            if isinstance(c, ast.ClassDef):
                graph.setdefault(c.name, set()).update(ast.unparse(b).split(".")[-1] for b in c.bases)
    fam = set(names)
    changed = True
    while changed:
        changed = False
        for c, bases in graph.items():
            if c in fam and not bases <= fam:
                fam |= bases
                changed = True
            if c not in fam and bases & set(names) or (c not in fam and any(b in fam and b in graph and _descends(graph, b, names) for b in bases)):
                fam.add(c)
                changed = True
    return fam


def _descends(graph, c, names, seen=None):
    seen = seen or set()
    if c in names:
        return True
    if c in seen:
        return False
    seen.add(c)
    return any(_descends(graph, b, names, seen) for b in graph.get(c, ()))


def dynamic_store_may_hit(family):
    """could a dynamic attribute store (setattr/delattr with a computed name, anything through __dict__) reach an instance of
    a class of `family`?  Such a store through `self` inside a class outside the family only reaches that class's own
    instances; `x.__dict__.copy()` creates no alias.  Everything else counts as a possible hit (fail closed)."""
    for rel, mod in package_modules():
        parents = {}
        for n in ast.walk(mod):
            for ch in ast.iter_child_nodes(n):
                parents[id(ch)] = n

        def enclosing_class(n):
            while id(n) in parents:
                n = parents[id(n)]
                if isinstance(n, ast.ClassDef):
                    return n.name
            return None
        for n in ast.walk(mod):
            recv = None
            if isinstance(n, ast.Call) and isinstance(n.func, ast.Name) and n.func.id in ("setattr", "delattr") and len(n.args) >= 2 \
                    and not isinstance(n.args[1], ast.Constant):
                recv = n.args[0]
            elif isinstance(n, ast.Attribute) and n.attr == "__dict__":
                par = parents.get(id(n))
                gp = parents.get(id(par)) if par is not None else None
                if isinstance(par, ast.Attribute) and par.attr == "copy" and isinstance(gp, ast.Call) and gp.func is par:
                    continue
                recv = n.value
            if recv is None:
                continue
            cls = enclosing_class(n)
            if isinstance(recv, ast.Name) and recv.id == "self" and cls is not None and cls not in family:
                continue
            return True
    return False


BROKER_CLASSES = ("Broker",)


def _uses_setattr_on(mod, name):
    """setattr/delattr naming exactly this attribute as a literal"""
    for n in ast.walk(mod):
        if isinstance(n, ast.Call) and isinstance(n.func, ast.Name) and n.func.id in ("setattr", "delattr"):
            if len(n.args) >= 2 and isinstance(n.args[1], ast.Constant) and n.args[1].value == name:
                return True
    return False


# receiveChild of the unslicers stores self.clid / self.url on UNSLICER objects; trackers are what R4 is about.  Those
# stores would make the package-wide test fail, so R4 is asked about an attribute *of the tracker classes*: stores through
# `self` inside classes that are neither a tracker class nor derived from one do not count.
TRACKER_CLASSES = ("ReferenceableTracker", "RemoteReferenceTracker", "RemoteMethodReferenceTracker")


def is_frozen_tracker_attr(name):
    def derives(cls, classes):
        return cls.name in TRACKER_CLASSES or any(ast.unparse(b).split(".")[-1] in TRACKER_CLASSES for b in cls.bases)
    if dynamic_store_may_hit(class_family(TRACKER_CLASSES)):
        return False
    n_init = 0
    for rel, mod in package_modules():
        if _uses_setattr_on(mod, name):
            return False
        for cls in [c for c in ast.walk(mod) if isinstance(c, ast.ClassDef)]:
            tracker = derives(cls, None)
            for st in cls.body:
                if isinstance(st, (ast.FunctionDef, ast.ClassDef)) and st.name in ("__getattribute__", "__setattr__", "__delattr__"):
                    return False
                if tracker and isinstance(st, (ast.FunctionDef, ast.ClassDef)) and st.name == name:
                    return False
                if tracker and isinstance(st, ast.Assign) and any(isinstance(t, ast.Name) and t.id == name for t in st.targets):
                    return False
            for f in [x for x in cls.body if isinstance(x, ast.FunctionDef)]:
                for n in ast.walk(f):
                    if isinstance(n, ast.Attribute) and n.attr == name and isinstance(n.ctx, (ast.Store, ast.Del)):
                        on_self = isinstance(n.value, ast.Name) and n.value.id == "self"
                        if on_self and not tracker:
                            continue            # another class's own attribute of the same name
                        if not (on_self and tracker and f.name == "__init__" and isinstance(n.ctx, ast.Store)):
                            return False
                        n_init += 1
        # stores outside any class
        for n in mod.body:
            if not isinstance(n, ast.ClassDef):
                for a in ast.walk(n):
                    if isinstance(a, ast.Attribute) and a.attr == name and isinstance(a.ctx, (ast.Store, ast.Del)):
                        return False
    return n_init > 0


# ---------------------------------------------------------------------------------------------------------------
# canonicalising rewrites (R1 .. R6)
def count_name(fn, ident):
    return len([n for n in ast.walk(fn) if isinstance(n, ast.Name) and n.id == ident])


def canon(fn, cached_from=None):
    """-> a copy of FunctionDef fn with R1, R2, R3, R4, R5 applied.  cached_from: the parameter/local holding a tracker,
    whose frozen attributes may be cached in locals (R4)"""
    fn = copy.deepcopy(fn)

    # R5
    def only_asserts(st):
        return isinstance(st, ast.Assert) or (isinstance(st, ast.If) and not st.orelse and st.body and all(only_asserts(x) for x in st.body))

    def strip(body):
        out = []
        for st in body:
            if only_asserts(st):
                continue
            for fld in ("body", "orelse"):
                if hasattr(st, fld) and isinstance(getattr(st, fld), list) and not isinstance(st, ast.FunctionDef):
                    setattr(st, fld, strip(getattr(st, fld)))
            out.append(st)
        return out
    fn.body = strip(fn.body)

    # R1
    class R1(ast.NodeTransformer):
        def visit_If(self, node):
            self.generic_visit(node)
            t = node.test
            while isinstance(t, ast.UnaryOp) and isinstance(t.op, ast.Not) and isinstance(t.operand, ast.UnaryOp) \
                    and isinstance(t.operand.op, ast.Not):
                t = t.operand.operand
            node.test = t
            return node
    fn = R1().visit(fn)

    # R3
    class R3(ast.NodeTransformer):
        def visit_Call(self, node):
            self.generic_visit(node)
            f = node.func
            if isinstance(f, ast.Attribute) and f.attr == "get" and len(node.args) == 1 and not node.keywords \
                    and isinstance(f.value, ast.Attribute) and isinstance(f.value.value, ast.Name) and f.value.value.id == "self" \
                    and TYPED_REWRITES and is_dict_attr(f.value.attr):
                node.args.append(ast.Constant(value=None))
            return node
    fn = R3().visit(fn)

    # R4
    if TYPED_REWRITES and cached_from and not any(isinstance(n, (ast.For, ast.While, ast.Try, ast.With)) for n in ast.walk(fn)):
        params = [a.arg for a in fn.args.args]
        binds = [n for n in ast.walk(fn) if isinstance(n, ast.Name) and n.id == cached_from and isinstance(n.ctx, (ast.Store, ast.Del))]
        # the tracker variable is a parameter never re-bound, or a local bound exactly once (straight-line code: no loops)
        ok_tracker = (cached_from in params and not binds) or (cached_from not in params and len(binds) == 1 and isinstance(binds[0].ctx, ast.Store))
        bound_at = binds[0].lineno if binds else 0

        def find_cache(body):
            for i, st in enumerate(body):
                if isinstance(st, ast.Assign) and len(st.targets) == 1 and isinstance(st.targets[0], ast.Name) \
                        and isinstance(st.value, ast.Attribute) and isinstance(st.value.value, ast.Name) \
                        and st.value.value.id == cached_from and st.lineno > bound_at:
                    local, attr = st.targets[0].id, st.value.attr
                    stores = [n for n in ast.walk(fn) if isinstance(n, ast.Name) and n.id == local and isinstance(n.ctx, (ast.Store, ast.Del))]
                    uses_before = [n for n in ast.walk(fn) if isinstance(n, ast.Name) and n.id == local and n.lineno < st.lineno]
                    if len(stores) == 1 and local not in params and not uses_before and is_frozen_tracker_attr(attr):
                        return body, i, local, attr
                for fld in ("body", "orelse"):
                    sub = getattr(st, fld, None)
                    if isinstance(sub, list) and not isinstance(st, ast.FunctionDef):
                        r = find_cache(sub)
                        if r:
                            return r
            return None
        while ok_tracker:
            r = find_cache(fn.body)
            if not r:
                break
            body, i, local, attr = r

            class Sub(ast.NodeTransformer):
                def visit_Name(self, node):
                    if node.id == local and isinstance(node.ctx, ast.Load):
                        return ast.copy_location(ast.Attribute(value=ast.copy_location(ast.Name(id=cached_from, ctx=ast.Load()), node),
                                                               attr=attr, ctx=ast.Load()), node)
                    return node
            body.pop(i)
            fn = Sub().visit(fn)
    # R2
    def r2(body):
        i = 0
        while i + 1 < len(body):
            a, b = body[i], body[i + 1]
            if isinstance(a, ast.Assign) and len(a.targets) == 1 and isinstance(a.targets[0], ast.Name) \
                    and isinstance(b, ast.If) and isinstance(b.test, ast.Name) and b.test.id == a.targets[0].id \
                    and count_name(fn, a.targets[0].id) == 2:
                b.test = a.value
                body.pop(i)
                continue
            i += 1
        for st in body:
            for fld in ("body", "orelse"):
                sub = getattr(st, fld, None)
                if isinstance(sub, list) and not isinstance(st, ast.FunctionDef):
                    r2(sub)
    r2(fn.body)
    ast.fix_missing_locations(fn)
    return fn


def resolve_method(mod, clsname, meth):
    """the FunctionDef that `clsname().meth` denotes: the class's own, else its single base class's (same module)"""
    cls = P.find_class(mod, clsname)
    for st in cls.body:
        if isinstance(st, ast.FunctionDef) and st.name == meth:
            return st
    if len(cls.bases) != 1:
        raise P.Untranslatable("%s.%s: not defined and %d base classes" % (clsname, meth, len(cls.bases)))
    base = ast.unparse(cls.bases[0])
    if base == "object":
        raise P.Untranslatable("%s.%s is not defined" % (clsname, meth))
    return resolve_method(mod, base, meth)


def inline_self_helpers(mod, clsname, fn):
    """R6 on a copy of fn, read as a method of the concrete class clsname"""
    fn = copy.deepcopy(fn)

    class R6(ast.NodeTransformer):
        def visit_Call(self, node):
            self.generic_visit(node)
            f = node.func
            if TYPED_REWRITES and isinstance(f, ast.Attribute) and isinstance(f.value, ast.Name) and f.value.id == "self" and not node.args and not node.keywords:
                name = f.attr
                defs = []
                for rel, m in package_modules():
                    for n in ast.walk(m):
                        if isinstance(n, ast.FunctionDef) and n.name == name:
                            defs.append(n)
                        if isinstance(n, ast.Attribute) and n.attr == name and isinstance(n.ctx, (ast.Store, ast.Del)):
                            return node
                        if isinstance(n, ast.ClassDef) and any(isinstance(st, ast.Assign) and any(isinstance(t, ast.Name) and t.id == name
                                                                                              for t in st.targets) for st in n.body):
                            return node
                    if _uses_setattr_on(m, name):
                        return node
                if dynamic_store_may_hit(class_family((clsname,))):
                    return node
                if not defs:
                    return node
                for d in defs:
                    b = body_stmts(d)
                    if len(b) != 1 or not isinstance(b[0], ast.Return) or b[0].value is None or d.decorator_list \
                            or [a.arg for a in d.args.args] != ["self"] or d.args.vararg or d.args.kwarg \
                            or any(isinstance(x, ast.Name) and x.id != "self" and isinstance(x.ctx, ast.Store) for x in ast.walk(d)):
                        return node
                try:
                    target = resolve_method(mod, clsname, name)
                except P.Untranslatable:
                    return node
                return copy.deepcopy(body_stmts(target)[0].value)
            return node
    fn = R6().visit(fn)
    ast.fix_missing_locations(fn)
    return fn


def guard_to_branch(stmts, var):
    """R7: `...; if V: return V; <rest>; return V`  ==  `...; if not V: <rest>; return V`  (for all inputs: when V is true both
    return V at once; when it is false both run <rest> and then return V) -- provided <rest> contains no return."""
    for i, st in enumerate(stmts):
        if isinstance(st, ast.If) and not st.orelse and ast.unparse(st.test) == var and len(st.body) == 1 \
                and ast.unparse(st.body[0]) == "return " + var and i + 1 < len(stmts) and ast.unparse(stmts[-1]) == "return " + var:
            rest = stmts[i + 1:-1]
            if rest and not any(isinstance(n, ast.Return) for r in rest for n in ast.walk(r)):
                new = ast.If(test=ast.UnaryOp(op=ast.Not(), operand=ast.Name(id=var, ctx=ast.Load())), body=rest, orelse=[])
                out = stmts[:i] + [new, stmts[-1]]
                for n in out:
                    ast.fix_missing_locations(ast.copy_location(n, st)) if n is new else None
                return out
    return stmts


def inline_tracker_factory(mod, fn):
    """R8: `tracker = self.M(a, b, c)` where M is a Broker method with parameters (self, a, b, c) -- the very names passed -- whose
    body is `if clid >= 0: trackerclass = X else: trackerclass = Y; return trackerclass(self, clid, url, interfaceName)`
    ==  those statements followed by `tracker = trackerclass(self, clid, url, interfaceName)` (same evaluation, no rebinding)."""
    for node in ast.walk(fn):
        body = getattr(node, "body", None)
        if not isinstance(body, list):
            continue
        for i, st in enumerate(body):
            if isinstance(st, ast.Assign) and len(st.targets) == 1 and ast.unparse(st.targets[0]) == "tracker" \
                    and isinstance(st.value, ast.Call) and isinstance(st.value.func, ast.Attribute) \
                    and isinstance(st.value.func.value, ast.Name) and st.value.func.value.id == "self" and not st.value.keywords \
                    and all(isinstance(a, ast.Name) for a in st.value.args):
                try:
                    m = P.find_def(mod, "Broker." + st.value.func.attr)
                except Exception:
                    continue
                params = [a.arg for a in m.args.args]
                mb = body_stmts(m)
                if params != ["self"] + [a.id for a in st.value.args] or m.args.vararg or m.args.kwarg or m.decorator_list or len(mb) != 2 \
                        or not isinstance(mb[0], ast.If) or ast.unparse(mb[1]) != "return trackerclass(self, clid, url, interfaceName)":
                    continue
                if any(isinstance(n, ast.Return) for n in ast.walk(mb[0])):
                    continue
                new = ast.parse("tracker = trackerclass(self, clid, url, interfaceName)").body[0]
                body[i:i + 1] = [copy.deepcopy(mb[0]), new]
                ast.fix_missing_locations(fn)
                return


def inline_pure_locals(fn, keep=()):
    """R9: a top-level `V = E` / `a, b = (E1, E2)` whose right-hand sides are built only from names, attribute reads and tuples
    (no call, no subscript, no `self`), V bound exactly once in the function and not a parameter, every use of V textually
    before any re-binding of a name free in E: the uses of V are replaced by E and the binding is dropped.  Sound when the
    attribute reads in E cannot be affected by what runs in between: checked by the caller (pure_between)."""
    fn = copy.deepcopy(fn)
    params = {a.arg for a in fn.args.args}
    changed = True
    while changed:
        changed = False
        for st in list(fn.body):
            pairs = []
            if isinstance(st, ast.Assign) and len(st.targets) == 1:
                t, v = st.targets[0], st.value
                if isinstance(t, ast.Name):
                    pairs = [(t.id, v)]
                elif isinstance(t, ast.Tuple) and isinstance(v, ast.Tuple) and len(t.elts) == len(v.elts) \
                        and all(isinstance(e, ast.Name) for e in t.elts):
                    pairs = [(e.id, x) for e, x in zip(t.elts, v.elts)]
            if not pairs:
                continue
            ok = True
            for name, e in pairs:
                if name in params or name in keep or not all(isinstance(n, (ast.Name, ast.Attribute, ast.Tuple, ast.Load)) for n in ast.walk(e)) \
                        or any(isinstance(n, ast.Name) and n.id == "self" for n in ast.walk(e)) \
                        or not any(isinstance(n, (ast.Attribute, ast.Tuple)) for n in ast.walk(e)):
                    ok = False
                    break
                binds = [n for n in ast.walk(fn) if isinstance(n, ast.Name) and n.id == name and isinstance(n.ctx, (ast.Store, ast.Del))]
                uses = [n for n in ast.walk(fn) if isinstance(n, ast.Name) and n.id == name and isinstance(n.ctx, ast.Load)]
                free = {n.id for n in ast.walk(e) if isinstance(n, ast.Name)}
                rebinds = [n.lineno for n in ast.walk(fn) if isinstance(n, ast.Name) and n.id in free
                           and isinstance(n.ctx, (ast.Store, ast.Del)) and n.lineno > st.lineno]
                if len(binds) != 1 or not uses or any(u.lineno <= st.lineno for u in uses) \
                        or (rebinds and max(u.lineno for u in uses) >= min(rebinds)) or free & {x for x, _ in pairs}:
                    ok = False
                    break
            if not ok:
                continue
            env = dict(pairs)

            class Sub(ast.NodeTransformer):
                def visit_Name(self, node):
                    if isinstance(node.ctx, ast.Load) and node.id in env:
                        return ast.copy_location(copy.deepcopy(env[node.id]), node)
                    return node
            fn.body.remove(st)
            fn = Sub().visit(fn)
            changed = True
            break
    return fn


def pure_between(fn, allowed):
    """every call in fn is one of the allowed source texts (dict reads, next() on a counter): nothing that runs inside fn can
    change an attribute of its arguments; and fn stores to no attribute"""
    for n in ast.walk(fn):
        if isinstance(n, ast.Call) and not any(ast.unparse(n).startswith(a) for a in allowed):
            return False
        if isinstance(n, ast.Attribute) and isinstance(n.ctx, (ast.Store, ast.Del)):
            return False
    return True


def rename_local(fn, old, new):
    if old == new:
        return fn
    if any(isinstance(n, ast.Name) and n.id == new for n in ast.walk(fn)) or new in [a.arg for a in fn.args.args]:
        return fn
    for n in ast.walk(fn):
        if isinstance(n, ast.Name) and n.id == old:
            n.id = new
    return fn


def canon_makegift(fn):
    """makeGift up to the names of its locals: the key local is called `i`, the looked-up entry `old`; alias locals inlined"""
    if not pure_between(fn, ("self.myGifts.get(", "next(self.nextGiftID)")):
        return fn
    keys = [st.value.args[0].id for st in fn.body if isinstance(st, ast.Assign) and isinstance(st.value, ast.Call)
            and ast.unparse(st.value.func) == "self.myGifts.get" and st.value.args and isinstance(st.value.args[0], ast.Name)]
    fn = inline_pure_locals(fn, keep=set(keys))
    for st in fn.body:
        if isinstance(st, ast.Assign) and len(st.targets) == 1 and isinstance(st.targets[0], ast.Name) and isinstance(st.value, ast.Call) \
                and ast.unparse(st.value.func) == "self.myGifts.get" and st.value.args:
            fn = rename_local(fn, st.targets[0].id, "old")
            idx = st.value.args[0]
            if isinstance(idx, ast.Name):
                fn = rename_local(fn, idx.id, "i")
            break
    return fn


def canon_decgift(fn):
    if not pure_between(fn, ()):
        return fn
    return inline_pure_locals(fn)


def expect(fnname, stmts, wanted):
    got = [ast.unparse(s) for s in stmts]
    if got != wanted:
        raise P.Untranslatable("%s no longer has the expected shape.\n  expected: %r\n  found:    %r" % (fnname, wanted, got))


def expr_translator(env):
    fn = P.Fn("shape", ast.parse("def shape():\n    pass").body[0], dict(params={}))
    return fn, dict(env)


DEAD_TEST = "self.ref is None or self.ref() is None"


def getref_incr(mod, qual, proxyclass):
    """getRef: `if <dead>: ref = <proxyclass>(self); self.ref = weakref.ref(ref, self._refLost)`;
    `self.received_count += k`; `return self.ref()`  ->  Gallina text of the new received_count"""
    clsname, meth = qual.split(".")
    f = canon(inline_self_helpers(mod, clsname, resolve_method(mod, clsname, meth)))
    st = body_stmts(f)
    if len(st) != 3 or not isinstance(st[0], ast.If) or st[0].orelse:
        raise P.Untranslatable("%s: expected `if dead: ...; received_count += 1; return self.ref()`" % qual)
    if ast.unparse(st[0].test) != DEAD_TEST:
        raise P.Untranslatable("%s: the proxy is recreated under the test %r, expected %r (None or dead weakref)"
                               % (qual, ast.unparse(st[0].test), DEAD_TEST))
    expect(qual + " (recreate branch)", st[0].body, ["ref = %s(self)" % proxyclass, "self.ref = weakref.ref(ref, self._refLost)"])
    if ast.unparse(st[2]) != "return self.ref()":
        raise P.Untranslatable("%s: does not return self.ref()" % qual)
    a = st[1]
    if isinstance(a, ast.AugAssign) and ast.unparse(a.target) == "self.received_count":
        val = ast.BinOp(left=a.target, op=a.op, right=a.value)
    elif isinstance(a, ast.Assign) and len(a.targets) == 1 and ast.unparse(a.targets[0]) == "self.received_count":
        val = a.value
    else:
        raise P.Untranslatable("%s: second statement does not update self.received_count: %s" % (qual, ast.unparse(a)))
    fn, env = expr_translator({"self_received_count": P.Z})
    t, ty = fn.ex(val, env)
    fn.need(ty, P.Z, a)
    return t


def count_start(mod, attr):
    """`self.<attr> = count(n)` in Broker.initBroker -> n"""
    ib = P.find_def(mod, "Broker.initBroker")
    c = [s for s in ast.walk(ib) if isinstance(s, ast.Assign) and len(s.targets) == 1
         and ast.unparse(s.targets[0]) == "self." + attr]
    if len(c) != 1 or not isinstance(c[0].value, ast.Call) or ast.unparse(c[0].value.func) != "count" \
            or len(c[0].value.args) != 1 or not isinstance(c[0].value.args[0], ast.Constant) \
            or not isinstance(c[0].value.args[0].value, int):
        raise P.Untranslatable("initBroker: self.%s is not count(<int literal>)" % attr)
    return c[0].value.args[0].value


def update_passes(mod, cls, meth):
    """the update callback `cls.meth(self, obj, where)` of an unslicer: subscribed with addCallback(self.meth, ...) to the
    child Deferred itself somewhere in the class, obj never re-bound; -> True if every path ends in `return obj`, False if
    some path ends without a value / with None; other forms are not recognised"""
    fn = P.find_def(mod, "%s.%s" % (cls, meth))
    params = [a.arg for a in fn.args.args]
    if len(params) != 3 or params[0] != "self" or fn.args.vararg or fn.args.kwarg or fn.args.kwonlyargs:
        raise P.Untranslatable("%s.%s: expected (self, obj, where), found %r" % (cls, meth, params))
    obj = params[1]
    for n in ast.walk(fn):
        if isinstance(n, (ast.Name,)) and n.id == obj and not isinstance(n.ctx, ast.Load):
            raise P.Untranslatable("%s.%s re-binds its argument %s" % (cls, meth, obj))
        if isinstance(n, (ast.Yield, ast.YieldFrom, ast.Await, ast.Lambda)) or (isinstance(n, ast.FunctionDef) and n is not fn):
            raise P.Untranslatable("%s.%s: unrecognised construct %s" % (cls, meth, type(n).__name__))
    subs = 0
    c = P.find_class(mod, cls)
    for n in ast.walk(c):
        if isinstance(n, ast.Call) and isinstance(n.func, ast.Attribute) and n.func.attr == "addCallback" and n.args \
                and ast.unparse(n.args[0]) == "self." + meth:
            subs += 1
    if subs == 0:
        raise P.Untranslatable("%s no longer subscribes self.%s to the child's Deferred with addCallback" % (cls, meth))

    def ends(body):
        """-> set of the ways control can leave `body`: 'obj' (return obj), 'none' (return / return None / falls off the end of
        the function), 'next' (falls through to the following statement)"""
        out = {"next"}
        for st in body:
            if "next" not in out:
                break                       # (unreachable)
            out.discard("next")
            if isinstance(st, ast.Return):
                if st.value is None or (isinstance(st.value, ast.Constant) and st.value.value is None):
                    out.add("none")
                elif isinstance(st.value, ast.Name) and st.value.id == obj:
                    out.add("obj")
                else:
                    raise P.Untranslatable("%s.%s returns %s" % (cls, meth, ast.unparse(st.value)))
            elif isinstance(st, ast.If):
                out |= ends(st.body) | ends(st.orelse)
            elif isinstance(st, (ast.For, ast.While, ast.Try, ast.With, ast.Raise, ast.Match)):
                raise P.Untranslatable("%s.%s: unrecognised statement %s" % (cls, meth, type(st).__name__))
            else:
                out.add("next")
        return out
    e = ends(fn.body)
    if "next" in e:
        e.discard("next"); e.add("none")
    return e == {"obj"}


def generate():
    ref = P.load("referenceable.py")
    bro = P.load("broker.py")
    cal = P.load("call.py")
    out = [P.PRELUDE % dict(src="referenceable.py, broker.py, call.py")]

    # ---- ReferenceableTracker.send: refcount += 1; `return True` iff it became 1, otherwise falls off the end.
    # The implicit `return None` is translated as `return False`: the only callers use the result as a truth value.
    f = copy.deepcopy(P.find_def(ref, "ReferenceableTracker.send"))
    if not isinstance(f.body[-1], ast.Return):
        f.body.append(ast.Return(value=ast.Constant(value=False)))
    for n in ast.walk(f):
        if isinstance(n, ast.Return) and n.value is None:
            n.value = ast.Constant(value=False)
    ast.fix_missing_locations(f)
    spec = dict(params={}, ret=P.B, attrs={"refcount": P.Z}, returns_attrs=["refcount"])
    out.append("(* ReferenceableTracker.send : refcount -> (first time?, refcount') *)\n" + P.Fn("send", f, spec).emit())
    for qual in ("ReferenceableSlicer.slice", "CallableSlicer.sliceBody"):
        fn_ = P.find_def(ref, qual)
        uses = [n for n in ast.walk(fn_) if isinstance(n, ast.Name) and n.id == "firstTime"]
        asg = [n for n in ast.walk(fn_) if isinstance(n, ast.Assign) and ast.unparse(n) == "firstTime = tracker.send()"]
        tests = [n for n in ast.walk(fn_) if isinstance(n, ast.If) and ast.unparse(n.test) == "firstTime"]
        if len(asg) != 1 or len(tests) != 1 or len(uses) != 2:
            raise P.Untranslatable("%s: the result of tracker.send() is no longer used only as `if firstTime:`" % qual)
    # the clid put on the wire is the tracker's, obtained by object identity (puid), and send() is called once per emission
    sl = P.find_def(ref, "ReferenceableSlicer.slice")
    src_sl = ast.unparse(sl)
    for frag in ("puid = ipb.IReferenceable(self.obj).processUniqueID()",
                 "tracker = broker.getTrackerForMyReference(puid, self.obj)",
                 "yield b'my-reference'\n        yield tracker.clid\n        firstTime = tracker.send()"):
        if frag not in src_sl:
            raise P.Untranslatable("ReferenceableSlicer.slice no longer contains: " + frag)
    if src_sl.count("tracker.send()") != 1:
        raise P.Untranslatable("ReferenceableSlicer.slice calls tracker.send() %d times" % src_sl.count("tracker.send()"))

    # ---- WHEN the long form (interface name + FURL) of a my-reference is sent: only inside `if firstTime:` (both slicers),
    # or unconditionally; and the receiver uses interface name / URL only to construct a NEW tracker
    forms = set()
    for qual in ("ReferenceableSlicer.slice", "CallableSlicer.sliceBody"):
        fn_ = P.find_def(ref, qual)
        ifs = [n for n in ast.walk(fn_) if isinstance(n, ast.If) and ast.unparse(n.test) == "firstTime"]
        inside = ast.unparse(ast.Module(body=ifs[0].body, type_ignores=[])) if len(ifs) == 1 and not ifs[0].orelse else ""
        whole = ast.unparse(fn_)
        want = ["url = tracker.getURL()", "if url:\n    yield six.ensure_binary(url)"]
        if all(w in inside for w in want) and all(whole.count(w.split("\n")[0]) == 1 for w in want):
            forms.add("LongWhenFirst")
        elif not ifs and all(w.replace("\n    ", "\n        ") in whole or w in whole for w in want):
            forms.add("LongAlways")
        else:
            raise P.Untranslatable("%s: cannot tell when the interface name / FURL of a my-reference is sent" % qual)
    if len(forms) != 1:
        raise P.Untranslatable("ReferenceableSlicer and CallableSlicer disagree about when the FURL is sent: %r" % sorted(forms))
    out.append("(* when does a my-reference carry the interface name and the FURL (ReferenceableSlicer.slice, CallableSlicer.sliceBody) *)\n"
               "Inductive longform := LongWhenFirst | LongAlways.\nDefinition myref_long_form : longform := %s." % forms.pop())
    ru = ast.unparse(P.find_def(ref, "ReferenceUnslicer.receiveClose"))
    if "tracker = self.broker.getTrackerForYourReference(self.clid, self.interfaceName, self.url)" not in ru:
        raise P.Untranslatable("ReferenceUnslicer.receiveClose no longer passes interfaceName and url to getTrackerForYourReference")
    gy = P.find_def(bro, "Broker.getTrackerForYourReference")
    news = [n for n in ast.walk(gy) if isinstance(n, ast.If) and ast.unparse(n.test) == "not tracker"]
    if len(news) != 1 or "tracker = trackerclass(self, clid, url, interfaceName)" not in ast.unparse(news[0]):
        raise P.Untranslatable("getTrackerForYourReference: the tracker is no longer constructed from (clid, url, interfaceName) inside `if not tracker:`")
    outside = copy.deepcopy(gy)
    for n in ast.walk(outside):
        if isinstance(n, ast.If) and ast.unparse(n.test) == "not tracker":
            n.body = [ast.Pass()]
    uses = [n for n in ast.walk(outside) if isinstance(n, ast.Name) and n.id in ("url", "interfaceName") and isinstance(n.ctx, ast.Load)
            and not any(isinstance(a, ast.Assert) and n in ast.walk(a) for a in ast.walk(outside))]
    # (outside the construction, url / interfaceName are only type-checked: `assert type(...)`, `if url is not None: assert ...`)
    for n in uses:
        ok_ = False
        for a in ast.walk(outside):
            if isinstance(a, ast.If) and n in ast.walk(a.test) and all(isinstance(b, ast.Assert) for b in a.body) and not a.orelse:
                ok_ = True
        if not ok_:
            raise P.Untranslatable("getTrackerForYourReference uses %s outside the construction of a new tracker" % n.id)

    # ---- ReferenceableTracker.decref
    spec = dict(params={"count": P.Z}, ret=P.B, attrs={"refcount": P.Z}, returns_attrs=["refcount"])
    out.append("(* ReferenceableTracker.decref : count -> refcount -> (went to zero?, refcount') | AssertionError *)\n"
               + P.translate_function("referenceable.py", "ReferenceableTracker.decref", "decref", spec))

    # ---- getRef (both tracker classes; D15 was: the method-reference class lacked the dead-weakref test)
    out.append("Definition getRef_incr (self_received_count : Z) : Z := %s."
               % getref_incr(ref, "RemoteReferenceTracker.getRef", "RemoteReference"))
    out.append("Definition getRef_incr_method (self_received_count : Z) : Z := %s."
               % getref_incr(ref, "RemoteMethodReferenceTracker.getRef", "RemoteMethodReference"))
    rl = P.find_def(ref, "RemoteReferenceTracker._refLost")
    expect("RemoteReferenceTracker._refLost", body_stmts(rl), ["eventually(self._handleRefLost)"])

    # ---- _handleRefLost
    h = canon(inline_self_helpers(ref, "RemoteReferenceTracker", P.find_def(ref, "RemoteReferenceTracker._handleRefLost")))
    st = body_stmts(h)
    if len(st) != 1 or not isinstance(st[0], ast.If) or st[0].orelse or ast.unparse(st[0].test) != DEAD_TEST:
        raise P.Untranslatable("_handleRefLost: expected a single `if %s:`" % DEAD_TEST)
    b = body_stmts(ast.FunctionDef(body=st[0].body))
    if len(b) != 3:
        raise P.Untranslatable("_handleRefLost: expected 3 statements in the dead branch, found %d" % len(b))
    a = b[0]
    if not (isinstance(a, ast.Assign) and len(a.targets) == 1 and isinstance(a.targets[0], ast.Tuple)
            and [ast.unparse(t) for t in a.targets[0].elts] == ["count", "self.received_count"]
            and isinstance(a.value, ast.Tuple) and len(a.value.elts) == 2):
        raise P.Untranslatable("_handleRefLost: expected `count, self.received_count = <e1>, <e2>`, found " + ast.unparse(a))
    fn, env = expr_translator({"self_received_count": P.Z})
    e1, t1 = fn.ex(a.value.elts[0], env)
    e2, t2 = fn.ex(a.value.elts[1], env)
    fn.need(t1, P.Z, a); fn.need(t2, P.Z, a)
    out.append("(* _handleRefLost: `%s`  ->  (count, received_count') *)\n"
               "Definition handleRefLost_assign (self_received_count : Z) : Z * Z := (%s, %s)." % (ast.unparse(a), e1, e2))
    g = b[1]
    if not (isinstance(g, ast.If) and not g.orelse and len(g.body) == 1 and isinstance(g.body[0], ast.Return)
            and g.body[0].value is None):
        raise P.Untranslatable("_handleRefLost: expected `if <test on count>: return`, found " + ast.unparse(g))
    fn, env = expr_translator({"count": P.Z})
    out.append("Definition handleRefLost_skip (count : Z) : bool := %s." % fn.cond(g.test, env))
    if ast.unparse(b[2]) != "self.broker.freeYourReference(self, count)":
        raise P.Untranslatable("_handleRefLost: expected self.broker.freeYourReference(self, count), found " + ast.unparse(b[2]))

    # ---- Broker.freeYourReference: decref(clid=tracker.clid, count=count) as a call with answer; the tracker is
    # released by freeYourReferenceTracker when the answer arrives
    fy = P.find_def(bro, "Broker.freeYourReference")
    src_fy = ast.unparse(fy)
    for frag in ("d = rb.callRemote('decref', clid=tracker.clid, count=count)",
                 "d.addCallback(self.freeYourReferenceTracker, tracker)",
                 "if not self.remote_broker:\n        self.freeYourReferenceTracker(None, tracker)\n        return"):
        if frag not in src_fy:
            raise P.Untranslatable("Broker.freeYourReference no longer contains: " + frag)

    # ---- Broker.freeYourReferenceTracker
    ft = canon(P.find_def(bro, "Broker.freeYourReferenceTracker"), cached_from="tracker")
    st = body_stmts(ft)
    if len(st) != 3 or not all(isinstance(s, ast.If) and not s.orelse for s in st):
        raise P.Untranslatable("freeYourReferenceTracker: expected three `if` statements")
    if not (len(st[0].body) == 1 and isinstance(st[0].body[0], ast.Return) and st[0].body[0].value is None):
        raise P.Untranslatable("freeYourReferenceTracker: first statement is not `if <test>: return`")

    class Rw(ast.NodeTransformer):
        def visit_Attribute(self, node):
            if ast.unparse(node) == "tracker.received_count":
                return ast.copy_location(ast.Name(id="received_count", ctx=ast.Load()), node)
            return self.generic_visit(node)
    test = Rw().visit(copy.deepcopy(st[0].test))
    fn, env = expr_translator({"received_count": P.Z})
    out.append("(* freeYourReferenceTracker: `if %s: return` *)\n"
               "Definition freeTracker_keeps (received_count : Z) : bool := %s." % (ast.unparse(st[0].test), fn.cond(test, env)))
    out.append("Inductive delkey := DelByClid | DelByIdentity.")
    if ast.unparse(st[1]) == "if tracker.clid in self.yourReferenceByCLID:\n    del self.yourReferenceByCLID[tracker.clid]":
        # the rule before ab72d65 (D16): still translated, so that the model can be evaluated against such a tree; RefsProofs.same_proxy
        # (`eq_refl : freeTracker_delkey = DelByIdentity`) no longer type-checks then
        out.append("(* the import-table entry is deleted by the tracker's clid, whichever tracker is registered there (D16) *)\n"
                   "Definition freeTracker_delkey : delkey := DelByClid.")
    elif ast.unparse(st[1]) in (
            "if self.yourReferenceByCLID.get(tracker.clid) is tracker:\n    del self.yourReferenceByCLID[tracker.clid]",
            "if self.yourReferenceByCLID.get(tracker.clid, None) is tracker:\n    del self.yourReferenceByCLID[tracker.clid]"):
        out.append("(* the import-table entry is deleted only if it still is the answered tracker (fix ab72d65) *)\n"
                   "Definition freeTracker_delkey : delkey := DelByIdentity.")
    else:
        raise P.Untranslatable("freeYourReferenceTracker: unexpected deletion from yourReferenceByCLID: " + ast.unparse(st[1]))

    # ---- Broker.getTrackerForYourReference: lookup by clid, create + register when absent
    gy = canon(P.find_def(bro, "Broker.getTrackerForYourReference"))
    gy.body = guard_to_branch(body_stmts(gy), "tracker")
    inline_tracker_factory(bro, gy)
    st = [None] + body_stmts(gy)          # (assert-only statements are dropped by R5)
    if len(st) != 4 or ast.unparse(st[1]) not in ("tracker = self.yourReferenceByCLID.get(clid)", "tracker = self.yourReferenceByCLID.get(clid, None)") \
            or not isinstance(st[2], ast.If) or ast.unparse(st[2].test) != "not tracker" or st[2].orelse \
            or ast.unparse(st[3]) != "return tracker":
        raise P.Untranslatable("getTrackerForYourReference: unexpected shape")
    src_b = [ast.unparse(s) for s in st[2].body]
    for frag in ("tracker = trackerclass(self, clid, url, interfaceName)", "self.yourReferenceByCLID[clid] = tracker"):
        if frag not in src_b:
            raise P.Untranslatable("getTrackerForYourReference no longer contains: " + frag)
    ru = P.find_def(ref, "ReferenceUnslicer.receiveClose")
    src_ru = ast.unparse(ru)
    if "tracker = self.broker.getTrackerForYourReference(self.clid, self.interfaceName, self.url)" not in src_ru \
            or "return (tracker.getRef(), None)" not in src_ru:
        raise P.Untranslatable("ReferenceUnslicer.receiveClose: unexpected shape")

    # ---- Broker.getTrackerForMyReference: lookup by puid; fresh clid from nextCLID; registered in both tables
    gm = canon(P.find_def(bro, "Broker.getTrackerForMyReference"))
    st = body_stmts(gm)
    if len(st) != 3 or ast.unparse(st[0]) not in ("tracker = self.myReferenceByPUID.get(puid)", "tracker = self.myReferenceByPUID.get(puid, None)") \
            or not isinstance(st[1], ast.If) or ast.unparse(st[1].test) != "not tracker" or st[1].orelse \
            or ast.unparse(st[2]) != "return tracker":
        raise P.Untranslatable("getTrackerForMyReference: unexpected shape")
    expect("getTrackerForMyReference (create branch)", st[1].body,
           ["clid = next(self.nextCLID)", "tracker = referenceable.ReferenceableTracker(self.tub, obj, puid, clid)",
            "self.myReferenceByPUID[puid] = tracker", "self.myReferenceByCLID[clid] = tracker"])
    init = P.find_def(ref, "ReferenceableTracker.__init__")
    if "self.refcount = 0" not in [ast.unparse(s) for s in init.body] or "self.clid = clid" not in [ast.unparse(s) for s in init.body]:
        raise P.Untranslatable("ReferenceableTracker.__init__: refcount no longer starts at 0 / clid not stored")
    rinit = P.find_def(ref, "RemoteReferenceTracker.__init__")
    rs = [ast.unparse(s) for s in rinit.body]
    if "self.received_count = 0" not in rs or "self.ref = None" not in rs or "self.clid = clid" not in rs:
        raise P.Untranslatable("RemoteReferenceTracker.__init__: unexpected initial state")
    out.append("Definition first_clid : Z := %d." % count_start(bro, "nextCLID"))
    # bound methods (CallableSlicer -> getTrackerForMyCall) get the NEGATED next clid, in the same tables and from the same counter
    mc = ast.unparse(P.find_def(bro, "Broker.getTrackerForMyCall"))
    if "tracker = self.myReferenceByPUID.get(puid" not in mc or not ((("clid = next(self.nextCLID)" in mc) and ("clid = -clid" in mc))
                                                                    or "-next(self.nextCLID)" in mc):
        raise P.Untranslatable("getTrackerForMyCall: the clid of a bound method is no longer the negated next(self.nextCLID)")
    if mc.count("next(self.nextCLID)") != 1:
        raise P.Untranslatable("getTrackerForMyCall draws %d clids" % mc.count("next(self.nextCLID)"))
    cs = ast.unparse(P.find_def(ref, "CallableSlicer.sliceBody"))
    if "tracker = broker.getTrackerForMyCall(puid, self.obj)" not in cs or "yield tracker.clid" not in cs:
        raise P.Untranslatable("CallableSlicer.sliceBody: unexpected shape")
    out.append("(* getTrackerForMyCall: `clid = next(self.nextCLID); clid = -clid` *)\nDefinition callable_clid (n : Z) : Z := (Z.opp n).")
    out.append("Definition first_reqid : Z := %d." % count_start(bro, "nextReqID"))
    nr = P.find_def(bro, "Broker.newRequestID")
    if "return next(self.nextReqID)" not in ast.unparse(nr):
        raise P.Untranslatable("newRequestID: unexpected shape")

    # ---- Broker.remote_decref
    rd = canon(P.find_def(bro, "Broker.remote_decref"), cached_from="tracker")
    st = body_stmts(rd)
    expect("Broker.remote_decref", st,
           ["tracker = self.myReferenceByCLID.get(clid, None)", "if not tracker:\n    return",
            "if tracker.decref(count):\n    del self.myReferenceByPUID[tracker.puid]\n    del self.myReferenceByCLID[clid]"])

    # ---- your-reference and call targets are resolved through the export table, by clid
    gc_ = P.find_def(bro, "Broker.getMyReferenceByCLID")
    st = body_stmts(gc_)
    expect("Broker.getMyReferenceByCLID", st, ["if clid == 0:\n    return self", "return self.myReferenceByCLID[clid].obj"])
    yu = P.find_def(ref, "YourReferenceUnslicer.receiveClose")
    if "obj = self.broker.getMyReferenceByCLID(self.clid)" not in ast.unparse(yu) or "return (obj, None)" not in ast.unparse(yu):
        raise P.Untranslatable("YourReferenceUnslicer.receiveClose: unexpected shape")
    ys = P.find_def(ref, "YourReferenceSlicer.slice")
    # which test decides that a proxy is "going home" (sent as a bare `your-reference <clid>`, meaningful only in the
    # export table of ONE connection) rather than as a gift (`their-reference <giftID> <furl>`)
    src_ys = ast.unparse(ys)
    if "tracker = self.obj.tracker" not in src_ys:
        raise P.Untranslatable("YourReferenceSlicer.slice: unexpected shape")
    homes = [n for n in ast.walk(ys) if isinstance(n, ast.If)
             and [ast.unparse(x) for x in n.body[:2]] == ["yield b'your-reference'", "yield tracker.clid"]]
    if len(homes) != 1 or len(homes[0].body) != 2 or "yield b'their-reference'" not in ast.unparse(ast.Module(body=homes[0].orelse, type_ignores=[])):
        raise P.Untranslatable("YourReferenceSlicer.slice: expected `if <home test>: yield b'your-reference'; yield tracker.clid else: ... their-reference`")
    if src_ys.count("yield b'your-reference'") != 1:
        raise P.Untranslatable("YourReferenceSlicer.slice: your-reference is emitted in more than one place")
    test = ast.unparse(homes[0].test)
    HOME = {"tracker.broker == broker": "HomeSameConnection", "tracker.broker is broker": "HomeSameConnection",
            "broker == tracker.broker": "HomeSameConnection", "broker is tracker.broker": "HomeSameConnection",
            "tracker.broker.remote_tubref == broker.remote_tubref": "HomeSamePeerTub",
            "broker.remote_tubref == tracker.broker.remote_tubref": "HomeSamePeerTub"}
    if test not in HOME:
        raise P.Untranslatable("YourReferenceSlicer.slice: unrecognised going-home test: " + test)
    out.append("Inductive homekey := HomeSameConnection | HomeSamePeerTub.")
    out.append("(* YourReferenceSlicer.slice: `if %s:` -> bare your-reference <clid>, else gift *)\n"
               "Definition yourref_homekey : homekey := %s." % (test, HOME[test]))
    cu = P.find_def(cal, "CallUnslicer.receiveChild")
    if "self.obj = self.broker.getMyReferenceByCLID(token)" not in ast.unparse(cu):
        raise P.Untranslatable("CallUnslicer.receiveChild no longer resolves the target with getMyReferenceByCLID")
    cr = P.find_def(ref, "RemoteReference._callRemote")
    if "clid = self.tracker.clid" not in ast.unparse(cr) or "slicer = call.CallSlicer(reqID, clid, methodName, args, kwargs)" not in ast.unparse(cr):
        raise P.Untranslatable("RemoteReference._callRemote no longer addresses the call with self.tracker.clid")

    # ---- util.AsyncAND: the barrier on which a container / a call waits until every gift inside it has been introduced.
    # Shape: where is `remaining` established relative to the subscriptions (an input that has ALREADY fired runs its
    # callback synchronously inside addCallbacks)
    ut = P.load("util.py")
    ai = P.find_def(ut, "AsyncAND.__init__")
    loops = [n for n in ai.body if isinstance(n, ast.For)]
    if len(loops) != 1 or "addCallbacks(self._cbDeferred, self._cbDeferred" not in ast.unparse(loops[0]):
        raise P.Untranslatable("AsyncAND.__init__: expected one loop subscribing _cbDeferred to every input")
    pre = [ast.unparse(x) for x in ai.body[:ai.body.index(loops[0])]]
    inloop = [ast.unparse(x) for x in loops[0].body]
    if "self.remaining = len(deferredList)" in pre and not any("self.remaining" in x for x in inloop):
        andinit = "CountBeforeSubscribing"
        if not any(x.startswith("if not deferredList:") and "self.callback(None)" in x and "return" in x for x in pre):
            raise P.Untranslatable("AsyncAND.__init__: the empty list no longer fires at once")
    elif "self.remaining = 0" in pre and "self.remaining += 1" in inloop and inloop.index("self.remaining += 1") == 0:
        andinit = "CountWhileSubscribing"
    else:
        raise P.Untranslatable("AsyncAND.__init__: unrecognised way of counting the inputs: %r / %r" % (pre, inloop))
    out.append("Inductive andinit := CountBeforeSubscribing | CountWhileSubscribing.")
    out.append("Definition asyncand_init : andinit := %s." % andinit)
    cbd = P.find_def(ut, "AsyncAND._cbDeferred")
    st = body_stmts(cbd)
    if len(st) != 2 or ast.unparse(st[0]) != "self.remaining -= 1" or not isinstance(st[1], ast.If) \
            or ast.unparse(st[1].test) != "succeeded" or not isinstance(st[1].body[0], ast.If) \
            or ast.unparse(st[1].body[0].test) != "not self._fired and self.remaining == 0" \
            or "self.callback(None)" not in ast.unparse(st[1].body[0]):
        raise P.Untranslatable("AsyncAND._cbDeferred: unexpected shape")
    # who waits on it: containers and calls combine the ready_deferreds of their children with AsyncAND
    for rel, qual in (("call.py", "CallUnslicer.receiveClose"), ("call.py", "ArgumentUnslicer.receiveClose"),
                      ("slicers/tuple.py", "TupleUnslicer.receiveClose")):
        if "AsyncAND(" not in ast.unparse(P.find_def(P.load(rel), qual)):
            raise P.Untranslatable("%s no longer waits for its children with AsyncAND" % qual)

    # ---- one placeholder Deferred in several places.  A value the receiver cannot build yet (a tuple holding a gift) is handed
    # to every parent that contains it -- directly, and again through each banana back-reference -- as ONE Deferred; each
    # parent subscribes its update callback to that Deferred, and Twisted passes every callback what the previous one
    # RETURNED.  Read per kind of parent: is the callback subscribed to the Deferred itself, and does it return its argument
    # on every path (true) or can it end without returning it (false)?  Anything else fails closed.
    for coqname, rel, cls, meth in (("list", "slicers/list.py", "ListUnslicer", "update"), ("tuple", "slicers/tuple.py", "TupleUnslicer", "update"),
                                    ("set", "slicers/set.py", "SetUnslicer", "update"), ("dict", "slicers/dict.py", "DictUnslicer", "update"),
                                    ("arg", "call.py", "ArgumentUnslicer", "updateChild")):
        mod = P.load(rel)
        out.append("(* %s.%s returns the resolved object to the next callback of the shared Deferred *)\n"
                   "Definition update_passes_%s : bool := %s." % (cls, meth, coqname, "true" if update_passes(mod, cls, meth) else "false"))

    # ---- Broker.makeGift / remote_decgift: the gift table entry holds the proxy itself (a strong reference) next to the
    # count, from makeGift until the count returns to zero
    mg = P.find_def(bro, "Broker.makeGift")
    stores = [n for n in ast.walk(mg) if isinstance(n, ast.Assign) and len(n.targets) == 1
              and ast.unparse(n.targets[0]).startswith("self.myGifts[")]
    if len(stores) != 2 or not all(isinstance(n.value, ast.Tuple) for n in stores):
        raise P.Untranslatable("makeGift: expected two stores of a tuple into self.myGifts[...]")
    has = [any(isinstance(x, ast.Name) and x.id == "rref" for x in n.value.elts) for n in stores]
    if all(has):
        pins = "true"
    elif not any(has):
        pins = "false"
    else:
        raise P.Untranslatable("makeGift: only one of the two gift-table stores holds the proxy")
    counts = [ast.unparse(n.value.elts[-1]) for n in stores]
    if sorted(counts) != ["1", "count + 1"]:
        raise P.Untranslatable("makeGift: unexpected gift counts %r" % (counts,))
    dg = ast.unparse(P.find_def(bro, "Broker.remote_decgift"))
    if "gift_count -= count" not in dg or "if gift_count == 0:" not in dg or "del self.myGifts[" not in dg:
        raise P.Untranslatable("remote_decgift: unexpected shape")
    out.append("(* makeGift stores the proxy in the gift table entry: %s *)\nDefinition gift_table_pins_proxy : bool := %s."
               % (", ".join(ast.unparse(n.value) for n in stores), pins))

    # ---- finish(): which tables are emptied on connection loss
    fi = P.find_def(bro, "Broker.finish")
    cleared = [ast.unparse(s.targets[0])[5:] for s in fi.body if isinstance(s, ast.Assign) and len(s.targets) == 1
               and ast.unparse(s.targets[0]).startswith("self.") and isinstance(s.value, ast.Dict) and not s.value.keys]
    for t in ("myReferenceByPUID", "myReferenceByCLID", "yourReferenceByCLID", "yourReferenceByURL", "myGifts", "myGiftsByGiftID"):
        out.append("Definition finish_clears_%s : bool := %s." % (t, "true" if t in cleared else "false"))
    # finish() also drops the inbound calls that were parsed but never run, with their activeLocalCalls entries
    # (fix 30b3768): `for (delivery, ready_deferred) in self.inboundDeliveryQueue: self.activeLocalCalls.pop(delivery.reqID, None)`
    # followed (anywhere later at top level of finish) by `self.inboundDeliveryQueue = []`
    top = [ast.unparse(s) for s in fi.body]
    pops = [i for i, t in enumerate(top) if t in (
        "for delivery, ready_deferred in self.inboundDeliveryQueue:\n    self.activeLocalCalls.pop(delivery.reqID, None)",
        "for (delivery, ready_deferred) in self.inboundDeliveryQueue:\n    self.activeLocalCalls.pop(delivery.reqID, None)")]
    empt = [i for i, t in enumerate(top) if t == "self.inboundDeliveryQueue = []"]
    drops = len(pops) == 1 and len(empt) == 1 and pops[0] < empt[0]
    if not drops and any("inboundDeliveryQueue" in t or "activeLocalCalls" in t for t in top):
        raise P.Untranslatable("Broker.finish: unrecognised handling of inboundDeliveryQueue / activeLocalCalls")
    out.append("Definition finish_drops_undelivered_calls : bool := %s." % ("true" if drops else "false"))
    # where the two call tables are filled / emptied (lib/Conn.v): the entry of activeLocalCalls is made when the request id
    # of an inbound call has been parsed (unless it is 0), the call is queued by scheduleCall and taken off by doNextCall,
    # which does nothing once the Broker is disconnected
    cu0 = ast.unparse(P.find_def(cal, "CallUnslicer.receiveChild"))
    if "if self.reqID != 0:" not in cu0 or "self.broker.activeLocalCalls[self.reqID] = self" not in cu0:
        raise P.Untranslatable("CallUnslicer.receiveChild no longer registers the call in activeLocalCalls when reqID != 0")
    if "self.inboundDeliveryQueue.append((delivery, ready_deferred))" not in ast.unparse(P.find_def(bro, "Broker.scheduleCall")):
        raise P.Untranslatable("Broker.scheduleCall no longer appends to inboundDeliveryQueue")
    dn = [ast.unparse(x) for x in body_stmts(P.find_def(bro, "Broker.doNextCall"))]
    if dn[:1] != ["if self.disconnected:\n    return"] or "delivery, ready_deferred = self.inboundDeliveryQueue.pop(0)" not in dn:
        raise P.Untranslatable("Broker.doNextCall: unexpected shape")
    cl = P.find_def(bro, "Broker.connectionLost")
    if "self.finish(why)" not in [ast.unparse(s) for s in cl.body]:
        raise P.Untranslatable("Broker.connectionLost no longer calls self.finish(why)")
    # every way of giving a connection up goes through finish(): shutdown() (Tub.stopService, duplicate connections) calls it
    # BEFORE asking the transport to close, the inactivity timer calls shutdown()
    sh = [ast.unparse(x) for x in body_stmts(P.find_def(bro, "Broker.shutdown"))]
    if "self.finish(why)" not in sh or "self.transport.loseConnection()" not in sh \
            or sh.index("self.finish(why)") > sh.index("self.transport.loseConnection()"):
        raise P.Untranslatable("Broker.shutdown no longer calls self.finish(why) before closing the transport")
    if "self.shutdown(why)" not in [ast.unparse(x) for x in body_stmts(P.find_def(bro, "Broker.connectionTimedOut"))]:
        raise P.Untranslatable("Broker.connectionTimedOut no longer calls self.shutdown(why)")
    out += gifts_part(ref, bro)
    return {"RefsGen.v": "\n\n".join(out) + "\n"}


# ---------------------------------------------------------------------------------------------------------------
# third-party introductions (lib/Gifts.v): makeGift / remote_decgift statement by statement, the key of the gift table, the
# acknowledgement (what, when), the owner's name table
def gifts_part(ref, bro):
    out = []
    mg = canon_makegift(canon(P.find_def(bro, "Broker.makeGift")))
    st = body_stmts(mg)
    KEYS = {"i = (rref.tracker.broker, rref.tracker.clid)": "KeyBrokerClid", "i = (rref.tracker.clid, rref.tracker.broker)": "KeyBrokerClid"}
    KEYS["i = rref.tracker.clid"] = "KeyClid"
    if len(st) == 4 and ast.unparse(st[0]) in KEYS:
        kind, keyexpr_m = KEYS[ast.unparse(st[0])], "i"
        st = st[1:]
    elif len(st) == 3 and ast.unparse(st[0]) in ("old = self.myGifts.get(rref.tracker.clid)", "old = self.myGifts.get(rref.tracker.clid, None)"):
        kind, keyexpr_m = "KeyClid", "rref.tracker.clid"
    else:
        raise P.Untranslatable("makeGift: unrecognised gift-table key / shape: %r" % ([ast.unparse(x) for x in st],))
    out.append("Inductive giftkey := KeyBrokerClid | KeyClid.")
    out.append("(* makeGift: the table is indexed by %s *)\nDefinition gift_key_kind : giftkey := %s."
               % ({"KeyBrokerClid": "(rref.tracker.broker, rref.tracker.clid)", "KeyClid": "rref.tracker.clid"}[kind], kind))
    if ast.unparse(st[0]) not in ("old = self.myGifts.get(%s)" % keyexpr_m, "old = self.myGifts.get(%s, None)" % keyexpr_m):
        raise P.Untranslatable("makeGift: the entry is no longer looked up with self.myGifts.get(<key>): " + ast.unparse(st[0]))
    br = st[1]
    if not isinstance(br, ast.If) or ast.unparse(br.test) != "old" or ast.unparse(st[2]) != "return giftID":
        raise P.Untranslatable("makeGift: expected `if old: ... else: ...; return giftID`")
    again, first = body_stmts(ast.FunctionDef(body=br.body)), body_stmts(ast.FunctionDef(body=br.orelse))

    def entry_tuple(stmt, where):
        if not (isinstance(stmt, ast.Assign) and len(stmt.targets) == 1 and ast.unparse(stmt.targets[0]) == "self.myGifts[%s]" % keyexpr_m
                and isinstance(stmt.value, ast.Tuple) and len(stmt.value.elts) in (2, 3)):
            raise P.Untranslatable("makeGift (%s): expected a store of a tuple into self.myGifts[i], found %s" % (where, ast.unparse(stmt)))
        names = [ast.unparse(e) for e in stmt.value.elts[:-1]]
        if names not in (["rref", "giftID"], ["giftID"]):
            raise P.Untranslatable("makeGift (%s): unexpected entry layout %r" % (where, names))
        return names, stmt.value.elts[-1]
    if len(again) != 2 or len(first) != 3:
        raise P.Untranslatable("makeGift: unexpected number of statements in the branches")
    n1, cnt_again = entry_tuple(again[1], "entry exists")
    n2, cnt_first = entry_tuple(first[2], "new entry")
    unpack = ", ".join(n1 + ["count"]) + " = old"
    if ast.unparse(again[0]) != unpack:
        raise P.Untranslatable("makeGift (entry exists): expected `%s`, found %s" % (unpack, ast.unparse(again[0])))
    if n1 != n2:
        raise P.Untranslatable("makeGift: the two stores use different entry layouts")
    expect("makeGift (new entry)", first[:2], ["giftID = next(self.nextGiftID)", "self.myGiftsByGiftID[giftID] = %s" % keyexpr_m])
    fn, env = expr_translator({"count": P.Z})
    e1, t1 = fn.ex(cnt_again, env)
    fn.need(t1, P.Z, cnt_again)
    fn, env = expr_translator({})
    e2, t2 = fn.ex(cnt_first, env)
    fn.need(t2, P.Z, cnt_first)
    out.append("(* makeGift, entry exists: `%s` *)\nDefinition makeGift_again (count : Z) : Z := %s." % (ast.unparse(again[1]), e1))
    out.append("(* makeGift, new entry: `%s` *)\nDefinition makeGift_first : Z := %s." % (ast.unparse(first[2]), e2))
    out.append("Definition first_giftid : Z := %d." % count_start(bro, "nextGiftID"))

    # ---- remote_decgift
    dg = canon_decgift(canon(P.find_def(bro, "Broker.remote_decgift")))
    st = body_stmts(dg)
    if len(st) != 4:
        raise P.Untranslatable("remote_decgift: expected 4 statements")
    keyvars = {"KeyBrokerClid": "broker, clid", "KeyClid": "clid"}[kind]
    keyexpr = {"KeyBrokerClid": "broker, clid", "KeyClid": "clid"}[kind]
    if isinstance(st[0], ast.Assign) and len(st[0].targets) == 1 and isinstance(st[0].targets[0], ast.Name) \
            and ast.unparse(st[0].value) == "self.myGiftsByGiftID[giftID]":
        keyvars = keyexpr = st[0].targets[0].id           # the key is kept in one local, whatever its shape
    expect("remote_decgift (lookup)", st[:2], ["%s = self.myGiftsByGiftID[giftID]" % keyvars,
                                               "%s = self.myGifts[%s]" % (", ".join(n1 + ["gift_count"]), keyexpr)])
    a = st[2]
    if isinstance(a, ast.AugAssign) and ast.unparse(a.target) == "gift_count":
        val = ast.BinOp(left=ast.Name(id="gift_count", ctx=ast.Load()), op=a.op, right=a.value)
    elif isinstance(a, ast.Assign) and len(a.targets) == 1 and ast.unparse(a.targets[0]) == "gift_count":
        val = a.value
    else:
        raise P.Untranslatable("remote_decgift: third statement does not update gift_count: " + ast.unparse(a))
    ast.fix_missing_locations(val)
    fn, env = expr_translator({"gift_count": P.Z, "count": P.Z})
    e, t = fn.ex(val, env)
    fn.need(t, P.Z, a)
    out.append("(* remote_decgift: `%s` *)\nDefinition decgift_sub (gift_count count : Z) : Z := %s." % (ast.unparse(a), e))
    g = st[3]
    if not isinstance(g, ast.If) or not g.orelse:
        raise P.Untranslatable("remote_decgift: expected `if <done>: delete both entries else: store the new count`")
    expect("remote_decgift (done branch)", body_stmts(ast.FunctionDef(body=g.body)),
           ["del self.myGiftsByGiftID[giftID]", "del self.myGifts[%s]" % keyexpr])
    expect("remote_decgift (else branch)", body_stmts(ast.FunctionDef(body=g.orelse)),
           ["self.myGifts[%s] = (%s)" % (keyexpr, ", ".join(n1 + ["gift_count"]))])
    fn, env = expr_translator({"gift_count": P.Z})
    out.append("(* remote_decgift: `if %s:` *)\nDefinition decgift_done (gift_count : Z) : bool := %s." % (ast.unparse(g.test), fn.cond(g.test, env)))

    # ---- the recipient: TheirReferenceUnslicer.receiveClose / ackGift
    rc_ = P.find_def(ref, "TheirReferenceUnslicer.receiveClose")
    acc = [n for n in rc_.body if isinstance(n, ast.If) and ast.unparse(n.test) == "self.broker.tub.accept_gifts"]
    if len(acc) != 1:
        raise P.Untranslatable("TheirReferenceUnslicer.receiveClose: expected one `if self.broker.tub.accept_gifts:`")
    inner = [ast.unparse(s) for s in body_stmts(ast.FunctionDef(body=acc[0].body))]
    calls_ack = [n for n in ast.walk(rc_) if isinstance(n, ast.Attribute) and n.attr == "ackGift"]
    if inner == ["d = self.broker.tub.getReference(self.url)", "d.addBoth(self.ackGift)"] and len(calls_ack) == 1:
        point = "AckAfterLookup"
    elif len(inner) >= 2 and inner[-1] == "d = self.broker.tub.getReference(self.url)" and len(calls_ack) == 1 \
            and all(x.startswith("self.ackGift(") for x in inner[:-1]):
        point = "AckAtReceipt"
    elif inner[:1] == ["d = self.broker.tub.getReference(self.url)"] and len(calls_ack) == 1 and len(inner) == 2 \
            and inner[1].startswith("self.ackGift("):
        point = "AckAtReceipt"
    else:
        raise P.Untranslatable("TheirReferenceUnslicer.receiveClose: unrecognised relation between tub.getReference and ackGift: %r" % (inner,))
    out.append("Inductive ackpoint := AckAfterLookup | AckAtReceipt.")
    out.append("(* TheirReferenceUnslicer.receiveClose: %s *)\nDefinition gift_ack_point : ackpoint := %s." % ("; ".join(inner), point))
    if "return (obj_deferred, ready_deferred)" not in ast.unparse(rc_) or "d.addCallbacks(_ready, _failed)" not in ast.unparse(rc_):
        raise P.Untranslatable("TheirReferenceUnslicer.receiveClose: the gift is no longer delivered through obj_deferred/ready_deferred")
    ag = P.find_def(ref, "TheirReferenceUnslicer.ackGift")
    st = body_stmts(ag)
    if len(st) != 2 or not isinstance(st[0], ast.If) or st[0].orelse or ast.unparse(st[1]) != "return rref":
        raise P.Untranslatable("ackGift: expected `if <test on giftID>: ... decgift ...; return rref`")

    class RwG(ast.NodeTransformer):
        def visit_Attribute(self, node):
            if ast.unparse(node) == "self.giftID":
                return ast.copy_location(ast.Name(id="giftID", ctx=ast.Load()), node)
            return self.generic_visit(node)
    test = RwG().visit(copy.deepcopy(st[0].test))
    fn, env = expr_translator({"giftID": P.Z})
    out.append("(* ackGift: `if %s:` *)\nDefinition ackGift_sends (giftID : Z) : bool := %s." % (ast.unparse(st[0].test), fn.cond(test, env)))
    sends = [n for n in ast.walk(st[0]) if isinstance(n, ast.Call) and isinstance(n.func, ast.Attribute)
             and n.func.attr in ("callRemoteOnly", "callRemote") and n.args and isinstance(n.args[0], ast.Constant) and n.args[0].value == "decgift"]
    if len(sends) != 1:
        raise P.Untranslatable("ackGift: expected exactly one decgift call")
    kws = {k.arg: k.value for k in sends[0].keywords}
    if set(kws) != {"giftID", "count"} or ast.unparse(kws["giftID"]) != "self.giftID":
        raise P.Untranslatable("ackGift: decgift is no longer sent with giftID=self.giftID, count=<n>")
    fn, env = expr_translator({})
    e, t = fn.ex(kws["count"], env)
    fn.need(t, P.Z, kws["count"])
    out.append("Definition ackGift_count : Z := %s." % e)
    # the giver's slicer: the gift branch registers the gift and sends the tracker's URL
    ys = P.find_def(ref, "YourReferenceSlicer.slice")
    src_ys = ast.unparse(ys)
    for frag in ("giftID = broker.makeGift(self.obj)", "yield b'their-reference'", "yield giftID", "yield six.ensure_binary(furl)"):
        if frag not in src_ys:
            raise P.Untranslatable("YourReferenceSlicer.slice (gift branch) no longer contains: " + frag)
    if "furl = tracker.getURL()" not in ast.unparse(P.find_class(ref, "YourReferenceSlicer")):
        raise P.Untranslatable("YourReferenceSlicer: the gift's FURL is no longer the tracker's URL")
    if src_ys.count("makeGift(") != 1:
        raise P.Untranslatable("YourReferenceSlicer.slice registers %d gifts per emission" % src_ys.count("makeGift("))
    # the URL a proxy carries is the one sent with the FIRST my-reference and stored when the tracker is created
    ft = [n for n in ast.walk(P.find_def(ref, "ReferenceableSlicer.slice")) if isinstance(n, ast.If) and ast.unparse(n.test) == "firstTime"]
    if len(ft) != 1 or [ast.unparse(x) for x in ft[0].body[-2:]] != ["url = tracker.getURL()", "if url:\n    yield six.ensure_binary(url)"]:
        raise P.Untranslatable("ReferenceableSlicer.slice: the URL is no longer sent with the first my-reference")
    gt = ast.unparse(P.find_def(ref, "ReferenceableTracker.getURL"))
    if "return self.tub.getOrCreateURLForReference(self.obj)" not in gt:
        raise P.Untranslatable("ReferenceableTracker.getURL: unexpected shape")
    if "self.url = url" not in [ast.unparse(s) for s in P.find_def(ref, "RemoteReferenceTracker.__init__").body] \
            or body_stmts(P.find_def(ref, "RemoteReferenceTracker.getURL")) == [] \
            or ast.unparse(body_stmts(P.find_def(ref, "RemoteReferenceTracker.getURL"))[0]) != "return self.url":
        raise P.Untranslatable("RemoteReferenceTracker: the URL is no longer stored at creation and returned by getURL")

    # ---- the owner's name table (pb.py): a name is assigned once per object and resolves to that object while it lives
    pb = P.load("pb.py")
    an = P.find_def(pb, "Tub._assignName")
    st = [ast.unparse(s) for s in body_stmts(an)]
    reuse = "if ref in self.referenceToName:\n    return self.referenceToName[ref]" in st
    # what registerReference(ref, name) does to an object that already has a (generated) name -- the name in the FURL every
    # peer's proxy carries
    known = [n for n in body_stmts(an) if isinstance(n, ast.If) and ast.unparse(n.test) == "ref in self.referenceToName"]
    if len(known) != 1:
        raise P.Untranslatable("Tub._assignName: expected exactly one `if ref in self.referenceToName:`")
    ksrc = ast.unparse(ast.Module(body=known[0].body, type_ignores=[]))
    if [ast.unparse(x) for x in known[0].body] == ["return self.referenceToName[ref]"]:
        existing = "KeepName"
    elif "self.nameToReference.pop(" in ksrc or "del self.nameToReference[" in ksrc:
        existing = "Rename"
    else:
        raise P.Untranslatable("Tub._assignName: unrecognised treatment of an object that already has a name: " + ksrc)
    out.append("Inductive assignexisting := KeepName | Rename.")
    out.append("(* Tub._assignName, the object already has a name: %s *)\nDefinition assign_existing : assignexisting := %s."
               % (ksrc.replace("\n", "; ")[:160].replace("*)", "* )"), existing))
    if existing == "Rename":
        reuse = True
    for frag in ("self.referenceToName[ref] = name", "self.nameToReference[name] = ref", "return name"):
        if frag not in st:
            raise P.Untranslatable("Tub._assignName no longer contains: " + frag)
    if "self.generateSwissnumber(self.NAMEBITS)" not in ast.unparse(an):
        raise P.Untranslatable("Tub._assignName: fresh names no longer come from generateSwissnumber")
    out.append("(* Tub._assignName: an object that already has a name keeps it *)\nDefinition assign_reuses_name : bool := %s." % ("true" if reuse else "false"))
    gn = P.find_def(pb, "Tub.getReferenceForName")
    st = body_stmts(gn)
    if not st or ast.unparse(st[0]) != "if name in self.nameToReference:\n    return self.nameToReference[name]":
        raise P.Untranslatable("Tub.getReferenceForName no longer starts with the nameToReference lookup")
    if "raise KeyError(" not in ast.unparse(st[-1]):
        raise P.Untranslatable("Tub.getReferenceForName: an unknown name no longer raises KeyError")
    gu = ast.unparse(P.find_def(pb, "Tub.getOrCreateURLForReference"))
    if "name = self._assignName(ref)" not in gu or "return self.buildURL(name)" not in gu:
        raise P.Untranslatable("Tub.getOrCreateURLForReference: unexpected shape")
    tubsrc = ast.unparse(P.find_class(pb, "Tub"))
    if "self.nameToReference = weakref.WeakValueDictionary()" not in tubsrc or "self.referenceToName = weakref.WeakKeyDictionary()" not in tubsrc:
        raise P.Untranslatable("Tub: the name tables are no longer weak dictionaries")
    rg = ast.unparse(P.find_def(bro, "Broker.remote_getReferenceByName"))
    if "return self.tub.getReferenceForName(six.ensure_str(name))" not in rg:
        raise P.Untranslatable("Broker.remote_getReferenceByName: unexpected shape")
    gr = ast.unparse(P.find_def(pb, "Tub._getReference"))
    if "name = sturdy.name" not in gr or "d = self.getBrokerForTubRef(sturdy.getTubRef())" not in gr \
            or "d.addCallback(lambda b: b.getYourReferenceByName(name))" not in gr:
        raise P.Untranslatable("Tub._getReference no longer asks the owning Tub's connection for the name")
    gy = ast.unparse(P.find_def(bro, "Broker.getYourReferenceByName"))
    if "d = self.remote_broker.callRemote('getReferenceByName', name=name)" not in gy or "return d" not in gy:
        raise P.Untranslatable("Broker.getYourReferenceByName: unexpected shape")
    return out

