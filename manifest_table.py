check("C13",
      "[Round 3: the header verdict of Negotiation.dataReceived (refuse / wait / split) is read by symbolic execution of the statements between the terminator search and the split and proved equal to its specification (C13_header_verdict), so any arrangement of the tests translates; a refused decision must leave an established connection and the connection records untouched (oracle on real Tubs, 8 damaged-decision families x both first-dial directions).] Theorems (Coq, unbounded): exactly one decider for distinct tub ids; for every pair of endpoints (any version ranges, vocab ranges, "
      "hash functions) negotiate yields identical parameters = highest common version and vocab index with matching hash, or failure on both "
      "sides; success when compatible; spec of the translated best_overlap/check_inrange; 4096 header cap. The model is tied to the code by "
      "translation (best_overlap, check_inrange, master comparison, call-site shape facts, constants) and by a correspondence sweep of the real "
      "Tub/Negotiation pair (756 configurations incl. hash mismatch) evaluated against the model with vm_compute; chunkings and 21 malformed-block "
      "families are checked directly on the implementation.",
      "Modelled, not verified: TLS (no-op startTLS, peer certificate supplied by the harness), Twisted's Protocol plumbing, parseLines text "
      "parsing (exercised by the malformed families, not modelled).",
      "Coq proof over translated functions + correspondence (vm_compute) against real Negotiation", "DESIGN.md 5/C13")

check("C05",
      "Theorems (Coq, for an uninterpreted certificate hash and all roles / presentations / claims / dialled ids): a hello is accepted for t only if "
      "the LEAF certificate of the handshake hashes to t (extra certificates the peer sends along never matter), the peer claimed t and (client) t is "
      "the dialled id; every mismatch rejects (exact iff); for every sequence of header blocks in every chunking from a peer that keeps sending after "
      "a rejection, every key given to Tub.brokerAttached is proven (receive-loop invariant over the phases); two-ended session: any key ever "
      "registered at either end is proven, mismatches leave no connection, honest pairs connect; invariant over all histories of Tub.brokers; "
      "getReference and inbound reference URLs only over proven connections; for every history of getReference requests made before "
      "startService (queued) and after it, each request is answered for its OWN FURL (connection key and object name); with several lookups pending and connections -- also "
      "inbound ones from the Tubs being dialled (crossed connections) -- completing / failing in any order, a lookup for X is only answered with a "
      "Broker whose leaf certificate hashes to X. Translated from the AST on every run: the binding "
      "of the SturdyRef in startService's resumption loop, the identity fragment of "
      "evaluateNegotiationVersion1, where receive_phase changes around it (handleENCRYPTED, error handler, non-deciding end), which certificate "
      "crypto.peerFromTransport returns, the attach key of switchToBanana, the listener lookup, the inbound-url check. Run on real Tubs over the "
      "in-memory network and compared with the model by vm_compute: the role x leaf x extra-chain x claim x dialled-id x GET-id matrix (968 cells "
      "quick), ~2000 raw-peer scripts (all block kinds, all chunkings, in-flight bytes delivered after hang-up; phase, theirTubRef and attached keys "
      "after every chunk), table histories interleaving Tub peers and raw peers, ~500 getReference request histories (several Tubs / names queued before start); ~760 crossed-connection histories on four Tubs (per-link scheduling, every completion order; Tub.brokers, "
      "tubConnectors and answered lookups after every event vs the model); a "
      "per-reference oracle judges every getReference result (Tub.brokers key, leaf certificate, reference URL, object a call reaches) and an oracle with an independently computed hash judges every "
      "brokerAttached and every table state; 23 malformed-block families, forged URLs, gifts.",
      "Trusted: the TLS handshake proves possession of the LEAF certificate's key (the tree's own crypto.peerFromTransport and twisted's "
      "Certificate.peerFromTransport run on a fake OpenSSL handle: leaf + extra chain certificates); Tubs always have a certificate; no listener "
      "redirects; failure classes of the 101 / missing-certificate / error-block / timeout paths tied by correspondence only. The anonymous-peer "
      "refusal rests on twisted raising CertificateError and on `assert theirTubID` (would vanish under python -O).",
      "Coq proof over AST-translated identity checks and phase placement + exhaustive cell matrix, adversarial raw-peer scripts and table histories "
      "on real Tubs (vm_compute correspondence)", "DESIGN.md 5/C05")

check("C07",
      "Theorems (Coq): for EVERY handler semantics above the tokenizer, any two chunkings of the same byte string give the same events and final state "
      "(feed_app / chunk_independent, by induction, no bound on sizes); instantiated for a transcription of banana.py's discardCount / inOpen / "
      "unslicer-stack logic; incremental = one-pass decoding; abandonment is final; every well-formed token stream encoded by the translated "
      "sendToken/int2b128 scans back to the same tokens (token and stream round trip); object numbering counts EVERY OPEN token -- built, rejected or discarded -- so back-references after a violation resolve as sent (lib/BananaRecvCount.v); 65 header bytes end the connection; a violation never pops the "
      "root and counts exactly the popped frames. Tie: type bytes, SIZE_LIMIT and the four integer codecs + the integer branch of sendToken are "
      "translated on every run; the real Banana class is driven with policy unslicers (21 opentype policies, 7 root modes) on well-formed and mutated "
      "streams under whole / bytewise / random chunkings and compared event by event and snapshot by snapshot (buffer, skip, discard, depth, inOpen, "
      "dead) with the model by vm_compute (about 1000 traces quick). Direct oracles on the real code: chunk independence (policy and standard "
      "unslicers), exact resynchronisation after a violation at any depth, 64/65-digit header boundary, nothing decoded after abandonment, no exception "
      "escapes dataReceived.",
      "Modelled, not verified: the standard unslicers (exercised by the oracle only), Twisted transports, the text of ERROR messages (not compared). "
      "'No exception escapes' is checked on every generated input, not proved.",
      "Coq proof of chunk-independence for a generic tokenizer + transcription of handleData; trace validation of the real Banana by vm_compute", "DESIGN.md 5/C07")

check("C19",
      "Theorems (Coq, 10, over all names, all block lists, all prefixes of the operation list = crash anywhere, all initial directory states incl. "
      "symlinks): FilePath.child + the parent() guard accepts exactly base/<one good component>; every path touched by an upload lies directly inside "
      "the target directory; after any prefix the final name is old or complete (atomic publish); an interrupted upload leaves neither a partial final "
      "file nor a .partial; gatherer and publisher paths are contained; services.json is at every crash point the complete old or new version. The "
      "guards, extensions and operation ORDERS of remote_putfile / save_service_data / move_into_place / _got_incident / remote_get_incident are "
      "translated from the AST on every run (fail closed); posixpath and FilePath functions, OS-level op traces (recorded by wrapping os/open) and "
      "crash views are compared with the model inside Coq (about 2200 traces quick); a filesystem oracle with a sentinel sibling directory checks the "
      "real services directly, with a crash injected before every OS operation.",
      "Trusted: rename(2) atomicity; no power-loss / fsync model; no concurrently planted links; posixpath and Twisted FilePath are hand-modelled and "
      "compared on every run.",
      "Coq proof over AST-translated op orders and guards + in-Coq correspondence of OS-level traces + sentinel-directory oracle", "DESIGN.md 5/C19")

check("C04",
      "Theorems (Coq, 13, over all op sequences Issue/StallRelease/Deliver/GiftReady/Turn): the calls entered on the receiver are a subsequence of "
      "the issue order (strictly increasing, NoDup), head-of-line blocking, at most one delivery waiting, no silent loss, sender never idle with "
      "queued work, receiver never stuck, every reachable state can be settled, LocalReferenceable order. The model's enqueue/dequeue are driven by "
      "queue disciplines translated as shape facts from the AST of slicers/root.py (RootSlicer.__next__ / send), broker.py (scheduleCall / "
      "doNextCall, head-of-line guard) and eventual.py on every run, so e.g. pop() instead of pop(0) regenerates PopBack and breaks the proofs. "
      "Step-by-step trace validation against a real Broker pair (sendQueue, slicer stack, inboundDeliveryQueue, waiting flag, entered list after "
      "every step; about 10 k step comparisons quick) by vm_compute; direct oracle on entry order of instrumented remote_* methods incl. streaming "
      "slicers that yield Deferreds, real third-party gifts over three Tubs, schema rejections, re-entrant calls, random chunking; shrinking.",
      "Modelled, not verified: in-order delivery by the wire, Twisted Deferred chaining order, the receive parser (one Deliver step; tied by trace "
      "validation), connection loss (C03), gifts resolved only after their call is completely received.",
      "Coq invariant proofs over op lists on translated queue disciplines + step-by-step trace validation on a real Broker pair", "DESIGN.md 5/C04")

check("C06",
      "Theorems (Coq, 18, over all states / messages / interleaved histories on two connections): a call enters only the broker's three methods "
      "(clid 0), or an object present in this connection's export table under that clid with attribute 'remote_'+name (and in its interface); exports "
      "were granted on that same connection with positive refcount; name lookups yield only registered or handler-provided objects; only registered "
      "Copyable classes are instantiated; open types are a closed allowlist; refusals are pure; connection-locality (non-interference with the other "
      "connection's table, frame property). Translated on every run: the 'remote_' prefix, clid lookup and refusal kinds (Violation vs KeyError), "
      "ReferenceableTracker.decref (PyLite), RIBroker's method set, NAMEBITS, registry key sets after import. Per-event trace correspondence "
      "(about 3000 events quick) of hand-built token streams (live / stale / foreign / negative / huge clids, 21 hostile method names, your-reference, "
      "copyable and other open types, getReferenceByName / decref) against one real Tub with two real Brokers; independent capability-bookkeeping "
      "oracle with instrumented application objects and shrinking.",
      "Dropping the whole connection (unknown your-reference, undecodable method name) counts as a permitted refusal. Name lookups are excluded from "
      "the history-level non-interference theorem (the name table is Tub-wide by design). Modelled, not verified: Banana token layer, RIBroker "
      "argument schema, weakref collection of names, gifts.",
      "Coq proofs over all histories + AST translation of dispatch facts + per-event trace correspondence on real Brokers", "DESIGN.md 5/C06")

check("C11",
      "Theorems (Coq, for every handler semantics above the tokenizer and every chunk sequence): the accept/reject verdict on a token is a function of "
      "its first 65 bytes; a rejected incomplete body empties the buffer and exactly the missing byte count is skipped; skipped bytes are neither "
      "inspected nor stored; if the tasters accept a body only when it fits B then the bytes held never reach 65 + max(B, SIZE_LIMIT); 65 header bytes "
      "without a type byte end the connection; the size-limited tasters of the banana.py transcription accept a sized body only within their limit; "
      "the negotiation phase refuses more than 4096 buffered bytes (translated constant); index tokens: openerCheckToken of BOTH root unslicers is translated from broker.py / slicers/root.py by symbolic execution and proved to bound the first index token by the longest opentype and the class name after OPEN copyable by the longest registered Copyable name (2240-cell correspondence with the real methods). Tie: the tokenizer model is the one validated by C07; here "
      "oversize claims (limit+1 .. 2^448-1) under size-limited tasters are trickled in 1..4096-byte chunks on the real Banana and buffer length / "
      "skip count are compared with the model after every chunk. Direct oracle with the REAL constraint classes (ByteString, Integer, Number, "
      "Unicode, ListOf, TupleOf, DictOf, SetOf, nested) as root constraint: oversize bodies at leaf positions, high-water mark of len(buffer) against "
      "65 + the schema bound, incl. containers that admit no element (TupleOf(), maxLength=0, maxKeys=0); an ERROR token announcing more than "
      "SIZE_LIMIT must be refused when its header is complete; index tokens on a REAL Broker root (first opentype string; class name after OPEN "
      "copyable inside error/answer responses) bounded by the longest opentype / registered Copyable name; negotiation cap at 4096/4099/4100/10000 bytes.",
      "The schema bound of a real constraint tree is computed by the harness from the constraint objects' public attributes; Decimal and VOCAB "
      "expansion carry no size parameter in the schema vocabulary and are outside the bounded fragment.",
      "Coq proof of buffer bounds for a generic tokenizer + per-chunk correspondence + high-water oracle on real constraints", "DESIGN.md 5/C11")

check("C14",
      "Theorems (Coq, 12): for every finite schedule of lookups / dials / block deliveries / cuts / per-end close notifications / restarts / "
      "time-outs / instant retries from errbacks of a two-Tub model, at quiescence M's current connection is c iff S's is c (full statement, inductive per-connection invariant); the "
      "current connection is the unique live Broker end; decision lemmas on the TRANSLATED compareOfferAndExisting (older seqnum / 'none' from the "
      "same incarnation rejected, different incarnation accepted, equal accepted, greater rejected, pre-0.2.0 by handle-old age); waiters are "
      "answered when the connector finishes or times out, and a lookup issued synchronously from inside such an errback again waits on a live "
      "connector (uses the order of effects TRANSLATED from Tub.connectionFailed); issued = fired + waiting; the non-master records the decision "
      "it accepts whoever dialled (one step, guard TRANSLATED from acceptDecisionVersion1; the all-schedules form is not proved). 'A redundant attempt never displaces' is refuted for offers that "
      "remember the master's past life (known finding, replayed on real Tubs). Tie: fail-closed AST translation of compareOfferAndExisting / "
      "handle_old, of the connectionFailed effect order and the slave_table guard, and about 60 shape facts of negotiate / connection / pb / broker; "
      "1512 decision cases, 18 scripted and 150 seeded schedules of two real Tubs on the in-memory network compared with the model after every step (brokers, master/slave tables, connectors, waiters, link states). Direct "
      "oracle (a fixed battery independent of the seed + seeded runs + corpus witnesses per seeded-change family): cross-connects with 1-3 hints, "
      "cuts, restarts, black holes, one-sided cuts after connections dialled in either direction with redial by the side that noticed (several "
      "rounds), raced cross-connect then cut then new lookups, lookups issued re-entrantly from every callback / errback, byte- and block-granular "
      "delivery, virtual time: agreement at quiescence, no displacement by a redundant attempt, restart and knowing redial displace the stale "
      "connection, every getReference (re-entrant ones included) fires exactly once within its own CONNECTION_TIMEOUT.",
      "Modelled, not verified: Twisted Deferreds/reactor, TLS (no-op), whole-block delivery in the model (byte interleavings by the oracle only), "
      "incarnations as integers, version/vocab negotiation assumed to succeed (C13), two Tubs only; per-Deferred exactly-once and the 120 s bound "
      "are checked by the oracle.",
      "Coq inductive invariant over all schedules + translated decision function + trace validation of real Tubs", "DESIGN.md 5/C14")

check("C15",
      "Theorems (Coq, 12, over all event histories Rx/Tick/Close on a model built from the translated timer callbacks; time exact in integer ms): "
      "an idle connection is torn down by last-activity + 2T + EPSILON + reactor lateness (tight); arrivals at least every T => never torn down; "
      "teardown / PING only when idle for more than T / K; PING within 2K + EPSILON; at most one teardown; connectionLost cancels both timers for "
      "good; PING/PONG are deleted from the token stream with one PONG n per PING n; byte-level echo for all n < 2^448 (translated int2b128 / "
      "b1282int) and refusal above. Tie: keepaliveTimerFired, disconnectTimerFired, the arming blocks of connectionMade, the dataReceived stamp, "
      "the cancel blocks of connectionLost, sendPING/sendPONG and EPSILON are translated on every run; about 2400 timer schedules on the real "
      "Broker under a virtual integer clock (teardown / ping times, pending timers after every event) and 512 PING/PONG cases compared by "
      "vm_compute; direct oracles incl. float seconds, pending callRemote -> DeadReferenceError, two live Tubs with a black-holed network, PING/PONG "
      "at every token boundary of nested messages under all chunkings.",
      "Integer-ms time (binary-float ties at an exact boundary out of scope); one time.time() per reactor turn; PING/PONG transparency is proved on a "
      "token-level dispatch model (byte level: C07 + correspondence).",
      "Coq proofs (lia) over event lists on translated timer callbacks + vm_compute correspondence with the real Broker under a virtual clock", "DESIGN.md 5/C15")

check("C08",
      "Theorems (Coq, over all op sequences Send/RecvOH/RecvHO/DropProxy/HandleRefLost/SendHome/ConnLost with FIFO channels): the same proxy for "
      "every re-delivery while it is held and at most one live proxy per clid, for all histories satisfying the exact guard that excludes D16 "
      "(_partial), and the 15-step refutation (D16, known finding, replayed on real Brokers); the clid put on the wire was allocated for that object "
      "and for no other; a proxy sent home and a call through a proxy resolve to the original object in EVERY history. Tie: "
      "ReferenceableTracker.send/decref translated (PyLite), getRef / _handleRefLost / freeYourReferenceTracker expressions and table shape facts read "
      "from source (incl. the dead-weakref test of both getRefs); 543 random histories on two real Brokers with message-granular delivery compared "
      "with the model after every action (tables, counts, Python is-identity classes of delivered objects vs model proxy ids, resolved objects) by "
      "vm_compute. Direct oracle: identity of delivered references vs held proxies, home 'is' original, calls reach only the original, bound-method "
      "witness, three-Tub gift scenario in all 6 role orders.",
      "Gifts are checked on real Tubs only (not in the Coq model). Modelled, not verified: CPython refcount collection of proxies (DropProxy is an "
      "explicit op), FIFO transport and eventual queue, Banana serialisation; one direction of one connection.",
      "Coq invariant proof (guarded) + refutation witness + trace validation (vm_compute) on real Brokers + identity oracle", "DESIGN.md 5/C08")

check("C09",
      "Theorems (Coq, all op sequences of the same model): counting invariant refcount = received + my-references in flight + decrefs in flight "
      "(+ discarded); no early release (a live proxy or a reference in flight => the owner maps the clid, to the object it was allocated for); the "
      "assertion in decref never fails; clids are never reused (allocation log NoDup, functional, monotone); no leak at quiescence when no "
      "my-reference was discarded (_partial) and its refutation (D9, known finding); connection loss empties both tables for good. Tie and "
      "correspondence as C08 (543 histories quick / 6000 thorough, tables and counts compared after every action). Direct oracle: export / import "
      "tables, every decref call recorded by a wrapper, weakref liveness after drain, tables after connection loss.",
      "Modelled, not verified: CPython refcount collection of proxies, FIFO transport and eventual queue, Banana serialisation; one direction of one "
      "connection.",
      "Coq invariant proof over an executable model + translated counting functions + trace validation (vm_compute) on real Brokers", "DESIGN.md 5/C09")

check("C10",
      "[Round 4: fields fit whichever travel as VOCAB tokens (taster read from source); failing a request fires once under every logging option (fallback names read from source); Tub logging options and the negotiated vocabulary as batch dimensions.] [Round 3: wrapping is unconditional in the failure's class (foolscap's own exception classes, 3-party relay); every inbound delivery is handled whatever the readiness of earlier ones (refused / unresolvable gifts: C10_deliveries_all_handled); fixed corpus witness per seed family.] Theorems (Coq, 15; receiver-side rejections stay inside their top-level object (reportViolation shape fact); f.type rebuilt from the "
      "transmitted name alone; multi-fault calls and homonymous exception classes in the catalogue). No hypothesis on the exception: FailureSlicer.getStateToCopy is total and every field it sends fits the byte limits "
      "FailureConstraint enforces (type 200, value 1000, traceback 2000, each parent 200) for any class name, any message incl. text UTF-8 cannot "
      "encode, a raising __str__, any traceback, both unsafeTracebacks settings; each field is the escaped text or a whole-character prefix + '..' "
      "and is well-formed UTF-8; truncate (translated from call.py) never exceeds its limit; send side: a Violation at any depth writes ABORT n "
      "CLOSE n for every open sequence, innermost first, returns to the root, keeps the connection up; for every event list a number-checking "
      "receiver never loses sync and receives exactly the finished objects; a fault-free object sent after any history is delivered in full, "
      "histories only shift OPEN numbers; every OPEN gets the sender's number at a receiver that counts discarded OPENs too (handleData shape fact); "
      "a non-Violation exception drops the connection (the one known finding). Tie: truncate, both sides' "
      "limits, the error handler, safe_str, elision constants and the doPop/sendAbort flags and statement orders of produce / handleSendViolation / "
      "popSlicer / pushSlicer / childAborted are read from the AST on every run; 216 batches (wire skeleton of the caller's bytes) and 137 Failure "
      "states (byte for byte) compared by vm_compute. Direct oracle on real Broker pairs: batches of 3-6 concurrent calls with the faulty call at "
      "every position, 13 fault kinds, 7 exception classes x 21 message shapes, all 4 option settings, shared-container follow-up calls after every "
      "fault: sibling results exact, connection up, "
      "callee ran exactly the expected methods, delivered failure identifies type/parents and carries a maximal message prefix, wrapped iff types "
      "are hidden, never a local Violation for a remote exception.",
      "Modelled, not verified: token values abstracted to one data token on the send side; the framing-checker receiver of Send.v is stricter than "
      "Banana.handleData (real receiver: oracle + C07); the callee's execution path (oracle only); Twisted Deferred/Failure.",
      "Coq proof over executable models + AST translation (truncate, limits, shape facts) + vm_compute correspondence + fault-injection oracle", "DESIGN.md 5/C10")

check("C17",
      "Theorems (Coq, 14, over all programs): eventually() never runs the callable synchronously; run order = submission order incl. re-entrant "
      "submissions (subs = rans ++ queued); exactly once when drained; a raising callable does not prevent later ones, new work waits for a later "
      "turn; queued work always has a reactor call pending; every flush notification has pending = 0 and no callable running (full strength after "
      "the three eventual.py repairs); Promise: a second resolve/break is refused and changes nothing, an accepted resolve leaves EVENTUAL (depends on "
      "`_state = BROKEN` being an assignment), resolution is stable, every observer and delivery sees one outcome; OneShotObserverList single result. "
      "Per-promise exactly-once / in-order delivery is proved as three local facts (_partial; the global accounting invariant is stated in a comment "
      "and evaluated by the oracle). Tie: append position, swap-before-run, iteration order, try/except, _in_turn marks, flush guard, observer loop "
      "shape, _break Assign/Compare, resolve guard, state tuples, drain order and constants are AST shape facts regenerated on every run; "
      "src_cfg = good_cfg by reflexivity; 1890 queue + 5908 promise + 1092 observer-list programs run on the real classes one reactor call at a time "
      "and compared (full event trace + final snapshot) with the models by vm_compute. Direct oracle with an independent expected-resolution evaluator.",
      "Modelled, not verified: Twisted Deferred and Clock; log.err() = swallowed; the Promise model has its own FIFO with the queue model's "
      "discipline; methods returning Deferreds and flush callbacks that call flush are not generated.",
      "Coq proofs over all programs on models parameterised by translated shape facts + trace validation (vm_compute) of the real classes", "DESIGN.md 5/C17")

check("C18",
      "Theorems (Coq, 14, over all histories): msg always returns a number; logger-assigned numbers are exactly seq+1, seq+2, ... (strictly "
      "increasing); right after an event its (facility, level) buffer holds at most its limit and is a suffix of old ++ [e]; no buffer ever exceeds "
      "the largest configured limit; Subscription: |queue| <= MAX_QUEUE_SIZE, 0 <= in_flight <= MAX_IN_FLIGHT, delivered (++ queue) is a subsequence "
      "of emitted, for any Send/Turn/Ack/Nack schedule; an incident is trigger :: sort_by_num(everything buffered) (++ up to TRAILING_EVENT_LIMIT "
      "later events) and is recorded whatever the events contain (full strength, from the translated three-stage serialize fallback); nothing "
      "abandoned. Tie: constants (levels, size limits, queue limits, trailing limits), Count (PyLite) and shape facts of add_event (stage order, "
      "trim loop operator and pop side), msg's catch-all, declare_incident, incident_declared, trailing_event, finished_recording, "
      "serialize_to_json_utf8 stages, Subscription.send / start_sending / _event_received are regenerated on every run and interpreted by the model; "
      "180 logger histories and 223 Subscription schedules on the real classes compared step by step by vm_compute. Direct oracle: hostile kwargs "
      "(failing repr/str, non-text keys, cycles, huge ints, deep nesting, missing format keys, odd levels/facilities), bounds after every op, every "
      "expected incident published with trigger and buffered events and no leftovers, read-back via flogfile.get_events and LogDumper with equal "
      "num/level/rendered message, format_message total on random event dicts.",
      "JSON is abstracted to a measured per-event 'first stage encodable' flag plus the translated fallback structure (CPython json modelled, not "
      "verified); one op = one call plus a full eventual turn; set_buffer_size does not trim until the next event (stated as such).",
      "Coq proofs over an executable model interpreting translated constants/shape facts + vm_compute correspondence + hostile-input oracle", "DESIGN.md 5/C18")

check("C20",
      "[Round 3: identity is also judged on serialized / received copies (C20_copy_carries_identity); C20_no_stall / C20_attempt_starts over the translated store-before-connect order of Tub.getBrokerForTubRef with a Tub-history correspondence (lib/Connector.v); encode-side and history oracles.] Theorems (Coq, all strings): decode_furl ends in a triple, BadFURLError or ValueError; decode(encode(t,h,n)) = (t,h,n) for every decoded and "
      "every well-formed triple, every decoded triple is well-formed; SturdyRef equality iff (tub id, name) equal, equal references hash alike, "
      "TubRef identity = tub id; get_endpoint over any handler set / address filter ends in an endpoint or InvalidHintError (ports provably 1-5 "
      "digits so int() cannot raise); for each of the four hint patterns a continuation-passing backtracking matcher that follows sre's order takes "
      "<= hint_K*(|s|+1) steps on every subject, via a static cost analysis proved sound once (an_sound) and re-run by vm_compute on the regenerated "
      "patterns -- the pre-fix (\\d+){1,5} is rejected by it and shown ~n^5; FURL matching is bounded quadratically (_partial: linear is refuted, "
      "known finding oracle/furl-quadratic). Tie: the five pattern strings are evaluated from the module constants, parsed with re._parser and "
      "emitted as a Coq regex AST (fail closed), with the search/match method, the 32-char cut, separators, base32 alphabet, _distinguishers tuples "
      "and statement shapes of decode / encode / convert_legacy_hint / hint_to_endpoint / get_endpoint; match result and all group spans compared "
      "with `re` on 4.9 k strings (exhaustive short strings behind each literal prefix, grammar + mutations incl. non-ASCII digits) and the "
      "functions on 1 k cases with 6 handler sets by vm_compute. Oracle on the real functions: totality, round trip, identity (12.5 k pairs), "
      "endpoint arguments, CPU-time growth on 25 adversarial families in killed-on-timeout child processes; 6 regression witnesses.",
      "Modelled, not verified: sre's work is within a constant factor of the model's step count (CPU-time growth is measured only); \\d / str.lower / "
      "int digit values come from the interpreter's unicodedata (regenerated each run); tor.is_non_public_numeric_address is an input of the model; "
      "handlers run up to the endpoint constructor; ensure_str on bytes not modelled.",
      "Coq proof over regex ASTs translated from the source (sound static cost analysis) + vm_compute correspondence against re + timing oracle", "DESIGN.md 5/C20")

check("C03",
      "Theorems (Coq, 16, for every finite sequence of callRemote / callRemoteOnly / locally rejected calls, answers, errors and answer-violations "
      "for any request id, complete()/fail() invoked on any request object at any time (send failure, late answer), connectionLost/shutdown with any "
      "reason (a class listed in LOST_CONNECTION_ERRORS, a proper subclass of one, an unrelated exception), other callables -- raising or not -- queued in the shared eventual-send queue at any point, and turns of that "
      "queue): no Deferred is fired twice; the first outcome is final under every continuation; waitingForAnswers holds exactly the "
      "registered requests that have not fired (unique, fresh ids); whenever the broker is disconnected and the eventual queue is empty the table is "
      "empty and every callRemote has fired exactly once, and loss followed by |queue| turns always reaches that state; late complete/fail/answers "
      "fire nothing; the only exception is removeRequest's KeyError on a late complete(), which changes nothing; calls on a dead broker fail at once "
      "with DeadReferenceError; every request pending when the connection ends fires with exactly the outcome the reason maps to, which is "
      "DeadReferenceError for every lost-connection reason, subclasses included (the test of abandonAllRequests -- Failure.check vs exact-type "
      "membership -- and the list are translated); one turn of the eventual queue removes exactly one event, so an event that raises drops nothing queued behind "
      "it (the FIFO append, the batch snapshot and the per-event try/except of eventual._turn are translated). PendingRequest.complete/fail and Broker.finish are translated statement by statement from the AST into programs that "
      "the model interprets (plus shape facts for newRequestID, add/remove/getRequest, abandonAllRequests, _callRemote's commitment points and the "
      "Answer/Error unslicers); every run validates about 6000 recorded traces (real Broker pairs cut after sampled / all byte offsets in both "
      "directions, 7 call mixes, 7 ways of ending the connection, the reason drawn from a 24-member family: the listed classes, every stock twisted / "
      "OpenSSL subclass, ad-hoc subclasses, unrelated exceptions, each with 0..n calls unsent / hanging / in flight / answered; raising / well-behaved eventually() callables and "
      "notifyOnDisconnect handlers and a second connection lost in the same turn; 600 random op sequences on the real objects) step by step against the model with "
      "vm_compute, and a direct oracle (fire attempts per Deferred == 1, table empty, no escaped exception, abandoned requests get DeadReferenceError "
      "iff the reason is a lost connection by an independently written issubclass rule, other reasons unchanged; with the connection up and all "
      "bytes delivered the outcome of every call and of a probe call is the same for two-/three-piece and fixed-size chunkings of both "
      "directions as for whole delivery, over mixes with STRING/FLOAT/LONGINT/sequence tokens rejected on either side) also runs on real Tubs through "
      "shutdown, cuts and connection replacement.",
      "Modelled, not verified: Twisted Deferred/maybeDeferred and the eventual queue's FIFO order; logging inside fail/complete is assumed not to "
      "raise; Banana parsing and the unslicer plumbing are tied by shape facts and the cut sweep, not modelled; in-memory transports, no TLS.",
      "Coq proof over an interpreter of AST-translated method bodies + trace validation (vm_compute) of real Broker pairs under byte cuts", "DESIGN.md 5/C03")

check("C02",
      "Theorems (Coq): checkObject c o = true <-> satisfies c o (declarative relation over all 13 constraint constructors); checkAllArgs spec "
      "(no more positionals than declared, no name bound twice, every bound name declared and satisfying its constraint, every required argument "
      "bound); for all method schemas and ARBITRARY wire trees (any type bytes, sizes, arities, forged back-references) recv_call = Invoke a kw -> "
      "checkAllArgs ms a kw = Ok (rests on the translated dominance shape fact of Broker._doCall), hence every value a method body receives "
      "satisfies its declared constraint. The result side is refuted on the faithful model (C02_result_refuted: four witnesses, D6, known finding) "
      "and proved only for constraints whose token-level tasters are complete (C02_result_partial); one-call-only is refuted for strictTaster "
      "constraints (known finding). Tie: the numeric branches of IntegerConstraint.checkObject and the integer branch of sendToken (PyLite), every "
      "length / fullness comparison of every checkObject and Unslicer, the taster tables and their construction, Constraint.checkToken's "
      "comparator, strictTaster / opentypes of every class, the setConstraint assertions, the UnicodeUnslicer size guard, getPositionalArgConstraint / "
      "checkAllArgs comparators, the _doCall dominance, 'AnswerUnslicer contains no checkObject', 'ReferenceUnslicer re-checks' are translated on "
      "every run; 350 hand-encoded call streams and 237 answer streams on a real Broker pair compared with the model by vm_compute. Direct oracle: "
      "instrumented remote_* methods and callbacks judged by the real checkers and an independent reference semantics; a refused call errbacks with "
      "Violation and a sibling call still works.",
      "Values are trees (sharing only in fixed oracle cases); regexp constraints, RemoteInterface/Copyable constraints, Shared and "
      "__ignoreUnknown__/__acceptUnknown__ are outside the model; 'a Violation leaves other calls untouched' is oracle-checked (the model has no "
      "broker queue).",
      "Coq proof (checkObject <-> satisfies, checkAllArgs spec, dominance shape fact) + hand-encoded token streams on a Broker pair vs model", "DESIGN.md 5/C02")

check("C12",
      "Theorems (Coq): for all constraint trees c and values o with wf c, owf o, c12_guard c o: checkObject c o = true -> the receiver's token-level "
      "checks accept every token of slice o and deliver o (induction on c; boundaries: the 2^31 INT/LONGINT split of the translated sendToken, "
      "bytelen n <= maxBytes from long_to_bytes_length, maxLength, maxKeys, tuple arity, UTF-8 size <= 6*maxLength); the same end to end for a "
      "one-argument call; four refuted witnesses (ChoiceOf over OPEN-sequence alternatives = D7a, AnyStringConstraint with text, nested Optional, "
      "Any with an int >= 2^8000: known findings). c12_guard excludes exactly those regions. Tie: as C02 (shared gen/SchemaGen.v); 447 real "
      "callRemote calls vs send_call + recv_call, 900 checkObject differentials (inbound and outbound, also against an independent reference "
      "semantics), 260 taste cases vs real checkToken, 50 int_token cases vs real sendToken bytes, by vm_compute. Direct oracle: if the real "
      "outbound checkAllArgs accepts, the call is delivered with canonically equal arguments, never a Violation or a lost connection; if the sender "
      "rejects, nothing is sent; 22 boundary cases, shared-list case, 420 generated calls built through the public schema vocabulary.",
      "The call-level theorem covers one-argument methods (multi-argument and keyword calls by correspondence); values are trees; regexp, "
      "RemoteInterface/Copyable constraints outside the model.",
      "Coq induction on constraint trees over translated sendToken split / taster tables / comparators + real callRemote differentials", "DESIGN.md 5/C12")

check("C16",
      "Theorems (Coq, 8, over all permitted event sequences Start/AttemptOk u/AttemptFail z/Lost/TimerExpired/Elapse/Reset/Stop; exact rational arithmetic): "
      "_active iff started and not stopped; no timer is leaked and, while active, attempts in flight + watched connections + pending timers = 1 (and "
      "ReconnectionInfo.state names it); every delay and timer lies in [0, maxDelay*(1+jitter*Zmax)] for draws |z| <= Zmax <= 1/jitter (the bound on "
      "the draw is necessary: C16_negative_delay_possible); after a success the next retry delay is initialDelay; while active something is always "
      "enabled and each failure / loss / expiry schedules exactly one next activity; after Stop -- also when issued while still queued for "
      "Tub.startService -- every later output is silent (no callback, getReference, watcher or timer) for every permitted continuation. Tie: all 10 "
      "methods of Reconnector are translated statement by statement into the model's actions on every run (constants as exact rationals from the "
      "literal text; pb.py call sites as shape facts; fail-closed white list for logging/info statements); ALL permitted sequences up to length 8 "
      "(11 560; 262 690 up to length 11 in the thorough tier) plus 150 seeded long sequences are run on the real class with a fake Tub, virtual "
      "clock and scripted normalvariate and compared inside Coq (flags, ordered outputs, delays). Re-entrancy and the reactor turn structure: "
      "AttemptOk u carries the stopConnecting/reset calls the user callback makes from inside (C16_reentrant_callback: they act as if issued right "
      "after _connected returned; the translated _connected takes the callback's actions as a parameter); a second family of micro-operations "
      "(attempts fire without draining, 'lose' queues the disconnect watchers like Broker, 'turn' = one turn of foolscap's eventual queue, "
      "stop/reset at top level / inside the callback / inside the user's disconnect handler / queued in the same batch) is enumerated "
      "exhaustively (15 043 sequences up to length 6; 68 472 up to 7 thorough) plus seeded long ones; the model history is the order in which "
      "the Reconnector's entry points were REALLY invoked (wrapped on the instance) and 'after stopConnecting returned' is judged on that order, "
      "after every operation and after a final drain. Real stack: the Reconnector of a real Tub keeps a connection to a second real Tub on the "
      "in-memory network while traffic of every kind (callRemote, callRemoteOnly, gifts, answers, half-delivered chunks; both directions; every "
      "stage of delivery) is in flight when the connection is lost (network cut / peer hangs up / local hang-up, with or without a reactor turn "
      "before the loss); all 120 single-item histories + seeded multi-round ones; the invariant is evaluated on the real stack (attempt "
      "Deferreds of Tub.getReference, Brokers that are connected and still hold the disconnect watcher, reactor timers), every round must "
      "reach 'waiting' with initialDelay and reconnect, then stopConnecting must silence it; the invoked entry points are compared with "
      "the model (state only). Direct oracle on every node plus seven real-Tub "
      "scenarios on the in-memory network (stop before start, cut, reconnect, stop in flight, unreachable back-off, Tub.stopService).",
      "Modelled, not verified: Twisted Deferred / DelayedCall semantics and the Tub (hand-written dispatcher), normalvariate as mu + z*sigma, "
      "doubles as exact Q. A draw below -1/jitter (probability ~3e-17) gives a negative delay: stated, not hidden.",
      "Coq invariant induction over the translated state machine + exhaustive enumeration of permitted sequences compared inside Coq", "DESIGN.md 5/C16")

check("C01",
      "[Round 3: C01_discard_slice / C01_discard_rest_of_rejected -- whatever lies in a discarded part, the receiver's object counter advances by exactly the OPENs the sender spent on it; rejected-message preludes before graphs with sharing; vocabulary tables from arbitrary word lists (duplicates, gaps).] Theorems (Coq, unbounded; closed under the global context): for every well-formed canonical object term (nested "
      "list/tuple/set/frozenset/dict/registered Copyable/call scopes, ints of any magnitude, floats as 64-bit words, "
      "bytes/text/bool/None/Decimal, back-references incl. self-containing containers) the receiver's unslicer stack "
      "machine, in any admissible state, consumes exactly the sender's token sequence and rebuilds exactly the denoted "
      "graph (same node numbers, kinds, children, pointers: value, type and sharing) -- C01_run_slice, "
      "C01_slice_unslice(_list); composed with the token/byte layer (C01_bytes_roundtrip, via stream_roundtrip); under any "
      "vocabulary table with distinct indices (C01_vocab_transparent, C01_roundtrip_any_vocab); per-call scope: a call "
      "refers only to objects opened inside itself and a later call's reference to anything outside it is refused "
      "(C01_scope_refs_are_local, C01_scope_isolation_receiver); two refuted witnesses for the known-defective region "
      "(tuple referenced from a Copyable attribute / dict key it contains). Chunk independence of the byte-level receiver "
      "is C07's theorem. Tie: opentype / trackReferences / setObject-in-start / scoped classes / bool tokens translated "
      "from the source on every run plus about 60 fail-closed shape facts; correspondence by vm_compute on 354 (quick) / "
      "2224 (thorough) generated graphs, vocab switches and Broker calls: sender bytes = encode_stream(envocab(slice("
      "canon_py g))), canon(unslice(decode real bytes)) = term, and the real receiver's graph under 1-chunk / bytewise / "
      "random chunkings matched against the term; direct oracle: rooted graph isomorphism with type() at every node and "
      "list/dict/set identity preserved both ways, no sharing between two calls.",
      "Modelled, not verified: UTF-8 and struct '!d' codecs, Decimal(str(d)), Twisted Deferred completion of tuples / "
      "frozensets in cycles (graphs whose tuple directly holds a reference to a still-open immutable are outside the "
      "theorem guard: correspondence + oracle only), Python hash/== for dict/set membership, Copyable registration. "
      "canon-inverts-denotation and the in-band set-vocab switch are checked per case by vm_compute, not proved in general.",
      "Coq proof (nested induction over object terms, invariant over receiver states) + translation + correspondence + graph-isomorphism oracle",
      "DESIGN.md 5/C01")
