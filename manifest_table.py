check("C13",
      "[Round 5: the negotiation message codec is inside the model by TRANSLATION: Negotiation.parseLines and sendBlock are executed symbolically, "
      "statement by statement, into Gallina over models of bytes.split/index/lower/lstrip, slices, six.ensure_str (strict UTF-8), dict stores "
      "(g_negcodec.py -> gen/NegCodecGen.v), together with the ten block keys as written and as read, the dispatch / input guard / error report of "
      "dataReceived, the version stamped on error blocks, every store to receive_phase / send_phase and the versioned methods of the class. "
      "New theorems (all closed, unbounded): C13_block_round_trip -- every block sendBlock can emit, followed by ANY bytes, is cut at the first "
      "terminator of the stream and parses back to itself; C13_deliver_any_chunking -- the same composed with the block splitter for every "
      "packetisation; C13_parse_total; C13_keys_written_are_read; out-of-order blocks by content (decision where a hello is expected, hello "
      "where the decision is expected) are refused with the negotiation error; C13_error_block_understood; the phase machine "
      "(C13_block_advances_or_ends: a block in any legal state is ignored, advances along the legal order, or ends the attempt and nothing else "
      "changes; C13_legal_run, C13_dispatch_total_on_legal, C13_ended_stays_ended, C13_phase_stores_known); the decider for ANY two endpoints "
      "(C13_decider_count: never two, none iff equal ids, then both fail); C13_agreement_exact (identical parameters IFF compatible, otherwise "
      "both fail and each failure is a negotiation error, under the class invariant asserted by __init__); C13_slave_checks_own_range_refuted "
      "(a decider that does not follow the protocol can make the non-decider run a version outside its own range: replayed on the real code on "
      "every run, reported as a note) with C13_honest_decision_in_range. New correspondences: translated parseLines / sendBlock, int(), "
      "str.split(), handleENCRYPTED+evaluateHello and acceptDecision on the real class with random and damaged blocks (~1000 cases), the phase "
      "machine against the two real Negotiation objects of every sweep configuration (1512 comparisons); the oracle now compares the CONTENTS of "
      "both vocabulary tables of both Brokers.] "
      "[Round 3: the header verdict of Negotiation.dataReceived (refuse / wait / split) is read by symbolic execution of the statements between the terminator search and the split and proved equal to its specification (C13_header_verdict), so any arrangement of the tests translates; a refused decision must leave an established connection and the connection records untouched (oracle on real Tubs, 8 damaged-decision families x both first-dial directions).] Theorems (Coq, unbounded): exactly one decider for distinct tub ids; for every pair of endpoints (any version ranges, vocab ranges, "
      "hash functions) negotiate yields identical parameters = highest common version and vocab index with matching hash, or failure on both "
      "sides; success when compatible; spec of the translated best_overlap/check_inrange; 4096 header cap. The model is tied to the code by "
      "translation (best_overlap, check_inrange, master comparison, call-site shape facts, constants, message codec, dispatch) and by a correspondence sweep of the real "
      "Tub/Negotiation pair (756 configurations incl. hash mismatch) evaluated against the model with vm_compute; chunkings and 21 malformed-block "
      "families are checked directly on the implementation.",
      "Modelled, not verified: TLS (no-op startTLS, peer certificate supplied by the harness), Twisted's Protocol plumbing, sha1 (the hash is a "
      "number in the model; 'matching contents' = equal hashes). A str is modelled by its UTF-8 bytes; str.lower on ASCII keys; int() / str.split() "
      "on ASCII text (the model abstains elsewhere); the decimal round trip int('%d' % n) = n is tied by the correspondence, not proved, so the "
      "wire-level run (lib/NegWire.v wire_negotiate) is related to the record-level theorem by evaluation only. The phase machine abstracts block "
      "content to the handler's verdict; that a refusal leaves the Tub's tables untouched is checked on the real code only.",
      "Coq proof over translated functions + correspondence (vm_compute) against real Negotiation", "DESIGN.md 5/C13")

check("C05",
      "Theorems (Coq, for an uninterpreted certificate hash and all roles / presentations / claims / dialled ids): a hello is accepted for t only if "
      "the LEAF certificate of the handshake hashes to t (extra certificates the peer sends along never matter), the peer claimed t and (client) t is "
      "the dialled id; every mismatch rejects (exact iff); for every sequence of header blocks in every chunking from a peer that keeps sending after "
      "a rejection, every key given to Tub.brokerAttached is proven (receive-loop invariant over the phases). [Round 5: the same over RAW BYTES from "
      "the first byte of the connection -- C05_bytes_attach_proven / _no_attach_before_identity / _at_most_one_attach / _plaintext_knows_nothing: "
      "for ARBITRARY bytes in ANY chunking (also after errors), for every UTF-8 decoder, every behaviour of the non-identity checks and every "
      "redirect table (all universally quantified), every key registered is the hash of the leaf certificate (client: and the dialled id), no key is "
      "registered before a received block passed the identity checks of evaluateNegotiationVersion1, at most one key per transport, nothing is "
      "believed in the PLAINTEXT phase; the model is Negotiation.dataReceived itself: translated block-splitter tests, translated phase dispatch, "
      "handlePLAINTEXTServer / handlePLAINTEXTClient translated statement by statement (incl. Listener.lookupTubID's test, the redirect branch and "
      "their exception classes), parseLines, handleENCRYPTED, handleDECIDING.  C05_without_asserts(+_certificate_still_required): the same "
      "identity statements translated as python -O runs them accept, besides proven ids, exactly the anonymous peer on a listener, and nothing "
      "unproven once a certificate is present.  C05_inbound_reference_history: for every history of my-reference sequences (new and known clids, "
      "with / without URL) every reference tracker that carries a URL names the connection's key; what a my-reference for a KNOWN clid does to the "
      "tracker's URL is read from Broker.getTrackerForYourReference.]  Two-ended session: any key ever "
      "registered at either end is proven, mismatches leave no connection, honest pairs connect; invariant over all histories of Tub.brokers; "
      "getReference and inbound reference URLs only over proven connections; for every history of getReference requests made before "
      "startService (queued) and after it, each request is answered for its OWN FURL (connection key and object name); with several lookups pending and connections -- also "
      "inbound ones from the Tubs being dialled (crossed connections) -- completing / failing in any order, a lookup for X is only answered with a "
      "Broker whose leaf certificate hashes to X. Translated from the AST on every run: the binding "
      "of the SturdyRef in startService's resumption loop, the identity fragment of "
      "evaluateNegotiationVersion1 (with and without its asserts), where receive_phase changes around it (handleENCRYPTED, error handler, non-deciding end), which certificate "
      "crypto.peerFromTransport returns, the attach key of switchToBanana, the listener lookup, the inbound-url check, the two plaintext handlers, "
      "the phase dispatch, the known-clid URL policy. Run on real Tubs over the "
      "in-memory network and compared with the model by vm_compute: the role x leaf x extra-chain x claim x dialled-id x GET-id matrix (968 cells "
      "quick), ~2000 raw-peer scripts (all block kinds, all chunkings, in-flight bytes delivered after hang-up; phase, theirTubRef and attached keys "
      "after every chunk), ~1700 byte scripts (57 block kinds incl. every plaintext-block variant, hybrid hello+decision blocks, duplicate / "
      "case-changed / undecodable my-tub-id lines, over-long blocks, redirects; byte-granular cuts; phase, theirTubRef, attached keys AND exception "
      "class after every chunk vs the byte-level model), ~100 my-reference histories (tracker table after every step), "
      "table histories interleaving Tub peers and raw peers, ~500 getReference request histories (several Tubs / names queued before start); ~760 crossed-connection histories on four Tubs (per-link scheduling, every completion order; Tub.brokers, "
      "tubConnectors and answered lookups after every event vs the model); a "
      "per-reference oracle judges every getReference result (Tub.brokers key, leaf certificate, reference URL, object a call reaches) and an oracle with an independently computed hash judges every "
      "brokerAttached and every table state; 23 malformed-block families, forged URLs, gifts.",
      "Trusted: the TLS handshake proves possession of the LEAF certificate's key (the tree's own crypto.peerFromTransport and twisted's "
      "Certificate.peerFromTransport run on a fake OpenSSL handle: leaf + extra chain certificates); Tubs always have a certificate; "
      "Negotiation._test_options unset. In the byte-level theorems UTF-8 decoding and all non-identity checks are universally quantified parameters "
      "(nothing assumed); the correspondence instantiates them concretely for ASCII / digit inputs only. parseLines and the statement order inside "
      "handleENCRYPTED / handleDECIDING are hand-modelled (tied by the byte correspondence); failure classes of the missing-certificate / "
      "error-block / timeout paths tied by correspondence only. The anonymous-peer "
      "refusal rests on twisted raising CertificateError and on `assert theirTubID` (C05_without_asserts says what remains under python -O). "
      "Tub.getReference's key path (SturdyRef.getTubRef, TubRef equality / hash) is tied by shape facts, not translated.",
      "Coq proof over AST-translated identity checks, plaintext handlers, phase dispatch and phase placement (invariant of the byte-level receive loop) "
      "+ exhaustive cell matrix, adversarial raw-peer block and byte scripts, reference and table histories "
      "on real Tubs (vm_compute correspondence)", "DESIGN.md 5/C05")

check("C07",
      "Theorems (Coq): for EVERY handler semantics above the tokenizer, any two chunkings of the same byte string give the same events and final state "
      "(feed_app / chunk_independent, by induction, no bound on sizes); instantiated for a transcription of banana.py's discardCount / inOpen / "
      "unslicer-stack logic; incremental = one-pass decoding; abandonment is final; every well-formed token stream encoded by the translated "
      "sendToken/int2b128 scans back to the same tokens (token and stream round trip); object numbering counts EVERY OPEN token -- built, rejected or discarded -- so back-references after a violation resolve as sent (lib/BananaRecvCount.v); 65 header bytes end the connection; a violation never pops the "
      "root and counts exactly the popped frames. Tie: type bytes, SIZE_LIMIT and the four integer codecs + the integer branch of sendToken are "
      "translated on every run; the real Banana class is driven with policy unslicers (21 opentype policies, 7 root modes) on well-formed and mutated "
      "streams under whole / bytewise / random chunkings and compared event by event and snapshot by snapshot (buffer, skip, discard, depth, inOpen, "
      "dead) with the model by vm_compute (about 1000 traces quick). Direct oracles on the real code: chunk independence (policy and standard "
      "unslicers), exact resynchronisation after a violation at any depth, 64/65-digit header boundary, nothing decoded after abandonment, no exception "
      "escapes dataReceived.",
      "Modelled, not verified: the standard unslicers (exercised by the oracle only), Twisted transports, the text of ERROR messages (not compared). "
      "'No exception escapes' is checked on every generated input, not proved.",
      "Coq proof of chunk-independence for a generic tokenizer + transcription of handleData; trace validation of the real Banana by vm_compute", "DESIGN.md 5/C07")

check("C19",
      "Theorems (Coq, 10, over all names, all block lists, all prefixes of the operation list = crash anywhere, all initial directory states incl. "
      "symlinks): FilePath.child + the parent() guard accepts exactly base/<one good component>; every path touched by an upload lies directly inside "
      "the target directory; after any prefix the final name is old or complete (atomic publish); an interrupted upload leaves neither a partial final "
      "file nor a .partial; gatherer and publisher paths are contained; services.json is at every crash point the complete old or new version. The "
      "guards, extensions and operation ORDERS of remote_putfile / save_service_data / move_into_place / _got_incident / remote_get_incident are "
      "translated from the AST on every run (fail closed); posixpath and FilePath functions, OS-level op traces (recorded by wrapping os/open) and "
      "crash views are compared with the model inside Coq (about 2200 traces quick); a filesystem oracle with a sentinel sibling directory checks the "
      "real services directly, with a crash injected before every OS operation.",
      "Trusted: rename(2) atomicity; no power-loss / fsync model; no concurrently planted links; posixpath and Twisted FilePath are hand-modelled and "
      "compared on every run.",
      "Coq proof over AST-translated op orders and guards + in-Coq correspondence of OS-level traces + sentinel-directory oracle", "DESIGN.md 5/C19")

check("C04",
      "Theorems (Coq, 18, over all op sequences Issue/StallRelease/Deliver/GiftReady/Turn/Disconnect): the calls entered on the receiver are a "
      "subsequence of the issue order (strictly increasing, NoDup); at every moment entered ++ waiting ++ dropped ++ inbound queue ++ wire ++ "
      "call being serialized (possibly paused in a streaming argument) ++ sender queue is ONE strictly increasing sequence; head-of-line "
      "blocking; at most one delivery waiting; a delivery with n third-party references becomes runnable exactly when all n have resolved and "
      "is refused at the first failure (for all n and all result sequences); after the receiver loses the connection nothing is entered any "
      "more, loss is final, deliveries are dropped only by a loss; no silent loss; sender never idle with queued work; receiver never stuck; "
      "every reachable state of a live connection can be settled; the eventual queue is an order-preserving channel. The Deferred network of "
      "a delivery is TRANSLATED statement by statement on every run from util.AsyncAND.__init__/_cbDeferred and "
      "call.ArgumentUnslicer.updateChild (symbolic execution into one Coq term each); queue disciplines, the disconnected guard of doNextCall, "
      "Broker.finish's queue drop, the wiring of receiveClose / TheirReferenceUnslicer._ready/_failed / ackGift are shape facts from the AST "
      "of slicers/root.py, broker.py, call.py, referenceable.py, eventual.py (fail closed), so e.g. pop() instead of pop(0), a dropped "
      "`remaining -= 1` or a missing disconnected guard regenerate different definitions and break the proofs. Step-by-step trace validation "
      "against a real Broker pair (sendQueue, slicer stack, inboundDeliveryQueue, waiting flag, entered list, disconnected flag, and per "
      "unready delivery num_unreferenceable_children / AsyncAND.remaining / _fired / unresolved gifts after every step; about 13 k step "
      "comparisons quick) and the translated AsyncAND against the real class on all result sequences up to 4 components, by vm_compute; "
      "direct oracle on entry order of instrumented remote_* methods incl. streaming slicers that yield Deferreds, one or two gifts per call "
      "resolved/failed in any order, real third-party gifts over three Tubs, schema rejections, re-entrant calls, receiver/sender connection "
      "loss, virtual time passing, every Broker/Banana configuration attribute that the reference tree lacks set to non-default values, random "
      "chunking; shrinking.",
      "Modelled, not verified: in-order delivery by the wire, Twisted Deferred chaining order, the receive parser (one Deliver step = the bytes "
      "up to the end of the next call; tied by trace validation; chunk independence of the parser is C07), a sender that is cut off (oracle "
      "only), gifts resolved only after their call is completely received, at most two gifts per call at argument level.",
      "Coq invariant proofs over op lists on translated queue disciplines and a statement-by-statement translated AsyncAND/updateChild + "
      "step-by-step trace validation on a real Broker pair", "DESIGN.md 5/C04")

check("C06",
      "Theorems (Coq, 18, over all states / messages / interleaved histories on two connections): a call enters only the broker's three methods "
      "(clid 0), or an object present in this connection's export table under that clid with attribute 'remote_'+name (and in its interface); exports "
      "were granted on that same connection with positive refcount; name lookups yield only registered or handler-provided objects; only registered "
      "Copyable classes are instantiated; open types are a closed allowlist; refusals are pure; connection-locality (non-interference with the other "
      "connection's table, frame property). Translated on every run: the 'remote_' prefix, clid lookup and refusal kinds (Violation vs KeyError), "
      "ReferenceableTracker.decref (PyLite), RIBroker's method set, NAMEBITS, registry key sets after import. Per-event trace correspondence "
      "(about 3000 events quick) of hand-built token streams (live / stale / foreign / negative / huge clids, 21 hostile method names, your-reference, "
      "copyable and other open types, getReferenceByName / decref) against one real Tub with two real Brokers; independent capability-bookkeeping "
      "oracle with instrumented application objects and shrinking.",
      "Dropping the whole connection (unknown your-reference, undecodable method name) counts as a permitted refusal. Name lookups are excluded from "
      "the history-level non-interference theorem (the name table is Tub-wide by design). Modelled, not verified: Banana token layer, RIBroker "
      "argument schema, weakref collection of names, gifts.",
      "Coq proofs over all histories + AST translation of dispatch facts + per-event trace correspondence on real Brokers", "DESIGN.md 5/C06")

check("C11",
      "Theorems (Coq, for every handler semantics above the tokenizer and every chunk sequence): the accept/reject verdict on a token is a function of "
      "its first 65 bytes; a rejected incomplete body empties the buffer and exactly the missing byte count is skipped; skipped bytes are neither "
      "inspected nor stored; if the tasters accept a body only when it fits B then the bytes held never reach 65 + max(B, SIZE_LIMIT); 65 header bytes "
      "without a type byte end the connection; the size-limited tasters of the banana.py transcription accept a sized body only within their limit; "
      "the negotiation phase refuses more than 4096 buffered bytes (translated constant); index tokens: openerCheckToken of BOTH root unslicers is translated from broker.py / slicers/root.py by symbolic execution and proved to bound the first index token by the longest opentype and the class name after OPEN copyable by the longest registered Copyable name (2240-cell correspondence with the real methods). Tie: the tokenizer model is the one validated by C07; here "
      "oversize claims (limit+1 .. 2^448-1) under size-limited tasters are trickled in 1..4096-byte chunks on the real Banana and buffer length / "
      "skip count are compared with the model after every chunk. Direct oracle with the REAL constraint classes (ByteString, Integer, Number, "
      "Unicode, ListOf, TupleOf, DictOf, SetOf, nested) as root constraint: oversize bodies at leaf positions, high-water mark of len(buffer) against "
      "65 + the schema bound, incl. containers that admit no element (TupleOf(), maxLength=0, maxKeys=0); an ERROR token announcing more than "
      "SIZE_LIMIT must be refused when its header is complete; index tokens on a REAL Broker root (first opentype string; class name after OPEN "
      "copyable inside error/answer responses) bounded by the longest opentype / registered Copyable name; negotiation cap at 4096/4099/4100/10000 bytes.",
      "The schema bound of a real constraint tree is computed by the harness from the constraint objects' public attributes; Decimal and VOCAB "
      "expansion carry no size parameter in the schema vocabulary and are outside the bounded fragment.",
      "Coq proof of buffer bounds for a generic tokenizer + per-chunk correspondence + high-water oracle on real constraints", "DESIGN.md 5/C11")

check("C14",
      "Theorems (Coq, 20), for every finite schedule of a two-Tub model with VIRTUAL TIME and IDENTIFIED lookups (ops: lookups, dialled hints, block "
      "deliveries, cuts, per-end close notifications, restarts, forced time-outs, Advance dt = time passes up to the next armed timer and the due "
      "TubConnector timers / listening-end negotiation timers fire, instant retries from errbacks, handle-old setting): at quiescence M's current "
      "connection is c iff S's is c (full statement, inductive per-connection invariant); the current connection is the unique live Broker end; "
      "decision lemmas on the TRANSLATED compareOfferAndExisting (older seqnum / 'none' from the same incarnation rejected, different incarnation "
      "accepted, equal accepted, greater rejected, pre-0.2.0 by handle-old age) AND their composition with the master's step: a redundant offer of "
      "the connected incarnation leaves the master's Tub and every other connection untouched and is hung up, an offer of another incarnation "
      "becomes the current connection with the next seqnum; every lookup number handed out is either answered at a time within "
      "CONNECTION_TIMEOUT (translated constant) of the lookup or still waiting with its deadline strictly ahead and at most CONNECTION_TIMEOUT "
      "after the lookup; answered + waiting numbers are exactly 0..issued-1, each once (never lost, never answered twice); the clock is never "
      "blocked (Advance dt>0 moves it); nobody waits without a live connector or while connected; the forced time-out errbacks exactly the waiters "
      "(uses the order of effects TRANSLATED from Tub.connectionFailed, so a retry from inside an errback gets a connector and a time-out of its "
      "own); for every schedule, whenever both Tubs hold the same current connection the non-master's slave_table record is exactly the master's "
      "(incarnation, seqnum) of it, whoever dialled (guard TRANSLATED from acceptDecisionVersion1; invariant: every decision in flight on the "
      "master's current connection names its current incarnation and seqnum). 'A redundant attempt never displaces' is refuted for offers that remember the master's past life (known "
      "finding, replayed on real Tubs). Tie: fail-closed AST translation of compareOfferAndExisting / handle_old, of the connectionFailed effect "
      "order, the slave_table guard, CONNECTION_TIMEOUT, SERVER_TIMEOUT, and about 70 shape facts of negotiate / connection / pb / broker (incl. "
      "who arms / stops which timer); 1512 decision cases, 24 scripted and 150 seeded schedules of two real Tubs on the in-memory network compared "
      "with the model after every step (clock, brokers, master/slave tables, connector AND its deadline, Broker creation time, WHICH Deferreds wait "
      "-- by identity -- and which lookups were answered when and how, link states and queues). Direct oracle (a fixed battery independent of the "
      "seed + seeded runs + corpus witnesses per seeded-change family): cross-connects with 1-3 hints, cuts, restarts, black holes, one-sided cuts "
      "after connections dialled in either direction with redial by the side that noticed (several rounds, also with a concurrent outbound "
      "negotiation to a third Tub around the redial), raced cross-connect then cut then new lookups, lookups issued re-entrantly from every "
      "callback / errback, lookups queued before startService, byte- and block-granular delivery, virtual time with reactor-like handling of "
      "exceptions in timer callbacks: agreement at quiescence, no displacement by a redundant attempt, restart and knowing redial displace the "
      "stale connection, every getReference (re-entrant and queued ones included) fires exactly once within its own CONNECTION_TIMEOUT.",
      "Modelled, not verified: Twisted Deferreds/reactor, TLS (no-op), whole-block delivery and TCP connect + GET/101 folded into the dial step in "
      "the model (byte interleavings by the oracle only), incarnations as integers, integer-second virtual time with timers firing at their "
      "deadline, version/vocab negotiation assumed to succeed (C13), two Tubs in the model (a third Tub and lookups queued before startService "
      "only in the oracle runs); handle-old is an input of the model step but its branch is unreachable between two modern Tubs (not proved).",
      "Coq inductive invariants over all schedules incl. virtual time + translated decision function + trace validation of real Tubs", "DESIGN.md 5/C14")

check("C15",
      "Theorems (Coq, 12, over all event histories Rx/Tick/Close on a model built from the translated timer callbacks; time exact in integer ms): "
      "an idle connection is torn down by last-activity + 2T + EPSILON + reactor lateness (tight); arrivals at least every T => never torn down; "
      "teardown / PING only when idle for more than T / K; PING within 2K + EPSILON; at most one teardown; connectionLost cancels both timers for "
      "good; PING/PONG are deleted from the token stream with one PONG n per PING n; byte-level echo for all n < 2^448 (translated int2b128 / "
      "b1282int) and refusal above. Tie: keepaliveTimerFired, disconnectTimerFired, the arming blocks of connectionMade, the dataReceived stamp, "
      "the cancel blocks of connectionLost, sendPING/sendPONG and EPSILON are translated on every run; about 2400 timer schedules on the real "
      "Broker under a virtual integer clock (teardown / ping times, pending timers after every event) and 512 PING/PONG cases compared by "
      "vm_compute; direct oracles incl. float seconds, pending callRemote -> DeadReferenceError, two live Tubs with a black-holed network, PING/PONG "
      "at every token boundary of nested messages under all chunkings.",
      "Integer-ms time (binary-float ties at an exact boundary out of scope); one time.time() per reactor turn; PING/PONG transparency is proved on a "
      "token-level dispatch model (byte level: C07 + correspondence).",
      "Coq proofs (lia) over event lists on translated timer callbacks + vm_compute correspondence with the real Broker under a virtual clock", "DESIGN.md 5/C15")

check("C08",
      "Theorems (Coq, over all op sequences Send/RecvOH/RecvHO/DropProxy/HandleRefLost/SendHome/ConnLost with FIFO channels): the same proxy for "
      "every re-delivery while it is held and at most one live proxy per clid, for all histories satisfying the exact guard that excludes D16 "
      "(_partial), and the 15-step refutation (D16, known finding, replayed on real Brokers); the clid put on the wire was allocated for that object "
      "and for no other; a proxy sent home and a call through a proxy resolve to the original object in EVERY history. Tie: "
      "ReferenceableTracker.send/decref translated (PyLite), getRef / _handleRefLost / freeYourReferenceTracker expressions and table shape facts read "
      "from source (incl. the dead-weakref test of both getRefs); 543 random histories on two real Brokers with message-granular delivery compared "
      "with the model after every action (tables, counts, Python is-identity classes of delivered objects vs model proxy ids, resolved objects) by "
      "vm_compute. Direct oracle: identity of delivered references vs held proxies, home 'is' original, calls reach only the original, bound-method "
      "witness, three-Tub gift scenario in all 6 role orders.",
      "Gifts are checked on real Tubs only (not in the Coq model). Modelled, not verified: CPython refcount collection of proxies (DropProxy is an "
      "explicit op), FIFO transport and eventual queue, Banana serialisation; one direction of one connection.",
      "Coq invariant proof (guarded) + refutation witness + trace validation (vm_compute) on real Brokers + identity oracle", "DESIGN.md 5/C08")

check("C09",
      "Theorems (Coq, all op sequences of the same model): counting invariant refcount = received + my-references in flight + decrefs in flight "
      "(+ discarded); no early release (a live proxy or a reference in flight => the owner maps the clid, to the object it was allocated for); the "
      "assertion in decref never fails; clids are never reused (allocation log NoDup, functional, monotone); no leak at quiescence when no "
      "my-reference was discarded (_partial) and its refutation (D9, known finding); connection loss empties both tables for good. Tie and "
      "correspondence as C08 (543 histories quick / 6000 thorough, tables and counts compared after every action). Direct oracle: export / import "
      "tables, every decref call recorded by a wrapper, weakref liveness after drain, tables after connection loss.",
      "Modelled, not verified: CPython refcount collection of proxies, FIFO transport and eventual queue, Banana serialisation; one direction of one "
      "connection.",
      "Coq invariant proof over an executable model + translated counting functions + trace validation (vm_compute) on real Brokers", "DESIGN.md 5/C09")

check("C10",
      "[Round 5: 27 theorems. NEW: ancestry (length/order kept, every ancestor whose name fits is found by check()/trap(), nothing invented, "
      "prefix-closed entry by entry), type name and message exact when they fit, uniform wrapping stated on what the caller can observe "
      "(delivered_check / delivered_type equal for EVERY transmitted failure incl. Violation and RemoteException; RemoteException's ancestry read "
      "from tokens.py), the second sentence end to end by composition (C10_report_end_to_end); the sender of lib/Send.v composed with the C07 "
      "transcription of Banana.handleData (lib/BananaRecv.v) for every wire form of the primitive tokens and every receiving policy: nesting = "
      "sender's stack depth, objectCounter advance = openCount advance, back at top level whenever the sender is back at its RootSlicer, a sibling "
      "after any history meets a receiver at top level (two _partial theorems: hypothesis 'the receiving Banana did not drop the connection'). "
      "NEW correspondences (vm_compute): the counting receiver (cstep) against the real Banana.handleData + PB unslicers token by token in both "
      "directions of every batch (~980 traces / 124 k tokens quick; `viol` = real handleViolation calls), drain against the instrumented "
      "Broker.scheduleCall/_doCall/callFailed of every batch, deliver / delivered_check / delivered_type against ErrorUnslicer.receiveClose + "
      "wrap_remote_failure + Failure.check, fail_request against PendingRequest.fail, requal against CopiedFailure.setCopyableState. Catalogue: "
      "8 shapes of legal dicts whose keys cannot be ordered (argument and echoed result, depth 0-2), 5 kinds of exceptions that cannot be rendered. "
      "RELAY path (CopiedFailureSlicer.getStateToCopy, which does not truncate): relay_state model, C10_relay_end_to_end (a relayed failure of a "
      "class with a qualified name fits A's FailureConstraint and keeps type / message / ancestry), C10_relay_dotless_refuted (a dotless 200-byte "
      "name gains a byte: unreachable from reflect.qual), compared with the real CopiedFailureSlicer; relays at the byte limits in the catalogue. "
      "props/C10.v labels every theorem [T]/[C]/[S]; the theorems that restate one shape fact (faithful_delivery, deliveries_all_handled, "
      "fail_fires_once, connection_stays_up, receiver_rejections_contained) say so and name the correspondence that carries the content.] "
      "[Round 4: fields fit whichever travel as VOCAB tokens (taster read from source); failing a request fires once under every logging option (fallback names read from source); Tub logging options and the negotiated vocabulary as batch dimensions.] [Round 3: wrapping is unconditional in the failure's class (foolscap's own exception classes, 3-party relay); every inbound delivery is handled whatever the readiness of earlier ones (refused / unresolvable gifts: C10_deliveries_all_handled); fixed corpus witness per seed family.] Theorems (Coq; receiver-side rejections stay inside their top-level object (reportViolation shape fact); f.type rebuilt from the "
      "transmitted name alone; multi-fault calls and homonymous exception classes in the catalogue). No hypothesis on the exception: FailureSlicer.getStateToCopy is total and every field it sends fits the byte limits "
      "FailureConstraint enforces (type 200, value 1000, traceback 2000, each parent 200) for any class name, any message incl. text UTF-8 cannot "
      "encode, a raising __str__, any traceback, both unsafeTracebacks settings; each field is the escaped text or a whole-character prefix + '..' "
      "and is well-formed UTF-8; truncate (translated from call.py) never exceeds its limit; send side: a Violation at any depth writes ABORT n "
      "CLOSE n for every open sequence, innermost first, returns to the root, keeps the connection up; for every event list a number-checking "
      "receiver never loses sync and receives exactly the finished objects; a fault-free object sent after any history is delivered in full, "
      "histories only shift OPEN numbers; every OPEN gets the sender's number at a receiver that counts discarded OPENs too (handleData shape fact); "
      "a non-Violation exception drops the connection (the one known finding). Tie: truncate, both sides' "
      "limits, the error handler, safe_str, elision constants and the doPop/sendAbort flags and statement orders of produce / handleSendViolation / "
      "popSlicer / pushSlicer / childAborted are read from the AST on every run; ~600 batches (wire skeleton of the caller's bytes) and ~150 Failure "
      "states (byte for byte) compared by vm_compute. Direct oracle on real Broker pairs: batches of 3-6 concurrent calls with the faulty call at "
      "every position, 15 fault kinds, 12 exception classes x 27 message shapes, all 4 option settings, shared-container follow-up calls after every "
      "fault: sibling results exact, connection up, "
      "callee ran exactly the expected methods, delivered failure identifies type/parents and carries a maximal message prefix, wrapped iff types "
      "are hidden, never a local Violation for a remote exception.",
      "Modelled, not verified: token values abstracted to one data token on the send side (the BananaRecv composition quantifies over all wire "
      "forms instead); the two BananaRecv theorems assume the receiving Banana did not drop the connection (no lost sync is proved for the "
      "number-checking receiver and compared token by token with the real one); that each rejected / failing call is answered by exactly one "
      "`error` (callee's callFailed / _callFinished path) is oracle only; Twisted Deferred/Failure.",
      "Coq proof over executable models + AST translation (truncate, limits, shape facts) + vm_compute correspondence (wire skeleton, Failure "
      "fields, receiver bookkeeping per token, delivery queue, delivery/wrapping/check) + fault-injection oracle", "DESIGN.md 5/C10")

check("C17",
      "Theorems (Coq, 14, over all programs): eventually() never runs the callable synchronously; run order = submission order incl. re-entrant "
      "submissions (subs = rans ++ queued); exactly once when drained; a raising callable does not prevent later ones, new work waits for a later "
      "turn; queued work always has a reactor call pending; every flush notification has pending = 0 and no callable running (full strength after "
      "the three eventual.py repairs); Promise: a second resolve/break is refused and changes nothing, an accepted resolve leaves EVENTUAL (depends on "
      "`_state = BROKEN` being an assignment), resolution is stable, every observer and delivery sees one outcome; OneShotObserverList single result. "
      "Per-promise exactly-once / in-order delivery is proved as three local facts (_partial; the global accounting invariant is stated in a comment "
      "and evaluated by the oracle). Tie: append position, swap-before-run, iteration order, try/except, _in_turn marks, flush guard, observer loop "
      "shape, _break Assign/Compare, resolve guard, state tuples, drain order and constants are AST shape facts regenerated on every run; "
      "src_cfg = good_cfg by reflexivity; 1890 queue + 5908 promise + 1092 observer-list programs run on the real classes one reactor call at a time "
      "and compared (full event trace + final snapshot) with the models by vm_compute. Direct oracle with an independent expected-resolution evaluator.",
      "Modelled, not verified: Twisted Deferred and Clock; log.err() = swallowed; the Promise model has its own FIFO with the queue model's "
      "discipline; methods returning Deferreds and flush callbacks that call flush are not generated.",
      "Coq proofs over all programs on models parameterised by translated shape facts + trace validation (vm_compute) of the real classes", "DESIGN.md 5/C17")

check("C18",
      "Theorems (Coq, 14, over all histories): msg always returns a number; logger-assigned numbers are exactly seq+1, seq+2, ... (strictly "
      "increasing); right after an event its (facility, level) buffer holds at most its limit and is a suffix of old ++ [e]; no buffer ever exceeds "
      "the largest configured limit; Subscription: |queue| <= MAX_QUEUE_SIZE, 0 <= in_flight <= MAX_IN_FLIGHT, delivered (++ queue) is a subsequence "
      "of emitted, for any Send/Turn/Ack/Nack schedule; an incident is trigger :: sort_by_num(everything buffered) (++ up to TRAILING_EVENT_LIMIT "
      "later events) and is recorded whatever the events contain (full strength, from the translated three-stage serialize fallback); nothing "
      "abandoned. Tie: constants (levels, size limits, queue limits, trailing limits), Count (PyLite) and shape facts of add_event (stage order, "
      "trim loop operator and pop side), msg's catch-all, declare_incident, incident_declared, trailing_event, finished_recording, "
      "serialize_to_json_utf8 stages, Subscription.send / start_sending / _event_received are regenerated on every run and interpreted by the model; "
      "180 logger histories and 223 Subscription schedules on the real classes compared step by step by vm_compute. Direct oracle: hostile kwargs "
      "(failing repr/str, non-text keys, cycles, huge ints, deep nesting, missing format keys, odd levels/facilities), bounds after every op, every "
      "expected incident published with trigger and buffered events and no leftovers, read-back via flogfile.get_events and LogDumper with equal "
      "num/level/rendered message, format_message total on random event dicts.",
      "JSON is abstracted to a measured per-event 'first stage encodable' flag plus the translated fallback structure (CPython json modelled, not "
      "verified); one op = one call plus a full eventual turn; set_buffer_size does not trim until the next event (stated as such).",
      "Coq proofs over an executable model interpreting translated constants/shape facts + vm_compute correspondence + hostile-input oracle", "DESIGN.md 5/C18")

check("C20",
      "[Round 3: identity is also judged on serialized / received copies (C20_copy_carries_identity); C20_no_stall / C20_attempt_starts over the translated store-before-connect order of Tub.getBrokerForTubRef with a Tub-history correspondence (lib/Connector.v); encode-side and history oracles.] Theorems (Coq, all strings): decode_furl ends in a triple, BadFURLError or ValueError; decode(encode(t,h,n)) = (t,h,n) for every decoded and "
      "every well-formed triple, every decoded triple is well-formed; SturdyRef equality iff (tub id, name) equal, equal references hash alike, "
      "TubRef identity = tub id; get_endpoint over any handler set / address filter ends in an endpoint or InvalidHintError (ports provably 1-5 "
      "digits so int() cannot raise); for each of the four hint patterns a continuation-passing backtracking matcher that follows sre's order takes "
      "<= hint_K*(|s|+1) steps on every subject, via a static cost analysis proved sound once (an_sound) and re-run by vm_compute on the regenerated "
      "patterns -- the pre-fix (\\d+){1,5} is rejected by it and shown ~n^5; FURL matching is bounded quadratically (_partial: linear is refuted, "
      "known finding oracle/furl-quadratic). Tie: the five pattern strings are evaluated from the module constants, parsed with re._parser and "
      "emitted as a Coq regex AST (fail closed), with the search/match method, the 32-char cut, separators, base32 alphabet, _distinguishers tuples "
      "and statement shapes of decode / encode / convert_legacy_hint / hint_to_endpoint / get_endpoint; match result and all group spans compared "
      "with `re` on 4.9 k strings (exhaustive short strings behind each literal prefix, grammar + mutations incl. non-ASCII digits) and the "
      "functions on 1 k cases with 6 handler sets by vm_compute. Oracle on the real functions: totality, round trip, identity (12.5 k pairs), "
      "endpoint arguments, CPU-time growth on 25 adversarial families in killed-on-timeout child processes; 6 regression witnesses.",
      "Modelled, not verified: sre's work is within a constant factor of the model's step count (CPU-time growth is measured only); \\d / str.lower / "
      "int digit values come from the interpreter's unicodedata (regenerated each run); tor.is_non_public_numeric_address is an input of the model; "
      "handlers run up to the endpoint constructor; ensure_str on bytes not modelled.",
      "Coq proof over regex ASTs translated from the source (sound static cost analysis) + vm_compute correspondence against re + timing oracle", "DESIGN.md 5/C20")

check("C03",
      "Theorems (Coq, 16, for every finite sequence of callRemote / callRemoteOnly / locally rejected calls, answers, errors and answer-violations "
      "for any request id, complete()/fail() invoked on any request object at any time (send failure, late answer), connectionLost/shutdown with any "
      "reason (a class listed in LOST_CONNECTION_ERRORS, a proper subclass of one, an unrelated exception), other callables -- raising or not -- queued in the shared eventual-send queue at any point, and turns of that "
      "queue): no Deferred is fired twice; the first outcome is final under every continuation; waitingForAnswers holds exactly the "
      "registered requests that have not fired (unique, fresh ids); whenever the broker is disconnected and the eventual queue is empty the table is "
      "empty and every callRemote has fired exactly once, and loss followed by |queue| turns always reaches that state; late complete/fail/answers "
      "fire nothing; the only exception is removeRequest's KeyError on a late complete(), which changes nothing; calls on a dead broker fail at once "
      "with DeadReferenceError; every request pending when the connection ends fires with exactly the outcome the reason maps to, which is "
      "DeadReferenceError for every lost-connection reason, subclasses included (the test of abandonAllRequests -- Failure.check vs exact-type "
      "membership -- and the list are translated); one turn of the eventual queue removes exactly one event, so an event that raises drops nothing queued behind "
      "it (the FIFO append, the batch snapshot and the per-event try/except of eventual._turn are translated). PendingRequest.complete/fail and Broker.finish are translated statement by statement from the AST into programs that "
      "the model interprets (plus shape facts for newRequestID, add/remove/getRequest, abandonAllRequests, _callRemote's commitment points and the "
      "Answer/Error unslicers); every run validates about 6000 recorded traces (real Broker pairs cut after sampled / all byte offsets in both "
      "directions, 7 call mixes, 7 ways of ending the connection, the reason drawn from a 24-member family: the listed classes, every stock twisted / "
      "OpenSSL subclass, ad-hoc subclasses, unrelated exceptions, each with 0..n calls unsent / hanging / in flight / answered; raising / well-behaved eventually() callables and "
      "notifyOnDisconnect handlers and a second connection lost in the same turn; 600 random op sequences on the real objects) step by step against the model with "
      "vm_compute, and a direct oracle (fire attempts per Deferred == 1, table empty, no escaped exception, abandoned requests get DeadReferenceError "
      "iff the reason is a lost connection by an independently written issubclass rule, other reasons unchanged; with the connection up and all "
      "bytes delivered the outcome of every call and of a probe call is the same for two-/three-piece and fixed-size chunkings of both "
      "directions as for whole delivery, over mixes with STRING/FLOAT/LONGINT/sequence tokens rejected on either side) also runs on real Tubs through "
      "shutdown, cuts and connection replacement.",
      "Modelled, not verified: Twisted Deferred/maybeDeferred and the eventual queue's FIFO order; logging inside fail/complete is assumed not to "
      "raise; Banana parsing and the unslicer plumbing are tied by shape facts and the cut sweep, not modelled; in-memory transports, no TLS.",
      "Coq proof over an interpreter of AST-translated method bodies + trace validation (vm_compute) of real Broker pairs under byte cuts", "DESIGN.md 5/C03")

check("C02",
      "Theorems (Coq): checkObject c o = true <-> satisfies c o (declarative relation over all 14 constraint constructors); checkAllArgs spec "
      "(no more positionals than declared, no name bound twice, every bound name DECLARED and satisfying its constraint, every required argument "
      "bound) for every method schema INCLUDING the __ignoreUnknown__/__acceptUnknown__ flags (C02_unknown_flags_never_accept: neither flag ever "
      "lets an undeclared name reach the body). The receive path is ArgumentUnslicer as the state machine it is (count -> positional values -> "
      "keyword name -> keyword value, one step per child of the `arguments` sequence): for ALL children lists -- any count token (too large, too "
      "small, not an INT, missing), values where names are expected and vice versa, sequences that stop anywhere, forged back-references -- "
      "recv_arguments = Invoke a kw -> checkAllArgs ms a kw = Ok (C02_args_any_stream, rests on the translated dominance shape fact of "
      "Broker._doCall), hence every value a method body receives satisfies its declared constraint; C02_counted_streams proves that recv_call "
      "(positional/keyword trees) IS this machine on the streams whose count equals the number of positional trees (refinement by induction), so "
      "no assumption about the count remains. The result side is refuted on the faithful model (C02_result_refuted: four witnesses, D6, known "
      "finding) and proved only for constraints whose token-level tasters are complete (C02_result_partial); one-call-only is refuted for "
      "strictTaster constraints and for the two unknown-argument flags (C02_unknown_flags_refuted: `assert accept` -> connection lost; "
      "None.checkObject -> AttributeError; known findings) and PROVED where it holds (C02_one_call_violation: for schemas of non-strict token "
      "constraints Int/Number/ByteString without flags every counted stream either invokes with checked arguments or fails exactly that call with "
      "a Violation -- through the taster tables / strict flags / checkToken, not through _doCall). Tie: ArgumentUnslicer.checkToken/receiveChild/receiveClose are EXECUTED statement by "
      "statement by the generator on all 370 small concrete states and the machine's parameters (stage comparison, zero-count guard, first index, "
      "assert accept) are those reproducing every effect (rewrites that keep the effects keep the parameters); getKeywordArgConstraint's flag "
      "order, checkAllArgs' per-name loop, the numeric branches of IntegerConstraint.checkObject and sendToken (PyLite), every length / fullness "
      "comparison, taster tables, Constraint.checkToken's comparator, strictTaster / opentypes, setConstraint assertions, the UnicodeUnslicer size "
      "guard, the _doCall dominance, 'AnswerUnslicer contains no checkObject', 'ReferenceUnslicer re-checks' are translated on every run; ~1000 "
      "hand-encoded `arguments` child lists (110 framing cases with hostile counts, 36 flag cases, 256 required/Optional x positional-count x "
      "keyword-subset bindings, generated single-point mutations incl. perturbed counts) and ~560 answer streams (incl. 160 ChoiceOf-over-container "
      "result constraints) on a real Broker pair compared with the machine by vm_compute. Direct oracle: instrumented remote_* methods and "
      "callbacks judged by the real checkers and an independent reference semantics; a refused call errbacks with Violation and a sibling call "
      "still works.",
      "Regexp constraints, Copyable/Failure attribute constraints, Shared, their-reference gifts and the CallUnslicer stages before the arguments "
      "(reqID / object / method-name lookup) are outside the model; RemoteInterface arguments: receiver's side only; 'a Violation leaves other "
      "calls untouched' is oracle-checked (the model has no broker queue); wire trees carry ASCII text (a keyword name that is not valid UTF-8 "
      "drops the connection: oracle-only finding).",
      "Coq proof (checkObject <-> satisfies, checkAllArgs spec, ArgumentUnslicer machine + refinement, dominance shape fact) + hand-encoded token streams on a Broker pair vs model", "DESIGN.md 5/C02")

check("C12",
      "Theorems (Coq): for all constraint trees c and values o with wf c, owf o, c12_guard c o: checkObject c o = true -> the receiver's token-level "
      "checks accept every token of EVERY serialization of o (any connection vocabulary: VOCAB tokens carry the index; any number of repeated "
      "list/tuple/set/dict objects as references) and deliver o (induction on c; boundaries: the 2^31 INT/LONGINT split of the translated "
      "sendToken, bytelen n <= maxBytes, maxLength, maxKeys, tuple arity, UTF-8 size <= 6*maxLength); the same END TO END FOR EVERY METHOD SCHEMA "
      "(C12_call_delivered: any number of arguments, Optional ones, either unknown-argument flag, any positional/keyword mix: outbound "
      "checkAllArgs, slice, ArgumentUnslicer's per-argument constraints, inbound checkAllArgs, invocation with the same objects), also stated on "
      "the children of the `arguments` sequence as the receiver's state machine consumes them (C12_call_delivered_stream, via C02's refinement); "
      "AND FOR RESULTS (C12_result_delivered: what Broker._callFinished's checkResults lets through is accepted by the caller's AnswerUnslicer and "
      "handed to the callback); four refuted witnesses (ChoiceOf over OPEN-sequence alternatives = D7a, AnyStringConstraint with text, nested "
      "Optional, Any with an int >= 2^8000: known findings). c12_guard excludes exactly those regions. Tie: as C02 (shared gen/SchemaGen.v, incl. "
      "the _callFinished dominance of checkResults over the answer); ~1100 real callRemote calls vs send_call + recv_call (54 fixed + generated "
      "calls with one container object -- frozensets included -- occurring twice), ~90 echoed results vs send_answer + recv_answer, 900 checkObject "
      "differentials (inbound and outbound, also against an independent reference semantics), 260 taste cases vs real checkToken, 50 int_token "
      "cases vs real sendToken bytes, by vm_compute. Direct oracle: if the real outbound checkAllArgs accepts, the call is delivered with "
      "canonically equal arguments (and an echoed result comes back), never a Violation or a lost connection; if the sender rejects, nothing is sent.",
      "Cyclic values, regexp / Copyable constraints, Shared and the outbound side of RemoteInterface constraints (live Referenceables: oracle "
      "only, finding remote-subinterface-rejected) are outside the model; ms_wf assumes distinct argument names (python cannot declare otherwise).",
      "Coq induction on constraint trees over translated sendToken split / taster tables / comparators, lifted to whole calls and results + real callRemote differentials", "DESIGN.md 5/C12")

check("C16",
      "Theorems (Coq, 8, over all permitted event sequences Start/AttemptOk u/AttemptFail z/Lost/TimerExpired/Elapse/Reset/Stop; exact rational arithmetic): "
      "_active iff started and not stopped; no timer is leaked and, while active, attempts in flight + watched connections + pending timers = 1 (and "
      "ReconnectionInfo.state names it); every delay and timer lies in [0, maxDelay*(1+jitter*Zmax)] for draws |z| <= Zmax <= 1/jitter (the bound on "
      "the draw is necessary: C16_negative_delay_possible); after a success the next retry delay is initialDelay; while active something is always "
      "enabled and each failure / loss / expiry schedules exactly one next activity; after Stop -- also when issued while still queued for "
      "Tub.startService -- every later output is silent (no callback, getReference, watcher or timer) for every permitted continuation. Tie: all 10 "
      "methods of Reconnector are translated statement by statement into the model's actions on every run (constants as exact rationals from the "
      "literal text; pb.py call sites as shape facts; fail-closed white list for logging/info statements); ALL permitted sequences up to length 8 "
      "(11 560; 262 690 up to length 11 in the thorough tier) plus 150 seeded long sequences are run on the real class with a fake Tub, virtual "
      "clock and scripted normalvariate and compared inside Coq (flags, ordered outputs, delays). Re-entrancy and the reactor turn structure: "
      "AttemptOk u carries the stopConnecting/reset calls the user callback makes from inside (C16_reentrant_callback: they act as if issued right "
      "after _connected returned; the translated _connected takes the callback's actions as a parameter); a second family of micro-operations "
      "(attempts fire without draining, 'lose' queues the disconnect watchers like Broker, 'turn' = one turn of foolscap's eventual queue, "
      "stop/reset at top level / inside the callback / inside the user's disconnect handler / queued in the same batch) is enumerated "
      "exhaustively (15 043 sequences up to length 6; 68 472 up to 7 thorough) plus seeded long ones; the model history is the order in which "
      "the Reconnector's entry points were REALLY invoked (wrapped on the instance) and 'after stopConnecting returned' is judged on that order, "
      "after every operation and after a final drain. Real stack: the Reconnector of a real Tub keeps a connection to a second real Tub on the "
      "in-memory network while traffic of every kind (callRemote, callRemoteOnly, gifts, answers, half-delivered chunks; both directions; every "
      "stage of delivery) is in flight when the connection is lost (network cut / peer hangs up / local hang-up, with or without a reactor turn "
      "before the loss); all 120 single-item histories + seeded multi-round ones; the invariant is evaluated on the real stack (attempt "
      "Deferreds of Tub.getReference, Brokers that are connected and still hold the disconnect watcher, reactor timers), every round must "
      "reach 'waiting' with initialDelay and reconnect, then stopConnecting must silence it; the invoked entry points are compared with "
      "the model (state only). Direct oracle on every node plus seven real-Tub "
      "scenarios on the in-memory network (stop before start, cut, reconnect, stop in flight, unreachable back-off, Tub.stopService).",
      "Modelled, not verified: Twisted Deferred / DelayedCall semantics and the Tub (hand-written dispatcher), normalvariate as mu + z*sigma, "
      "doubles as exact Q. A draw below -1/jitter (probability ~3e-17) gives a negative delay: stated, not hidden.",
      "Coq invariant induction over the translated state machine + exhaustive enumeration of permitted sequences compared inside Coq", "DESIGN.md 5/C16")

check("C01",
      "[Round 5: the receiver's pending-completion mechanism is inside the model (lib/ObjDefer.v: Deferred table, placeholders, update callbacks with their "
      "return-value chain, num_unreferenceable_children, complete() cascades) with C01_deferred_refines / C01_deferred_sound_partial; end-to-end composition "
      "with C07 for every packetisation (C01_end_to_end_any_chunking); the in-band vocabulary switch is a theorem (C01_vocab_switch_in_band).] "
      "Theorems (Coq, unbounded; closed under the global context; guard = wf_obj_wide: references resolve in their scope, dict/Copyable shapes, "
      "minus the known-defective region; cycles through nested tuples are inside since round 5): for every well-formed canonical object term (nested "
      "list/tuple/set/frozenset/dict/registered Copyable/call scopes, ints of any magnitude, floats as 64-bit words, "
      "bytes/text/bool/None/Decimal, back-references incl. self-containing containers) the receiver's unslicer stack "
      "machine, in any admissible state, consumes exactly the sender's token sequence and rebuilds exactly the denoted "
      "graph (same node numbers, kinds, children, pointers: value, type and sharing) -- C01_run_slice, "
      "C01_slice_unslice(_list); Deferred level: for EVERY token stream and state the Deferred-level receiver refines that machine "
      "(C01_deferred_refines; firing a Deferred with any depth of cascade is invisible: C01_deferred_firing_is_invisible), hence for every "
      "graph a sender can emit, deferred tuples/frozensets included (wide guard, contains the strict one), whatever it delivers is exactly "
      "the denoted graph (C01_deferred_sound(_list)_partial; progress is per case, C01_deferred_progress_refuted shows it does not follow "
      "from the guard); composed with the token/byte layer (C01_bytes_roundtrip) and with C07's byte-level receiver for EVERY packetisation "
      "of the sender's bytes (C01_end_to_end_any_chunking(_deferred_partial), C01_chunks_decode); under any "
      "vocabulary table with distinct indices (C01_vocab_transparent, C01_roundtrip_any_vocab) and any interleaving of tokens and in-band "
      "table replacements (C01_vocab_switch_in_band); per-call scope: a call "
      "refers only to objects opened inside itself and a later call's reference to anything outside it is refused "
      "(C01_scope_refs_are_local, C01_scope_isolation_receiver); rejected messages keep the numbering in step (C01_discard_slice, "
      "C01_discard_rest_of_rejected); refuted witnesses for the known-defective region on both machines "
      "(tuple referenced from a Copyable attribute / dict key it contains). Tie: opentype / trackReferences / setObject-in-start / "
      "which start() registers a Deferred / whether each update() returns its argument (callback chain) / scoped classes / bool tokens translated "
      "from the source on every run plus about 75 fail-closed shape facts; correspondence by vm_compute on ~1140 (quick) / "
      "~2300 (thorough) generated graphs, vocab switches and Broker calls: sender bytes = encode_stream(envocab(slice("
      "canon_py g))), canon(unslice(decode real bytes)) = term, canon(dunslice(..)) = term (Deferred-level model delivers what the "
      "implementation delivered), graphs the implementation refuses / never completes (known findings, hand-written token streams no sender "
      "emits: wait cycles, self-containing tuple) are not delivered by the model either, and the real receiver's graph under 1-chunk / bytewise / "
      "random chunkings matched against the term; direct oracle: rooted graph isomorphism with type() at every node and "
      "list/dict/set identity preserved both ways, no sharing between two calls, Copyables registered after the connection was made, "
      "one object of every value kind at several places.",
      "Modelled, not verified: the SENDER is not a machine in the model (`slice` acts on the canonical term; ScopedSlicer's id() table, "
      "slicerForObject/registerRefID are tied by translated flags, shape facts and the sender-bytes correspondence only; C01_scope_refs_are_local is a "
      "statement about the guard); UTF-8 and struct '!d' codecs, Decimal(str(d)), Twisted's Deferred by its contract (callbacks once, synchronously, "
      "in registration order, each given the previous return value), Python hash/== for dict/set membership, Copyable registration, "
      "ready_deferred/AsyncAND (always None for value types). ObjDefer tests that a placeholder is where its callback expects it (defensive; "
      "compared per case); a reference to a frozenset (never emitted: tr_frozen = false, translated) and a Deferred child of a call scope "
      "are refused by the model. Progress of the Deferred-level receiver and canon-inverts-denotation are checked per case by vm_compute, not proved in general.",
      "Coq proof (nested induction over object terms, invariant over receiver states; step-wise refinement Deferred machine -> pointer machine; "
      "reuse of C07's chunk-independence theorem) + translation + correspondence + graph-isomorphism oracle",
      "DESIGN.md 5/C01")
