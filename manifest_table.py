check("C13",
      "Theorems (Coq, unbounded): exactly one decider for distinct tub ids; for every pair of endpoints (any version ranges, vocab ranges, "
      "hash functions) negotiate yields identical parameters = highest common version and vocab index with matching hash, or failure on both "
      "sides; success when compatible; spec of the translated best_overlap/check_inrange; 4096 header cap. The model is tied to the code by "
      "translation (best_overlap, check_inrange, master comparison, call-site shape facts, constants) and by a correspondence sweep of the real "
      "Tub/Negotiation pair (756 configurations incl. hash mismatch) evaluated against the model with vm_compute; chunkings and 21 malformed-block "
      "families are checked directly on the implementation.",
      "Modelled, not verified: TLS (no-op startTLS, peer certificate supplied by the harness), Twisted's Protocol plumbing, parseLines text "
      "parsing (exercised by the malformed families, not modelled).",
      "Coq proof over translated functions + correspondence (vm_compute) against real Negotiation", "DESIGN.md 5/C13")
