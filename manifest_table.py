check("C13",
      "Theorems (Coq, unbounded): exactly one decider for distinct tub ids; for every pair of endpoints (any version ranges, vocab ranges, "
      "hash functions) negotiate yields identical parameters = highest common version and vocab index with matching hash, or failure on both "
      "sides; success when compatible; spec of the translated best_overlap/check_inrange; 4096 header cap. The model is tied to the code by "
      "translation (best_overlap, check_inrange, master comparison, call-site shape facts, constants) and by a correspondence sweep of the real "
      "Tub/Negotiation pair (756 configurations incl. hash mismatch) evaluated against the model with vm_compute; chunkings and 21 malformed-block "
      "families are checked directly on the implementation.",
      "Modelled, not verified: TLS (no-op startTLS, peer certificate supplied by the harness), Twisted's Protocol plumbing, parseLines text "
      "parsing (exercised by the malformed families, not modelled).",
      "Coq proof over translated functions + correspondence (vm_compute) against real Negotiation", "DESIGN.md 5/C13")

check("C05",
      "Theorems (Coq, for an uninterpreted certificate hash and all roles / certificates / claims / dialled ids): evaluate = Accept t only if the "
      "presented certificate hashes to t, the peer claimed t and (client) t is the dialled id; every mismatch rejects (exact iff); two-ended session: "
      "any key ever registered at either end is proven, mismatches leave no connection on either side, honest pairs connect; invariant over all "
      "histories of Tub.brokers; getReference and inbound reference URLs only over proven connections. The identity fragment of "
      "evaluateNegotiationVersion1, the attach key of switchToBanana, the listener lookup and the inbound-url check are translated from the AST on "
      "every run; the full role x certificate x claim x dialled-id x GET-id matrix (482 cells quick) and random table histories run on three real Tubs "
      "over the in-memory network and are compared with the model by vm_compute; an oracle with an independently computed hash watches every "
      "brokerAttached and every table state; 23 malformed-block families, forged URLs, gifts.",
      "Trusted: TLS proves possession of the reported certificate (peerFromTransport is supplied by the harness); Tubs always have a certificate; no "
      "listener redirects; failure classes of the 101 / error-block / timeout paths tied by correspondence only. The anonymous-peer refusal rests on "
      "`assert theirTubID` (would vanish under python -O).",
      "Coq proof over AST-translated identity checks + exhaustive cell matrix and table histories on real Tubs (vm_compute correspondence)", "DESIGN.md 5/C05")

check("C07",
      "Theorems (Coq): for EVERY handler semantics above the tokenizer, any two chunkings of the same byte string give the same events and final state "
      "(feed_app / chunk_independent, by induction, no bound on sizes); instantiated for a transcription of banana.py's discardCount / inOpen / "
      "unslicer-stack logic; incremental = one-pass decoding; abandonment is final; every well-formed token stream encoded by the translated "
      "sendToken/int2b128 scans back to the same tokens (token and stream round trip); 65 header bytes end the connection; a violation never pops the "
      "root and counts exactly the popped frames. Tie: type bytes, SIZE_LIMIT and the four integer codecs + the integer branch of sendToken are "
      "translated on every run; the real Banana class is driven with policy unslicers (21 opentype policies, 7 root modes) on well-formed and mutated "
      "streams under whole / bytewise / random chunkings and compared event by event and snapshot by snapshot (buffer, skip, discard, depth, inOpen, "
      "dead) with the model by vm_compute (about 1000 traces quick). Direct oracles on the real code: chunk independence (policy and standard "
      "unslicers), exact resynchronisation after a violation at any depth, 64/65-digit header boundary, nothing decoded after abandonment, no exception "
      "escapes dataReceived.",
      "Modelled, not verified: the standard unslicers (exercised by the oracle only), Twisted transports, the text of ERROR messages (not compared). "
      "'No exception escapes' is checked on every generated input, not proved.",
      "Coq proof of chunk-independence for a generic tokenizer + transcription of handleData; trace validation of the real Banana by vm_compute", "DESIGN.md 5/C07")

check("C19",
      "Theorems (Coq, 10, over all names, all block lists, all prefixes of the operation list = crash anywhere, all initial directory states incl. "
      "symlinks): FilePath.child + the parent() guard accepts exactly base/<one good component>; every path touched by an upload lies directly inside "
      "the target directory; after any prefix the final name is old or complete (atomic publish); an interrupted upload leaves neither a partial final "
      "file nor a .partial; gatherer and publisher paths are contained; services.json is at every crash point the complete old or new version. The "
      "guards, extensions and operation ORDERS of remote_putfile / save_service_data / move_into_place / _got_incident / remote_get_incident are "
      "translated from the AST on every run (fail closed); posixpath and FilePath functions, OS-level op traces (recorded by wrapping os/open) and "
      "crash views are compared with the model inside Coq (about 2200 traces quick); a filesystem oracle with a sentinel sibling directory checks the "
      "real services directly, with a crash injected before every OS operation.",
      "Trusted: rename(2) atomicity; no power-loss / fsync model; no concurrently planted links; posixpath and Twisted FilePath are hand-modelled and "
      "compared on every run.",
      "Coq proof over AST-translated op orders and guards + in-Coq correspondence of OS-level traces + sentinel-directory oracle", "DESIGN.md 5/C19")
