"""C20: drivers of the real code -- the five compiled patterns, decode_furl / encode_furl,
SturdyRef / TubRef, convert_legacy_hint, the tcp / tor / i2p handlers and connection.get_endpoint.

Imported in-process by harness/c20.py; run as a script (json on stdin) for the CPU-time probes,
which are always executed in a child process that the parent kills after a time limit."""
import json, sys, time


def patterns():
    from foolscap import furl
    from foolscap.connections import tcp, tor, i2p
    return {"AUTH_STURDYREF_RE": furl.AUTH_STURDYREF_RE, "OLD_STYLE_HINT_RE": tcp.OLD_STYLE_HINT_RE,
            "NEW_STYLE_HINT_RE": tcp.NEW_STYLE_HINT_RE, "TOR_HINT_RE": tor.HINT_RE, "I2P_HINT_RE": i2p.HINT_RE}


METHODS = {"AUTH_STURDYREF_RE": "search", "OLD_STYLE_HINT_RE": "search", "NEW_STYLE_HINT_RE": "search",
           "TOR_HINT_RE": "search", "I2P_HINT_RE": "search"}


def run_pattern(name, s, method=None):
    """-> None | [span(0), span(1), ...] exactly as the function that uses the pattern applies it"""
    p = patterns()[name]
    mo = getattr(p, method or METHODS[name])(s)
    if mo is None:
        return None
    return [list(mo.span(i)) for i in range(p.groups + 1)]


def exc_name(e):
    return type(e).__name__


def decode(s):
    """-> ("ok", tub, hints, name) | ("exc", class name, is BadFURLError, is ValueError)"""
    from foolscap import furl
    try:
        t, h, n = furl.decode_furl(s)
        return ("ok", t, list(h), n)
    except BaseException as e:  # noqa
        return ("exc", exc_name(e), isinstance(e, furl.BadFURLError), isinstance(e, ValueError))


def encode(t, h, n):
    from foolscap import furl
    return furl.encode_furl(t, h, n)


def _fresh(s):
    """an equal but not identical str / bytes object"""
    if isinstance(s, bytes):
        return bytes(bytearray(s))
    return "".join(list(s)) if len(s) != 1 else (s + s)[:1]


MUTATIONS = ("append", "clear", "reverse-sort", "slice-assign", "sturdyref-hints", "tubref-locations")


def history_probe(s, mutation, as_bytes=False):
    """decode s, change the hint list of THAT result (or of a SturdyRef / TubRef made from s), decode an
    equal string again: the second result must be what a first decode gives, must not share its list
    with the first, and must re-encode to the same FURL.  -> list of problems (empty = fine)"""
    import copy
    from foolscap import furl as F
    from foolscap.referenceable import SturdyRef
    subj = s.encode("utf-8") if as_bytes else s
    problems = []
    try:
        first = F.decode_furl(_fresh(subj))
    except Exception as e1:
        try:
            F.decode_furl(_fresh(subj))
        except Exception as e2:
            if type(e1) is not type(e2):
                problems.append("first decode raised %s, second %s" % (type(e1).__name__, type(e2).__name__))
            return problems
        return ["first decode raised %s, the second one succeeded" % type(e1).__name__]
    expected = (first[0], list(first[1]), first[2])
    expected_furl = F.encode_furl(*expected)
    victim = first[1]
    sr = None
    if mutation in ("sturdyref-hints", "tubref-locations"):
        sr = SturdyRef(_fresh(subj))
        victim = sr.locationHints if mutation == "sturdyref-hints" else sr.getTubRef().getLocations()
        if victim != expected[1]:
            problems.append("SturdyRef(f) has hints %r, decode_furl(f) gave %r" % (victim, expected[1]))
    if mutation == "append":
        victim.append("tcp:injected.example:1")
    elif mutation == "clear":
        del victim[:]
    elif mutation == "reverse-sort":
        victim.append("zzz:9")
        victim.sort(reverse=True)
    elif mutation == "slice-assign":
        victim[:] = [h for h in victim if h.startswith("tcp:")] + ["tcp:only.example:2"]
    else:
        victim[:] = victim[:1] + ["tor:injected.onion:80"]
    for label, again_subj in (("an equal string", _fresh(subj)), ("the same string object", subj),
                              ("the other string type", _fresh(s if as_bytes else s.encode("utf-8")))):
        try:
            second = F.decode_furl(again_subj)
        except Exception as e:
            problems.append("after %s of an earlier result, decoding %s raised %s" % (mutation, label, type(e).__name__))
            continue
        if (second[0], list(second[1]), second[2]) != expected:
            problems.append("after %s of an earlier result, decoding %s gives hints %r instead of %r"
                            % (mutation, label, second[1], expected[1]))
        if second[1] is victim or second[1] is first[1]:
            problems.append("decoding %s returns the very list object of an earlier result" % label)
        try:
            re_enc = F.encode_furl(*second)
        except Exception as e:
            re_enc = "<%s>" % type(e).__name__
        if re_enc != expected_furl:
            problems.append("after %s, re-encoding the decode of %s gives %r, not %r" % (mutation, label, re_enc, expected_furl))
    sr2 = SturdyRef(_fresh(subj))
    if sr2.locationHints != expected[1] or sr2.getTubRef().getLocations() != expected[1]:
        problems.append("a new SturdyRef for the same FURL has hints %r (its TubRef %r), the FURL says %r"
                        % (sr2.locationHints, sr2.getTubRef().getLocations(), expected[1]))
    if sr is not None and (sr2.locationHints is sr.locationHints):
        problems.append("two SturdyRefs made from equal FURLs share one hint list")
    a, b = F.decode_furl(_fresh(subj)), F.decode_furl(_fresh(subj))
    if a[1] is b[1]:
        problems.append("two decodes of equal strings return the same list object")
    return problems


class _SamEndpoint(object):
    pass


class _RecordedI2P(object):
    """stands for txi2p's SAMI2PStreamClientEndpoint: records the constructor arguments"""
    def __init__(self, host, port):
        self._host, self._port = host, port

    @classmethod
    def new(cls, samEndpoint, host, port=None, **kwargs):
        if not isinstance(host, str) or not (port is None or isinstance(port, int)):
            raise TypeError("bad endpoint arguments %r %r" % (host, port))
        return cls(host, port)


_handlers = {}
I2P_DEFAULT_PORT = 7777
# third-party connection-hint plugins, by what their hint_to_endpoint does with every hint
PLUGIN_KINDS = ("plug-ok", "plug-invalid", "plug-keyerror", "plug-deferred-fail")


class _PluginEndpoint(object):
    def __init__(self, host):
        self.host = host


class _Plugin(object):
    def __init__(self, kind):
        self.kind = kind

    def hint_to_endpoint(self, hint, reactor, update_status):
        from foolscap.ipb import InvalidHintError
        if self.kind == "plug-ok":
            return _PluginEndpoint(hint), hint
        if self.kind == "plug-invalid":
            raise InvalidHintError("plugin says no")
        if self.kind == "plug-deferred-fail":
            from twisted.internet import defer
            return defer.fail(KeyError("late " + hint))
        raise KeyError(hint)

    def describe(self):
        return self.kind


def handler(kind):
    """one instance of each real handler class; nothing is connected"""
    if kind.startswith("tor@"):
        # "tor@<setup>@<stage>@<mode>": a FRESH Tor handler whose Tor is in that state (see tor_handler_in_state below)
        _, setup, stage, mode = kind.split("@")
        none = lambda x: None if x in ("", "None") else x
        return tor_handler_in_state(setup, none(stage), none(mode))
    if kind not in _handlers:
        from zope.interface import directlyProvides
        from twisted.internet.interfaces import IStreamClientEndpoint
        from foolscap.connections import tcp, tor, i2p
        if kind == "tcp":
            _handlers[kind] = tcp.default()
        elif kind == "tor":
            from twisted.internet import defer
            h = tor.default_socks()
            # the part after the first `yield` (waiting for a Tor) is outside the property:
            # hand back "no particular socks endpoint" at once
            h._maybe_connect = lambda reactor, update_status: defer.succeed(None)
            _handlers[kind] = h
        elif kind in ("i2p", "i2p+port"):
            sam = _SamEndpoint()
            directlyProvides(sam, IStreamClientEndpoint)
            # stop at the endpoint constructor: the real .new() opens a SAM session at once
            i2p.SAMI2PStreamClientEndpoint = _RecordedI2P
            # "i2p+port": a handler created with a default port (i2p.default(reactor, port=N) / sam_endpoint(ep, port=N))
            _handlers[kind] = i2p.sam_endpoint(sam) if kind == "i2p" else i2p.sam_endpoint(sam, port=I2P_DEFAULT_PORT)
        elif kind in PLUGIN_KINDS:
            from foolscap.ipb import IConnectionHintHandler
            _handlers[kind] = _Plugin(kind)
            directlyProvides(_handlers[kind], IConnectionHintHandler)
        else:
            raise KeyError(kind)
    return _handlers[kind]


def describe_endpoint(ep, host):
    """canonical form of what the endpoint constructor was given"""
    cn = type(ep).__name__
    if cn == "HostnameEndpoint":
        # HostnameEndpoint keeps an escaped / IDNA form of a non-ASCII host; the text handed to the
        # constructor is the `host` element of the returned pair
        return ["tcp", host, ep._port, host]
    if cn == "TorClientEndpoint":
        return ["tor", ep.host, ep.port, host]
    if cn == "_RecordedI2P":
        return ["i2p", ep._host, ep._port, host]
    if cn == "_PluginEndpoint":
        return ["tcp", ep.host, 1, host]
    return ["?" + cn, None, None, host]


def fire(d):
    """a Deferred that has already fired (or fires once the eventual-send queue of the virtual reactor has run: a Tor
    handler answers through an observer list) -> ("ok", value) | ("exc", exception) | ("pending", None)"""
    from twisted.python.failure import Failure
    out = []
    d.addBoth(out.append)
    if not out:
        from harness import implenv as E
        E.turn()
    if not out:
        return ("pending", None)
    r = out[0]
    if isinstance(r, Failure):
        return ("exc", r.value)
    return ("ok", r)


def hint_to_endpoint(kind, hint):
    """handler.hint_to_endpoint up to the endpoint constructor.
    -> ("ok", [kind, host, port, host2]) | ("exc", class name, is InvalidHintError)"""
    from twisted.internet import defer
    from foolscap.ipb import InvalidHintError
    h = handler(kind)
    d = defer.maybeDeferred(h.hint_to_endpoint, hint, None, lambda status: None)
    st, v = fire(d)
    if st == "ok":
        ep, host = v
        return ("ok", describe_endpoint(ep, host))
    if st == "pending":
        return ("exc", "PENDING", False)
    return ("exc", exc_name(v), isinstance(v, InvalidHintError))


class _Info(object):
    def _set_connection_status(self, location, status):
        pass

    def _describe_connection_handler(self, location, desc):
        pass


def get_endpoint(location, plugin_kinds):
    """connection.get_endpoint(location, {type name: handler}) with real handlers.
    plugin_kinds: {type name: "tcp"|"tor"|"i2p"}"""
    from foolscap import connection
    from foolscap.ipb import InvalidHintError
    from foolscap.logging import log as flog
    plugins = {name: handler(kind) for name, kind in plugin_kinds.items()}
    saved = flog.err
    flog.err = lambda *a, **k: None          # hint errors are logged; keep the run quiet
    try:
        d = connection.get_endpoint(location, plugins, _Info())
        st, v = fire(d)
    finally:
        flog.err = saved
    if st == "ok":
        ep, host = v
        return ("ok", describe_endpoint(ep, host))
    if st == "pending":
        return ("exc", "PENDING", False)
    return ("exc", exc_name(v), isinstance(v, InvalidHintError))


def convert_legacy(location):
    from foolscap.connections.tcp import convert_legacy_hint
    try:
        return ("ok", convert_legacy_hint(location))
    except BaseException as e:  # noqa
        return ("exc", exc_name(e))


def nonpublic(host):
    from foolscap.connections import tor
    try:
        return ("ok", bool(tor.is_non_public_numeric_address(host)))
    except BaseException as e:  # noqa
        return ("exc", exc_name(e))


# ---------------------------------------------------------------------------- CPU-time probes

FAMILIES = {
    # name: (kind, builder)   kind "hint": classify(); kind "furl": decode_furl()
    "legacy-digits-x": ("hint", lambda n: "a:" + "1" * n + "x"),
    "tcp-digits-x": ("hint", lambda n: "tcp:a:" + "1" * n + "x"),
    "tor-digits-x": ("hint", lambda n: "tor:a:" + "1" * n + "x"),
    "i2p-digits-x": ("hint", lambda n: "i2p:a:" + "1" * n + "x"),
    "legacy-digits": ("hint", lambda n: "a:" + "1" * n),
    "tcp-dns-run": ("hint", lambda n: "tcp:" + "a" * n),
    "tcp-dns-run-colon": ("hint", lambda n: "tcp:" + "a" * n + ":"),
    "tcp-hex-run": ("hint", lambda n: "tcp:[" + "a:1" * (n // 3)),
    "tcp-hex-digits-dot": ("hint", lambda n: "tcp:[" + "1" * n + ".1.1.1"),
    "tcp-zone-run": ("hint", lambda n: "tcp:[a%" + "z" * n + "]:"),
    "tcp-dots": ("hint", lambda n: "tcp:" + "1." * (n // 2) + ":1"),
    "tor-colons": ("hint", lambda n: "tor" + ":" * n),
    "tor-prefix-run": ("hint", lambda n: "x" * n + ":a:1x"),
    "i2p-run": ("hint", lambda n: "i2p:" + "a" * n + ":"),
    "colons-then-run": ("hint", lambda n: ":" * (n // 2) + "a" * (n // 2)),
    "tor-colons-then-run": ("hint", lambda n: "tor:" + ":" * (n // 2) + "a" * (n // 2) + ":1x"),
    "tcp-hex-zone-mix": ("hint", lambda n: "tcp:[" + "a%" * (n // 2)),
    "dots-digits": ("hint", lambda n: "1." * (n // 2) + ":1"),
    "hint-newlines": ("hint", lambda n: "tcp:a:1" + "\n" * n),
    "furl-pb-repeat": ("furl", lambda n: "pb://" * (n // 5)),
    "furl-no-at": ("furl", lambda n: "pb://" + "a" * n),
    "furl-at-run": ("furl", lambda n: "pb://" + "a@" * (n // 2)),
    "furl-commas": ("furl", lambda n: "pb://a@" + "," * n + "/n"),
    "furl-newlines": ("furl", lambda n: "pb://a@h/" + "\n" * n),
    "furl-long-tubid": ("furl", lambda n: "pb://" + "a" * n + "@h:1/n"),
}


def classify_all(hint):
    """what an untrusted hint goes through: the legacy conversion, then each handler's parser"""
    from foolscap.connections.tcp import convert_legacy_hint
    try:
        h2 = convert_legacy_hint(hint)
    except Exception:
        h2 = hint
    for kind in ("tcp", "tor", "i2p"):
        hint_to_endpoint(kind, h2)


def decode_quiet(s):
    from foolscap import furl
    try:
        furl.decode_furl(s)
    except Exception:
        pass


def per_call_time(f, s, floor=0.004):
    """CPU seconds of one call f(s): the minimum over repeated batches"""
    t0 = time.process_time()
    f(s)
    t1 = time.process_time() - t0
    if t1 >= floor:
        best = t1
        for _ in range(2):
            t0 = time.process_time()
            f(s)
            best = min(best, time.process_time() - t0)
            if best > 0.2:
                break
        return best
    reps = int(min(2000, max(3, floor / max(t1, 1e-6))))
    best = None
    for _ in range(3):
        t0 = time.process_time()
        for _ in range(reps):
            f(s)
        dt = (time.process_time() - t0) / reps
        best = dt if best is None else min(best, dt)
    return best


def probe(payload):
    """escalate n (doubling) until one call takes longer than `cap` seconds or n reaches nmax;
    prints one json line per size so that the parent still has the sizes that finished when it
    has to kill this process."""
    if "batch" in payload:                   # several corpus witnesses in one process (one interpreter start-up for all)
        import resource
        classify_all("tcp:a:1")
        decode_quiet("pb://a@h/n")
        hard = resource.getrlimit(resource.RLIMIT_CPU)[1]
        for item in payload["batch"]:
            s = "".join(p * k for p, k in item["parts"])
            f = classify_all if item["kind"] == "hint" else decode_quiet
            sys.stdout.write("@@START@@" + json.dumps(dict(name=item["name"], n=len(s), length=len(s))) + "\n")
            sys.stdout.flush()
            # judged on CPU time: the kernel ends this process (SIGXCPU) once the call has used its limit; the parent then
            # knows which witness was running and starts a new process for the remaining ones
            soft = int(time.process_time() + item["cpu_limit"]) + 2
            resource.setrlimit(resource.RLIMIT_CPU, (soft if hard < 0 else min(soft, hard), hard))
            t0 = time.process_time()
            f(s)
            sys.stdout.write("@@POINT@@" + json.dumps(dict(name=item["name"], n=len(s), length=len(s), t=time.process_time() - t0)) + "\n")
            sys.stdout.flush()
        return
    if "parts" in payload:                   # one explicit string (corpus witness): [[piece, count], ...]
        s = "".join(p * k for p, k in payload["parts"])
        f = classify_all if payload["kind"] == "hint" else decode_quiet
        f("tcp:a:1")
        sys.stdout.write("@@START@@" + json.dumps(dict(n=len(s), length=len(s))) + "\n")
        sys.stdout.flush()
        if payload.get("cpu_limit"):
            # the verdict is about CPU time, not wall-clock time (the machine may be heavily loaded): the kernel ends
            # this process (SIGXCPU) once the call has used cpu_limit seconds of CPU
            import resource
            soft = int(time.process_time() + payload["cpu_limit"]) + 2
            hard = resource.getrlimit(resource.RLIMIT_CPU)[1]
            resource.setrlimit(resource.RLIMIT_CPU, (soft if hard < 0 else min(soft, hard), hard))
        t0 = time.process_time()
        f(s)
        sys.stdout.write("@@POINT@@" + json.dumps(dict(n=len(s), length=len(s), t=time.process_time() - t0)) + "\n")
        sys.stdout.flush()
        return
    fam = payload["family"]
    kind, build = FAMILIES[fam]
    f = classify_all if kind == "hint" else decode_quiet
    f(build(8))                              # warm up (imports, handler construction)
    n = payload["n0"]
    while n <= payload["nmax"]:
        s = build(n)
        sys.stdout.write("@@START@@" + json.dumps(dict(n=n, length=len(s))) + "\n")
        sys.stdout.flush()
        t = per_call_time(f, s)
        sys.stdout.write("@@POINT@@" + json.dumps(dict(n=n, length=len(s), t=t)) + "\n")
        sys.stdout.flush()
        if t > payload["cap"]:
            break
        n *= 2


if __name__ == "__main__":
    probe(json.loads(sys.stdin.read()))


# ---------------------------------------------------------------------------- SturdyRefs that ARRIVE (RemoteCopy path)

def _fired(d):
    r = []
    d.addBoth(r.append)
    if not r:
        raise RuntimeError("Deferred did not fire synchronously")
    if hasattr(r[0], "raiseException"):
        r[0].raiseException()
    return r[0]


_wire_class = []


def received_sturdyref(state):
    """the SturdyRef a receiver builds from a 'foolscap.SturdyRef' copy with this attribute dictionary
    (storage.serialize / unserialize: no-argument constructor, then setCopyableState(state))"""
    from foolscap import storage
    from foolscap.copyable import Copyable
    if not _wire_class:
        class WireSturdyRef(Copyable):
            typeToCopy = "foolscap.SturdyRef"

            def __init__(self, st):
                self.__dict__.update(st)
        _wire_class.append(WireSturdyRef)
    data = _fired(storage.serialize([_wire_class[0](state)]))
    return _fired(storage.unserialize(data))[0]


def roundtripped_sturdyref(furl):
    from foolscap import storage
    from foolscap.referenceable import SturdyRef
    return _fired(storage.unserialize(_fired(storage.serialize([SturdyRef(furl)]))))[0]


def identity_verdict(a, b):
    """(a == b, a != b, hash equal, b found in {a: 1}, b in {a}) or the name of the exception"""
    try:
        return [bool(a == b), bool(a != b), hash(a) == hash(b), b in {a: 1}, b in set([a])]
    except Exception as e:  # noqa
        return type(e).__name__


def lt_verdict(a, b):
    """a < b -> True / False / name of the exception"""
    try:
        return bool(a < b)
    except Exception as e:  # noqa
        return type(e).__name__


# ---------------------------------------------------------------------------- a real Tub, histories of getReference

class _RecordingEndpoint(object):
    """stands for HostnameEndpoint: records connect() and never answers"""
    log = []

    def __init__(self, reactor, host, port):
        self.host, self.port = host, port

    def connect(self, factory):
        from twisted.internet import defer
        _RecordingEndpoint.log.append((self.host, self.port))
        return defer.Deferred()


def tub_history(events, plugins=None):
    """events: ["getref", furl] | ["advance", seconds].  One real Tub (default tcp handler, endpoints recorded,
    virtual clock, nobody ever answers).  -> one observation per event:
       dict(fired={index of getref event: exception class name or 'result'}, connects=[(host, port)] started by this event)"""
    from harness import implenv as E
    from foolscap.connections import tcp
    from foolscap.logging import log as flog
    E.reset_clock()
    saved_ep, saved_err = tcp.HostnameEndpoint, flog.err
    tcp.HostnameEndpoint = _RecordingEndpoint
    flog.err = lambda *a, **k: None
    obs = []
    ds = {}
    try:
        with E.quiet():
            tub = E.Tub(certData=E.pem(0))
            for name, kind in sorted((plugins or {}).items()):
                tub.addConnectionHintHandler(name, handler(kind))
            tub.startService()
            E.turn()
            for i, e in enumerate(events):
                del _RecordingEndpoint.log[:]
                if e[0] == "getref":
                    try:
                        d = tub.getReference(e[1])
                    except Exception as x:  # noqa
                        from twisted.internet import defer
                        d = defer.fail(x)
                    ds[i] = d
                else:
                    E.clock.advance(e[1])
                E.turn()
                fired = {}
                for j, d in ds.items():
                    if d.called:
                        r = d.result
                        fired[j] = r.type.__name__ if hasattr(r, "type") else "result"
                obs.append(dict(fired=fired, connects=list(_RecordingEndpoint.log)))
            for d in ds.values():
                d.addErrback(lambda f: None)
            tub.stopService()
            E.clock.advance(1000)
            E.turn()
    finally:
        tcp.HostnameEndpoint = saved_ep
        flog.err = saved_err
    return obs


def connection_timeout():
    from foolscap.connection import TubConnector
    return TubConnector.CONNECTION_TIMEOUT


# ---------------------------------------------------------------------------- TubConnector.connectToAll, hint by hint

BEH = ("ok", "cf", "ce", "inv", "key", "late", "val", "lf")      # behaviour named inside the hint: "beh:<kind>:<id>"
_LATE = []                                                  # (hint, Deferred) of "lf" endpoints: they fail LATER (second phase)
_WAIT = {}                                                  # hint -> Deferred a "w?" handler returned and has not fired
BEH_OUTCOME = {"ok": ("HPending", None), "lf": ("HPending", None), "cf": ("HConnectFails", "ConnectionRefusedError"), "ce": ("HConnectFails", "RuntimeError"),
               "inv": ("HRaises", "InvalidHintError"), "key": ("HRaises", "KeyError"), "late": ("HRaises", "KeyError"),
               "val": ("HRaises", "ValueError")}
# handlers that have NOT answered when the reactor is idle (as a Tor handler whose Tor is starting): what their Deferred does
# when it fires at last -- wn: never; wo: an endpoint that never answers; wc: an endpoint that refuses at once; wi / wk: fails with
# InvalidHintError / KeyError; wx: never, and its canceller fails it with RuntimeError instead of CancelledError
BEH_WAIT = {"wn": None, "wx": None, "wo": ("HPending", None), "wc": ("HConnectFails", "ConnectionRefusedError"),
            "wi": ("HRaises", "InvalidHintError"), "wk": ("HRaises", "KeyError")}


class _BehEndpoint(object):
    def __init__(self, kind, hint=None):
        self.kind = kind
        self.hint = hint

    def connect(self, factory):
        from twisted.internet import defer, error
        if self.kind in ("cf", "wc"):
            return defer.fail(error.ConnectionRefusedError())
        if self.kind == "ce":
            raise RuntimeError("endpoint.connect() raised")
        d = defer.Deferred()                    # "ok": never answers
        if self.kind in ("lf", "wo"):
            _LATE.append((self.hint, d))        # refused later, when connect() has long returned
        return d


class _BehPlugin(object):
    def hint_to_endpoint(self, hint, reactor, update_status):
        from twisted.internet import defer
        from foolscap.ipb import InvalidHintError
        kind = hint.split(":")[1]
        if kind in ("ok", "cf", "ce", "lf"):
            return _BehEndpoint(kind, hint), "host"
        if kind in BEH_WAIT:
            d = defer.Deferred((lambda d: d.errback(RuntimeError("cancelled my way"))) if kind == "wx" else None)
            _WAIT[hint] = d
            return d
        if kind == "inv":
            raise InvalidHintError("plugin refuses " + hint)
        if kind == "late":
            return defer.fail(KeyError(hint))
        raise (KeyError if kind == "key" else ValueError)(hint)

    def describe(self):
        return "beh"


class _RecordedTorEndpoint(object):
    """stands for txtorcon.TorClientEndpoint in connect_all_probe: never answers"""
    def __init__(self, host, port, socks_endpoint=None, **kw):
        self.host, self.port = host, port

    def connect(self, factory):
        from twisted.internet import defer
        return defer.Deferred()


STATUS_CODES = (("connecting to a Tor", 5), ("connecting to Tor", 5), ("connecting", 0), ("bad hint", 1), ("failed to connect", 2), ("connection refused", 3),
                ("abandoned", 4), ("resolving hint", 5), ("launching Tor", 5), ("making Tor control endpoint", 5), ("waiting for Tor bootstrap", 5))


def connect_all_probe(hints, schedule=None, tor=None):
    """getReference on a real Tub for a FURL with these hints (handlers: the default tcp handler with recorded endpoints
    that never answer, the "beh" plugin and, with tor=(setup, stage, mode), a FRESH Tor handler in that state registered for
    "tor" hints, its endpoints recorded); -> what the TubConnector looks like when connect() has returned and the reactor is idle.
    Then the late phase, `schedule` = list of ["resolve", hint] (the Deferred of a waiting "beh:w?" hint fires the way its kind says) |
    ["connfail", hint] (the endpoint of a "beh:lf" hint refuses now) | ["tor-up"] / ["tor-fail"] (the Tor's stuck stage
    succeeds / fails with TorDown) | ["timeout"] (CONNECTION_TIMEOUT seconds pass); out["trace"] = the connector after each.
    schedule=None: every "lf" endpoint refuses, in the order of the hints (summary in out["late"], as before)."""
    from harness import implenv as E
    from zope.interface import directlyProvides
    from foolscap import connection
    from foolscap.connections import tcp
    from foolscap.ipb import IConnectionHintHandler
    from foolscap.logging import log as flog
    E.reset_clock()
    del _LATE[:]
    _WAIT.clear()
    made = []
    Base = connection.TubConnector

    class Recording(Base):
        n_failed = 0

        def __init__(self, *a, **k):
            made.append(self)
            Base.__init__(self, *a, **k)

        def failed(self):
            self.n_failed += 1
            return Base.failed(self)
    saved = (tcp.HostnameEndpoint, flog.err, connection.TubConnector)
    tcp.HostnameEndpoint, flog.err, connection.TubConnector = _RecordingEndpoint, (lambda *a, **k: None), Recording
    tor_mod = None
    try:
        with E.quiet():
            tub = E.Tub(certData=E.pem(0))
            plug = _BehPlugin()
            directlyProvides(plug, IConnectionHintHandler)
            tub.addConnectionHintHandler("beh", plug)
            if tor is not None:
                tub.addConnectionHintHandler("tor", tor_handler_in_state(*tor))
                from foolscap.connections import tor as tor_mod
                tor_mod.txtorcon.TorClientEndpoint = _RecordedTorEndpoint       # an attribute of the proxy instance, removed below
            tub.startService()
            E.turn()
            raised = None
            try:
                d = tub.getReference("pb://%s@%s/name" % ("q5l37rle6pojjnllrwjyryulavpqdlq5", ",".join(hints)))
                d.addErrback(lambda f: None)
            except Exception as e:  # noqa
                raised = type(e).__name__
            E.turn()
            c = made[0] if made else None
            out = None
            if c is not None:
                def code(st):
                    for prefix, k in STATUS_CODES:
                        if st.startswith(prefix):
                            return k
                    return 9

                def snap():
                    return dict(attempted=list(c.attemptedLocations), valid=list(c.validHints), pending=len(c.pendingConnections),
                                statuses=[[h, code(c._connectionInfo.connectorStatuses.get(h, "?"))] for h in c.attemptedLocations],
                                reason=c.failureReason.type.__name__ if c.failureReason else None, active=bool(c.active),
                                failed=c.n_failed, answered=bool(d.called) if raised is None else None,
                                timer=bool(getattr(c, "timer", None)), finished=c not in tub._activeConnectors)
                out = snap()
                out.update(raised=raised, n_connectors=len(made))
                from twisted.internet import error
                n_late = len(_LATE)
                if schedule is None:
                    # second phase: the "lf" endpoints now refuse, one after the other
                    try:
                        while _LATE:
                            _LATE.pop(0)[1].errback(error.ConnectionRefusedError())
                            E.turn()
                        out["late"] = dict(n=n_late, failed=c.n_failed, active=bool(c.active), pending=len(c.pendingConnections),
                                           answered=bool(d.called) if raised is None else None, raised=None)
                    except Exception as e:  # noqa
                        out["late"] = dict(n=n_late, raised=type(e).__name__)
                else:
                    out["trace"] = []
                    try:
                        for ev in schedule:
                            if ev[0] == "resolve" and ev[1] in _WAIT:
                                w = _WAIT.pop(ev[1])
                                kind = ev[1].split(":")[1]
                                if not w.called:
                                    if kind in ("wo", "wc"):
                                        w.callback((_BehEndpoint(kind, ev[1]), "host"))
                                    elif kind in ("wi", "wk"):
                                        from foolscap.ipb import InvalidHintError
                                        w.errback((InvalidHintError if kind == "wi" else KeyError)("late " + ev[1]))
                            elif ev[0] == "connfail":
                                for i, (h, ld) in enumerate(list(_LATE)):
                                    if h == ev[1]:
                                        del _LATE[i]
                                        if not ld.called:
                                            ld.errback(error.ConnectionRefusedError())
                                        break
                            elif ev[0] in ("tor-up", "tor-fail"):
                                held, _TOR["held"] = _TOR["held"], []
                                for hd, value in held:
                                    if ev[0] == "tor-up":
                                        hd.callback(value)
                                    else:
                                        hd.errback(TorDown("Tor gave up"))
                                    E.turn()
                            elif ev[0] == "timeout":
                                E.clock.advance(connection_timeout())
                            E.turn()
                            out["trace"].append(snap())
                    except Exception as e:  # noqa
                        out["trace_raised"] = "%s: %s" % (type(e).__name__, e)
            for w in list(_WAIT.values()) + [ld for _, ld in _LATE] + [hd for hd, _ in _TOR["held"]]:
                w.addErrback(lambda f: None)
            tub.stopService()
            E.clock.advance(1000)
            E.turn()
    finally:
        tcp.HostnameEndpoint, flog.err, connection.TubConnector = saved
        if tor_mod is not None:
            try:
                del tor_mod.txtorcon.TorClientEndpoint
            except AttributeError:
                pass
    return out


# ---------------------------------------------------------------------------- Tor handlers whose Tor is NOT (yet) there

class TorDown(Exception):
    """what a Tor that cannot be launched / reached fails with in these probes"""


# how each public constructor of connections/tor.py is made, and the stages its _connect goes through
TOR_SETUPS = {
    "default_socks": (),
    "socks_endpoint": (),
    "launch": ("launch",),
    "control_endpoint": ("connect", "bootstrap", "socksport"),
    "control_endpoint_maker": ("maker", "connect", "bootstrap", "socksport"),
    "control_endpoint_maker/no-status": ("maker", "connect", "bootstrap", "socksport"),
}
# what happens at the stage where the Tor sticks
TOR_MODES = ("never", "fails", "up-later", "fails-later")
_TOR = dict(stick=None, mode=None, held=[], calls=[], installed=False)


def tor_states():
    """every (setup, stage, mode) that can be realised; (setup, None, None) = all stages pass at once"""
    out = []
    for setup in sorted(TOR_SETUPS):
        out.append((setup, None, None))
        for stage in TOR_SETUPS[setup]:
            for mode in (("fails",) if stage == "socksport" else TOR_MODES):
                out.append((setup, stage, mode))
    return out


def _tor_gate(stage, value):
    from twisted.internet import defer
    _TOR["calls"].append(stage)
    if _TOR["stick"] != stage:
        return defer.succeed(value)
    if _TOR["mode"] == "fails":
        return defer.fail(TorDown("no Tor (%s)" % stage))
    d = defer.Deferred()
    _TOR["held"].append((d, value))
    return d


class _TorConfig(object):
    """stands for txtorcon.TorConfig: launch() fills one in; a control connection reads one from the running Tor"""
    def __init__(self):
        self.SocksPort = None

    @classmethod
    def from_protocol(cls, tproto):
        c = cls()
        c.SocksPort = ["unix:/var/run/tor/socks WorldWritable"] if _TOR["stick"] == "socksport" else ["9050"]
        return _tor_gate("bootstrap", c)


class _TorProto(object):
    tor_protocol = None


class _TxtorconProxy(object):
    """txtorcon with the three calls that talk to a Tor process replaced; everything else (TorClientEndpoint,
    DEFAULT_VALUE ...) is the real module's"""
    TorConfig = _TorConfig

    def __init__(self, real):
        self._real = real

    def __getattr__(self, name):
        return getattr(self._real, name)

    def launch_tor(self, config, reactor, tor_binary=None, **kw):
        return _tor_gate("launch", _TorProto())

    def build_tor_connection(self, endpoint, build_state=False, **kw):
        return _tor_gate("connect", _TorProto())


def tor_handler_in_state(setup, stage, mode):
    """a FRESH handler from the public constructor `setup` whose Tor sticks at `stage` in the way `mode` says"""
    from zope.interface import directlyProvides
    from twisted.internet.interfaces import IStreamClientEndpoint
    from harness import implenv as E  # noqa: the virtual reactor must be in place before the handler's observer list is used
    from foolscap.connections import tor
    if not _TOR["installed"]:
        import txtorcon
        tor.txtorcon = _TxtorconProxy(txtorcon)
        tor.allocate_tcp_port = lambda: 45678              # the real one opens sockets
        _TOR["installed"] = True
    _TOR.update(stick=stage, mode=mode, held=[], calls=[])
    ctl = _SamEndpoint()
    directlyProvides(ctl, IStreamClientEndpoint)
    if setup == "default_socks":
        return tor.default_socks()
    if setup == "socks_endpoint":
        return tor.socks_endpoint(ctl)
    if setup == "launch":
        return tor.launch()
    if setup == "control_endpoint":
        return tor.control_endpoint(ctl)
    if setup == "control_endpoint_maker":
        return tor.control_endpoint_maker(lambda reactor, update_status: _tor_gate("maker", ctl), takes_status=True)
    if setup == "control_endpoint_maker/no-status":
        return tor.control_endpoint_maker(lambda reactor: _tor_gate("maker", ctl))
    raise KeyError(setup)


def _watch(d):
    out = []
    d.addBoth(out.append)
    return out


def _seen(out):
    """-> ["pending"] | ["ok", [kind, host, port, host2]] | ["exc", class name, is InvalidHintError]"""
    from twisted.python.failure import Failure
    from foolscap.ipb import InvalidHintError
    if not out:
        return ["pending"]
    r = out[0]
    if isinstance(r, Failure):
        return ["exc", exc_name(r.value), isinstance(r.value, InvalidHintError)]
    try:
        ep, host = r
        return ["ok", describe_endpoint(ep, host)]
    except Exception as e:  # noqa
        return ["exc", "bad-result:" + exc_name(e), False]


def tor_probe(setup, stage, mode, hints, via="handler"):
    """the hints, one after the other (as the hints of one FURL are), to ONE fresh Tor handler in the given state;
    via = "handler": handler.hint_to_endpoint; via = "get_endpoint": connection.get_endpoint with the handler registered for "tor" and "tcp" hints.
    -> [{"now": what the caller holds once the reactor is idle, "later": the same after the Tor came up / gave up}]"""
    from twisted.internet import defer
    from harness import implenv as E
    from foolscap import connection
    from foolscap.logging import log as flog
    E.reset_clock()
    h = tor_handler_in_state(setup, stage, mode)
    saved = flog.err
    flog.err = lambda *a, **k: None
    try:
        watched = []
        for hint in hints:
            if via == "get_endpoint":
                d = connection.get_endpoint(hint, {"tor": h, "tcp": h}, _Info())
            else:
                d = defer.maybeDeferred(h.hint_to_endpoint, hint, None, lambda status: None)
            watched.append(_watch(d))
            E.turn()
        now = [_seen(w) for w in watched]
        started = list(_TOR["calls"])
        held, _TOR["held"] = _TOR["held"], []
        for d, value in held:
            if mode == "up-later":
                d.callback(value)
            elif mode == "fails-later":
                d.errback(TorDown("Tor gave up (%s)" % stage))
            E.turn()
        E.turn()
        later = [_seen(w) for w in watched]
        for (d, value) in _TOR["held"]:                      # a later stage stuck as well: cannot happen (one stage sticks)
            d.addErrback(lambda f: None)
    finally:
        flog.err = saved
    return [dict(now=a, later=b, tor_calls=started) for a, b in zip(now, later)]
