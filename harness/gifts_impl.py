"""C08 / C09, three-party introductions: the real code against the Coq model lib/Gifts.v, message by message.

Four real Tubs on the in-memory network: owners A (model owner 0) and D (owner 1), the giver B, the recipient C; all
connections exist before a history starts.  The owners' objects are made by a factory and are alive ONLY through the
connection tables.  A history is a list of harness actions; each action stands for a group of model ops:

  ["export", o]            B asks owner o's factory for a new object and holds the proxy    -> TExport o x clid withurl
                           (withurl: observed -- does the tracker B created carry a FURL)
  ["give", [i, j, ..]]     B calls C's sink with a list of its proxies i, j, ..             -> TGive k_i; TGive k_j; ..
  ["appdrop", i]           B's application forgets proxy i (+ gc)                           -> TAppDrop k_i
  ["register", i]          the owner's application calls registerReference(object i, name=<fresh name of its choosing>)
                           (i = None: on a new object that was never sent)                  -> TRegister o x n
  ["deliver", "BC"]        everything B has written towards C is delivered                  -> TRecvBC per their-reference
  ["deliver", "CA"|"CD"]   C's lookups reach owner A / D                                    -> TLookup idx per lookup
  ["deliver", "AC"|"DC"]   the owner's answers reach C                                      -> TAnswer idx per answer
  ["deliver", "CB"]        C's acknowledgements (and call answers) reach B                  -> TRecvCB per decgift
  ["deliver", "BA"|"AB"|"BD"|"DB"]   release traffic giver <-> owner (abstracted in the model: no op)

After every action the giver's gift table (origin, clid, giftID, count), the giver's live proxies and the recipient's
live proxies (owner, object) are compared with the model state (vm_compute), and the direct oracle is evaluated:
an entry of the gift table always holds a live proxy; while a their-reference / lookup is under way the owner's object is
alive; every call completes with proxies that reach the intended originals; after the drain the gift tables are empty
and nothing logged an error."""
import gc
from harness import implenv as E
from harness.implenv import Net, make_tub, pems_sorted, quiet
from harness import c08_impl as G

DIRS = ("BC", "CB", "CA", "AC", "CD", "DC", "BA", "AB", "BD", "DB")
OWNER_OF = {"A": 0, "D": 1}
TUB_OF_OWNER = {0: "A", 1: "D"}


class World3:
    def __init__(self):
        from foolscap.referenceable import RemoteReference
        E.reset_clock()
        self.net = net = Net()
        pems = [p for _, p in pems_sorted(4)]
        self.tubs = {n: make_tub(net, n.lower(), pems[i]) for i, n in enumerate("ABCD")}
        A, B, C, D = [self.tubs[n] for n in "ABCD"]
        self.fac = {0: G.Factory("a"), 1: G.Factory("d")}
        self.sink = G.GiftSink()
        fa, fd, fc = A.registerReference(self.fac[0]), D.registerReference(self.fac[1]), C.registerReference(self.sink)
        got = {}
        for k, tub, f in (("f0", B, fa), ("f1", B, fd), ("sink", B, fc), ("c0", C, fa), ("c1", C, fd)):
            tub.getReference(f).addCallback(lambda r, k=k: got.setdefault(k, r))
        G.run_net(net)
        self.ok = all(isinstance(got.get(k), RemoteReference) for k in ("f0", "f1", "sink", "c0", "c1"))
        self.got = got
        self.nobj = 0
        self.idbase = 0           # gift ids handed out in earlier histories of this world
        self.lastclid = {0: 1, 1: 1}
        if self.ok:
            self.b_to = {0: got["f0"].tracker.broker, 1: got["f1"].tracker.broker, "C": got["sink"].tracker.broker}
            self.c_to = {0: got["c0"].tracker.broker, 1: got["c1"].tracker.broker}
            self.owner_to_c = {o: self.peer_broker(self.tubs[TUB_OF_OWNER[o]], C) for o in (0, 1)}
            self.owner_to_b = {o: self.peer_broker(self.tubs[TUB_OF_OWNER[o]], B) for o in (0, 1)}
            self.lastclid = {0: got["f0"].tracker.clid, 1: got["f1"].tracker.clid}

    def balance(self):
        """outside any history: make the two owners' next clids towards B equal, so that proxies of the two origins collide"""
        for i in range(50):
            if self.lastclid[0] == self.lastclid[1]:
                return
            o = 0 if self.lastclid[0] < self.lastclid[1] else 1
            self.nobj += 1
            p = G._call(self.net, self.got["f%d" % o], "make", self.nobj)
            self.lastclid[o] = p.tracker.clid
            del p
            gc.collect()
            G.run_net(self.net)

    @staticmethod
    def peer_broker(tub, other):
        for b in tub.brokers.values():
            if b.remote_tubref is not None and b.remote_tubref.getTubID() == other.tubID and not b.disconnected:
                return b
        return None

    def link_side(self, d):
        X, Y = self.tubs[d[0]], self.tubs[d[1]]
        for l in self.net.links:
            if {getattr(l, "client_tub", None), getattr(l, "server_tub", None)} == {X, Y} and not any(e.closed for e in l.ends):
                return l, (0 if l.client_tub is X else 1)
        return None, None

    def close(self):
        for t in self.tubs.values():
            try:
                t.stopService()
            except Exception:
                pass
        E.turn()


class History:
    """one history on a (reused) World3"""

    def __init__(self, W):
        self.W = W
        self.prox = {}            # index -> proxy held by B's application
        self.keys = {}            # index -> (o, clid)
        self.objs = {}            # index -> (o, x)
        self.weak = {}            # (o, x) -> weakref of the original
        self.want = {}            # (o, x) -> [name, id(original)]
        self.queue = {d: [] for d in DIRS}     # what is under way per direction (harness bookkeeping)
        self.lookups = []         # mirror of the model's `lookups`: owner per entry
        self.answers = []         # mirror of the model's `answers`
        self.calls = []           # result lists of the gift-carrying calls
        self.nsent = []           # per call: the (o, x) sent
        self.actions, self.groups, self.snaps = [], [], []
        self.problems = []
        self.seen0 = len(W.sink.seen)
        self.pending_objs = []    # (o, x) of gifts not yet resolved at C (their-reference .. answer)
        self.registered = []      # (tub, object) registered by the owners' applications during this history
        self.count_reported = False
        self.flags = set()

    # ---- observation in the model's vocabulary
    def snapshot(self):
        W = self.W
        gifts = []
        try:
            for key, ent in W.b_to["C"].myGifts.items():
                if isinstance(key, tuple) and len(key) == 2:
                    o = [k for k in (0, 1) if W.b_to[k] is key[0]]
                    gifts.append([o[0] if o else -1, key[1], ent[-2] - W.idbase, ent[-1]])
                else:
                    gifts.append([-1, key if isinstance(key, int) else -2, ent[-2] - W.idbase, ent[-1]])
        except Exception as e:
            gifts = [["unreadable", repr(e)[:80]]]
        mine = set(self.keys.values())
        bprox = sorted([o, c, 1 if t.url is not None else 0] for o in (0, 1) for c, t in W.b_to[o].yourReferenceByCLID.items()
                       if (o, c) in mine and t.ref is not None and t.ref() is not None)
        cprox = []
        for o in (0, 1):
            exp = W.owner_to_c[o].myReferenceByCLID
            for c, t in W.c_to[o].yourReferenceByCLID.items():
                if t.ref is not None and t.ref() is not None and c in exp and isinstance(exp[c].obj, G.Thing):
                    cprox.append([o, int(exp[c].obj.name[1:])])
        return dict(gifts=sorted(gifts), bprox=bprox, cprox=sorted(cprox))

    def audit(self, where):
        W = self.W
        P = self.problems
        # an entry of the gift table holds a live proxy of the giver (model: gift_entry_holds_proxy)
        try:
            for key, ent in list(W.b_to["C"].myGifts.items()):
                ob, clid = key if isinstance(key, tuple) else (None, key)
                cands = [ob] if ob is not None else [W.b_to[0], W.b_to[1]]
                if not any((b.yourReferenceByCLID.get(clid) is not None and b.yourReferenceByCLID[clid].ref is not None
                            and b.yourReferenceByCLID[clid].ref() is not None) for b in cands):
                    P.append(("oracle/gift-outstanding-proxy-dead", "%s: the giver's gift table counts %d outstanding gift(s) for clid %r "
                              "but the gifted proxy is dead (its release can reach the owner before the recipient's lookup)"
                              % (where, ent[-1], clid)))
        except Exception:
            pass
        # while a gift is under way the owner's object lives (model: gift_in_flight_pins)
        for ox in self.pending_objs:
            if self.weak[ox]() is None:
                P.append(("oracle/gift-released-early", "%s: the owner let go of object %r (alive only through its connection tables) "
                          "while a their-reference for it was still being resolved by the third party" % (where, list(ox))))
        # the counting invariant (C09_count_invariant) observed directly on the connections owner <-> recipient and owner <-> giver
        # whenever nothing is in flight on them: what the holder counts is what the owner handed out
        for o in (0, 1):
            for hname, hb, ob, d1, d2 in (("recipient", W.c_to[o], W.owner_to_c[o], "C" + TUB_OF_OWNER[o], TUB_OF_OWNER[o] + "C"),
                                          ("giver", W.b_to[o], W.owner_to_b[o], "B" + TUB_OF_OWNER[o], TUB_OF_OWNER[o] + "B")):
                if ob is None or any(self._queued(d) for d in (d1, d2)) or hb.waitingForAnswers:
                    continue
                for c, t in list(ob.myReferenceByCLID.items()):
                    ht = hb.yourReferenceByCLID.get(c)
                    got = ht.received_count if ht is not None else 0
                    if got != t.refcount and not self.count_reported:
                        self.count_reported = True
                        P.append(("oracle/holder-count-differs-from-owner-refcount", "%s: with nothing in flight between owner %s and the %s, "
                                  "the owner's refcount of clid %d is %d but the %s counts %d received copies (its release will not "
                                  "match what was handed out)" % (where, TUB_OF_OWNER[o], hname, c, t.refcount, hname, got)))
        for ev_ in E.logged_errors:
            P.append(("oracle/logged-error", "%s: an error was logged: %s" % (where, str(ev_.get("failure") or ev_)[:300])))
        del E.logged_errors[:]

    def _queued(self, d):
        l, side = self.W.link_side(d)
        return l is None or bool(l.q[side])

    # ---- actions
    def do(self, a):
        ops = getattr(self, "a_" + a[0])(*a[1:])
        if ops is None:
            return False
        E.turn()
        gc.collect()
        E.turn()
        self.actions.append(a)
        self.groups.append(ops)
        self.audit("after action %d %r" % (len(self.actions) - 1, a))
        self.snaps.append(self.snapshot())
        return True

    def a_export(self, o):
        from foolscap.referenceable import RemoteReference
        W = self.W
        if any(self.queue[d] for d in DIRS):
            return None
        W.nobj += 1
        x = W.nobj
        p = G._call(W.net, W.got["f%d" % o], "make", x)
        if not isinstance(p, RemoteReference):
            self.problems.append(("oracle/gift-setup-failed", "factory returned %r" % (p,)))
            return None
        i = len(self.keys)
        self.prox[i] = p
        self.keys[i] = (o, p.tracker.clid)
        W.lastclid[o] = max(W.lastclid[o], p.tracker.clid)
        self.objs[i] = (o, x)
        name = "%s%d" % ("ad"[o], x)
        self.weak[(o, x)] = W.fac[o].made[name]
        t = self.weak[(o, x)]()
        self.want[(o, x)] = [name, id(t)]
        # does the tracker B made for it carry a FURL?  (the model's TExport takes this as an input: lib/Refs.v says when a
        # delivered proxy has one; here every export is a NEW object, i.e. a first my-reference)
        withurl = p.tracker.url is not None
        if not withurl:
            self.flags.add("exported-without-url")
        del t, p
        return [("TExport", o, x, self.keys[i][1], withurl)]

    def a_give(self, idxs):
        W = self.W
        if not idxs or any(i not in self.prox for i in idxs):
            return None
        res = []
        W.got["sink"].callRemote("take", [self.prox[i] for i in idxs]).addBoth(res.append)
        self.calls.append(res)
        self.nsent.append([self.objs[i] for i in idxs])
        self.queue["BC"].append(("gifts", [self.objs[i] for i in idxs]))
        self.pending_objs += [self.objs[i] for i in idxs]
        if len(set(self.keys[i][1] for i in idxs)) < len(set(self.keys[i] for i in idxs)):
            self.flags.add("colliding-clids-in-one-call")
        if len(idxs) > len(set(idxs)):
            self.flags.add("same-proxy-twice-in-one-call")
        return [("TGive",) + self.keys[i] for i in idxs]

    def a_appdrop(self, i):
        if i not in self.prox:
            return None
        if self.pending_objs.count(self.objs[i]):
            self.flags.add("giver-drops-while-gift-under-way")
        del self.prox[i]
        gc.collect()
        return [("TAppDrop",) + self.keys[i]]

    def a_register(self, i):
        W = self.W
        W.nreg = getattr(W, "nreg", 0) + 1
        if i is None:
            o = W.nreg % 2
            W.nobj += 1
            x = W.nobj
            obj = G.Thing("%s%d" % ("ad"[o], x))
        else:
            if i not in self.objs:
                return None
            o, x = self.objs[i]
            obj = self.weak[(o, x)]()
            if obj is None:
                return None
            self.flags.add("registered-after-first-send")
        tub = W.tubs[TUB_OF_OWNER[o]]
        tub.registerReference(obj, name="chosen-by-the-application-%d" % W.nreg)
        self.registered.append((tub, obj))
        del obj
        return [("TRegister", o, x, -W.nreg)]

    def a_deliver(self, d):
        W = self.W
        l, side = W.link_side(d)
        if l is None or not l.q[side]:
            return None
        q = l.q[side]
        k = 0
        while k < len(q) and q[k] is not None:
            k += 1
        if k == 0:
            return None
        q[:k] = [b"".join(q[:k])]
        items, self.queue[d] = self.queue[d], []
        ops = []
        if d == "BC":
            for _, oxs in items:
                for (o, x) in oxs:
                    ops.append(("TRecvBC",))
                    self.lookups.append((o, x))
                    self.queue["C" + TUB_OF_OWNER[o]].append(("lookup", (o, x)))
        elif d in ("CA", "CD"):
            o = OWNER_OF[d[1]]
            for _ in items:
                i = [j for j, (oo, _x) in enumerate(self.lookups) if oo == o][0]
                ops.append(("TLookup", i))
                self.answers.append(self.lookups.pop(i))
                self.queue[d[1] + "C"].append(("answer", self.answers[-1]))
        elif d in ("AC", "DC"):
            o = OWNER_OF[d[0]]
            for _ in items:
                i = [j for j, (oo, _x) in enumerate(self.answers) if oo == o][0]
                ops.append(("TAnswer", i))
                ox = self.answers.pop(i)
                self.pending_objs.remove(ox)
                self.queue["CB"].append(("decgift",))
        elif d == "CB":
            ops = [("TRecvCB",)] * len(items)
        W.net.step((l, side))
        return ops

    # ---- end of a history: everything is delivered, every call must have completed with the right proxies; then
    # everybody lets go and the tables must drain
    def enabled_deliveries(self):
        out = []
        for d in DIRS:
            l, side = self.W.link_side(d)
            if l is not None and l.q[side] and l.q[side][0] is not None:
                out.append(d)
        return out

    def _verify_calls(self):
        from foolscap.referenceable import RemoteReference
        W = self.W
        P = self.problems
        seen = W.sink.seen[self.seen0:]
        if not all(len(r) == 1 and isinstance(r[0], int) for r in self.calls) or len(seen) != len(self.calls):
            P.append(("oracle/gift-not-delivered", "the call(s) carrying the gifts did not complete exactly once each: answers %r, "
                      "invocations %d of %d" % ([[getattr(x, "value", x) for x in r] for r in self.calls], len(seen), len(self.calls))))
        else:
            for (ctype, items), oxs in zip(seen, self.nsent):
                if len(items) != len(oxs) or not all(isinstance(p, RemoteReference) for p in items):
                    P.append(("oracle/gift-identity-lost", "the recipient's method was invoked with %r instead of %d proxies"
                              % ([type(p).__name__ for p in items], len(oxs))))
                    continue
                for p, ox in zip(items, oxs):
                    r = G._call(W.net, p, "whoami")
                    if r != self.want[ox]:
                        P.append(("oracle/call-misrouted", "a call through the recipient's proxy for the gift of object %r reached %r, "
                                  "the original is %r" % (list(ox), getattr(r, "value", r), self.want[ox])))
                byobj = {}
                for p, ox in zip(items, oxs):
                    byobj.setdefault(ox, set()).add(id(p))
                if any(len(v) > 1 for v in byobj.values()):
                    P.append(("oracle/gift-different-proxy-while-held", "one original arrived as several proxies in one call"))

    def finish(self):
        from foolscap.referenceable import RemoteReference
        W = self.W
        for r in range(400):
            ds = self.enabled_deliveries()
            if not ds:
                E.turn()
                ds = self.enabled_deliveries()
                if not ds:
                    break
            self.do(["deliver", ds[0]])
        for i in range(3):
            if all(self.calls):
                break
            E.clock.advance(130)
            G.run_net(W.net)
        P = self.problems
        self._verify_calls()
        final_snap = self.snapshot()
        # everybody lets go
        for tub, obj in self.registered:
            try:
                tub.unregisterReference(obj)
            except Exception:
                pass
        del self.registered[:]
        tub = obj = None
        del W.sink.seen[self.seen0:]
        self.prox.clear()
        for i in range(4):
            gc.collect()
            G.run_net(W.net)
        self.audit("after the drain")
        if not P:
            for nm, b in (("giver", W.b_to["C"]),):
                if b.myGifts or b.myGiftsByGiftID:
                    P.append(("oracle/leak", "a gift table of the %s is not empty after every introduction completed and was "
                              "acknowledged: myGifts %r, myGiftsByGiftID %r" % (nm, list(b.myGifts.values()), dict(b.myGiftsByGiftID))))
            alive = sorted(list(ox) for ox, w in self.weak.items() if w() is not None)
            if alive:
                P.append(("oracle/leak", "after giver and recipient dropped their proxies and traffic drained the owners' objects %r "
                          "are still pinned" % (alive,)))
        ids = [g[2] for s in self.snaps for g in s["gifts"] if isinstance(g[2], int)]
        if ids:
            W.idbase += max(ids)
        if self.calls:
            self.flags.add("gift")
        return dict(actions=self.actions, groups=self.groups, snaps=self.snaps, problems=list(P), flags=sorted(self.flags),
                    final=final_snap)


# ------------------------------------------------------------------------------------------------------------
# fixed witnesses, one per family of defects (so that detection does not depend on the random stream)
WITNESSES = {
    # the owner's application registers an object under a name of its choosing AFTER the object was first sent (and named);
    # the proxy the giver holds carries the first name
    "register-after-send": [["export", 0], ["register", 0], ["register", None], ["give", [0]], ["appdrop", 0], ["deliver", "BC"],
                            ["deliver", "CA"], ["deliver", "AC"], ["deliver", "CB"]],
    # two origins whose proxies carry the SAME clid are given in one call and dropped at once; the second owner's lookup is late
    "colliding-clids": [["export", 0], ["export", 1], ["give", [0, 1]], ["appdrop", 0], ["appdrop", 1], ["deliver", "BA"], ["deliver", "BD"],
                        ["deliver", "BC"], ["deliver", "CA"], ["deliver", "AC"], ["deliver", "CB"], ["deliver", "BA"], ["deliver", "AB"],
                        ["deliver", "CD"], ["deliver", "DC"], ["deliver", "CB"]],
    # the giver forgets its proxy right after serialising it; its release traffic runs ahead of everything else
    "drop-after-give": [["export", 0], ["give", [0]], ["appdrop", 0], ["deliver", "BA"], ["deliver", "AB"], ["deliver", "BA"],
                        ["deliver", "BC"], ["deliver", "CA"], ["deliver", "AC"], ["deliver", "CB"]],
    # the same proxy in two calls; the first is acknowledged before the second is even received; giver drops in between
    "two-calls": [["export", 0], ["give", [0]], ["deliver", "BC"], ["give", [0, 0]], ["appdrop", 0], ["deliver", "CB"], ["deliver", "BA"],
                  ["deliver", "AB"], ["deliver", "CA"], ["deliver", "AC"], ["deliver", "CB"], ["deliver", "BA"], ["deliver", "AB"],
                  ["deliver", "BC"], ["deliver", "CA"], ["deliver", "AC"], ["deliver", "CB"]],
    # the recipient acknowledges; the acknowledgement and the giver's release overtake the owner's answer to the lookup
    "ack-before-answer": [["export", 1], ["give", [0]], ["appdrop", 0], ["deliver", "BC"], ["deliver", "CB"], ["deliver", "BD"],
                          ["deliver", "DB"], ["deliver", "BD"], ["deliver", "CD"], ["deliver", "DC"], ["deliver", "CB"]],
}


def run_actions(W, actions):
    H = History(W)
    for a in actions:
        try:
            H.do(list(a))
        except Exception:
            import traceback
            H.problems.append(("oracle/gift-exception", "the implementation raised during action %r: %s" % (a, traceback.format_exc()[-700:])))
            break
    try:
        return H.finish()
    except Exception:
        import traceback
        H.problems.append(("oracle/gift-exception", "the implementation raised while draining: %s" % traceback.format_exc()[-700:]))
        return dict(actions=H.actions, groups=H.groups, snaps=H.snaps, problems=list(H.problems), flags=sorted(H.flags), final=None,
                    broken=True)


def gen_history(W, rng, nsteps):
    H = History(W)
    nexp = rng.choice([1, 2, 2, 3])
    owners = [rng.choice([0, 1]) for _ in range(nexp)]
    if nexp >= 2 and rng.random() < 0.6:
        owners[:2] = rng.choice([[0, 1], [1, 0]])
        W.balance()
    for o in owners:
        H.do(["export", o])
    ngive = 0
    nreg = 0
    try:
        for step in range(nsteps):
            cands = []
            held = sorted(H.prox)
            if held and ngive < 3:
                cands += [("give",)] * 3
            if held:
                cands += [("appdrop",)] * 2
            if H.objs and nreg < 2:
                cands += [("register",)]
            ds = H.enabled_deliveries()
            cands += [("deliver", d) for d in ds] * 2
            if not cands:
                break
            c = rng.choice(cands)
            if c[0] == "give":
                n = rng.choice([1, 1, 2, 3])
                H.do(["give", [rng.choice(held) for _ in range(n)]])
                ngive += 1
            elif c[0] == "appdrop":
                H.do(["appdrop", rng.choice(held)])
            elif c[0] == "register":
                H.do(["register", rng.choice(sorted(H.objs) + [None])])
                nreg += 1
            else:
                H.do(["deliver", c[1]])
    except Exception:
        import traceback
        H.problems.append(("oracle/gift-exception", "the implementation raised: %s" % traceback.format_exc()[-700:]))
        return dict(actions=H.actions, groups=H.groups, snaps=H.snaps, problems=list(H.problems), flags=sorted(H.flags), final=None,
                    broken=True)
    try:
        return H.finish()
    except Exception:
        import traceback
        H.problems.append(("oracle/gift-exception", "the implementation raised while draining: %s" % traceback.format_exc()[-700:]))
        return dict(actions=H.actions, groups=H.groups, snaps=H.snaps, problems=list(H.problems), flags=sorted(H.flags), final=None,
                    broken=True)


SIG_PROPERTY = {
    "oracle/gift-not-delivered": "C08", "oracle/gift-identity-lost": "C08", "oracle/call-misrouted": "C08",
    "oracle/gift-different-proxy-while-held": "C08", "oracle/gift-setup-failed": "C08",
    "oracle/gift-outstanding-proxy-dead": "C09", "oracle/holder-count-differs-from-owner-refcount": "C09", "oracle/gift-released-early": "C09", "oracle/leak": "C09", "oracle/logged-error": "C09",
}


def coq_op(o):
    if o[0] == "TExport":
        return "TExport %d %d %d %s" % (o[1], o[2], o[3], "true" if (len(o) < 5 or o[4]) else "false")
    if o[0] == "TRegister":
        return "TRegister %d %d (%d)" % (o[1], o[2], o[3])
    if o[0] in ("TGive", "TAppDrop"):
        return "%s (%d, %d)" % (o[0], o[1], o[2])
    if o[0] in ("TLookup", "TAnswer"):
        return "%s %d%%nat" % (o[0], o[1])
    return o[0]


COQ_OBS = """Local Open Scope Z_scope.
Definition tobs (s : tstate) :=
  (map (fun e => [fst (ge_key e); snd (ge_key e); ge_id e; ge_count e]) (gifts s),
   map (fun b => [fst (bp_key b); snd (bp_key b); match bp_url b with Some _ => 1 | None => 0 end]) (bprox s),
   map (fun p => [fst p; snd p]) (cprox s),
   [if gfail s then 1 else 0]).
Definition ev_code (e : tevent) : Z :=
  match e with
  | EvIntro _ (Some g) w => if objid_eqb g w then 0 else 1
  | EvIntro _ None _ => 2
  | EvDecgiftError => 3
  end.
Fixpoint trun_groups (s : tstate) (gs : list (list top)) :=
  match gs with
  | [] => []
  | g :: r => let s' := trun s g in (tobs s', map ev_code (trun_events s g)) :: trun_groups s' r
  end.
"""


def histories(ctx):
    """-> list of results (witnesses first, then random histories), all on one reused world"""
    gc.collect()
    gc.freeze()
    gc.disable()
    out = []
    try:
        with quiet():
            W = World3()
            if not W.ok:
                return [dict(actions=[], groups=[], snaps=[], problems=[("oracle/gift-setup-failed", "the four-Tub world could not be set up")],
                             flags=[], final=None, origin="setup")]
            for name, acts in WITNESSES.items():
                W.balance()
                r = run_actions(W, acts)
                r["origin"] = "witness:" + name
                out.append(r)
                if r.get("broken"):
                    W.close()
                    W = World3()
            for i in range(ctx.n(150, 1500)):
                r = gen_history(W, ctx.rng, ctx.rng.choice([8, 14, 20, 30]))
                r["origin"] = "random"
                out.append(r)
                if r.get("broken"):
                    W.close()
                    W = World3()
            W.close()
    finally:
        gc.enable()
        gc.unfreeze()
    return out


def compare(r, mv):
    if len(mv) != len(r["actions"]):
        return (0, "model returned %d observations for %d actions" % (len(mv), len(r["actions"])))
    for i, (a, sn, m) in enumerate(zip(r["actions"], r["snaps"], mv)):
        gifts, bprox, cprox, misc, evs = m
        mo = dict(gifts=sorted(list(x) for x in gifts), bprox=sorted(list(x) for x in bprox), cprox=sorted(list(x) for x in cprox))
        if mo != sn:
            return (i, "after action %d %r: model state %r, implementation state %r" % (i, a, mo, sn))
        if misc[0] or any(e != 0 for e in evs):
            return (i, "after action %d %r the model reports a failed introduction / decgift (events %r)" % (i, a, evs))
    return None


def check_gifts(ctx, pid, model_ok):
    """direct oracle (signatures of property pid) + correspondence with lib/Gifts.v"""
    import json
    from harness import common
    results = histories(ctx)
    seen = set()
    for r in results:
        ctx.case(["gift3", r["actions"]], nontrivial="giver-drops-while-gift-under-way" in r["flags"] or "colliding-clids-in-one-call" in r["flags"])
        ctx.hist("gift3_origin", r["origin"].split(":")[0])
        for f in r["flags"]:
            ctx.hist("gift3_feature", f)
        ctx.hist("gift3_outcome", "held" if not r["problems"] else r["problems"][0][0])
        for sig, text in r["problems"]:
            if SIG_PROPERTY.get(sig, pid) != pid or sig in seen:
                continue
            seen.add(sig)
            ctx.fail(sig, "%s; three-party history (%s, %d actions): %s" % (text, r["origin"], len(r["actions"]), json.dumps(r["actions"])),
                     replay=dict(scenario="four Tubs (owners A, D; giver B; recipient C), message-granular", actions=r["actions"],
                                 origin=r["origin"]))
    ctx.extra["gift3_histories"] = len(results)
    if results[:1]:
        ctx.sample(dict(origin=results[0]["origin"], actions=results[0]["actions"], model_ops=[[list(o) for o in g] for g in results[0]["groups"]],
                        final=results[0]["final"]))
    if not model_ok:
        return
    body = COQ_OBS
    good = [r for r in results if r["actions"]]
    for r in good:
        gs = "[" + "; ".join("[" + "; ".join(coq_op(o) for o in g) + "]" for g in r["groups"]) + "]"
        body += "Eval vm_compute in trun_groups tinit %s.\n" % gs
    try:
        vals = ctx.coq_eval(pid + "_gift3_cases", body, requires=["Verif.lib.PyLite", "Verif.gen.RefsGen", "Verif.lib.Gifts"])
        if len(vals) != len(good):
            raise common.CoqEvalError("expected %d values, got %d" % (len(good), len(vals)))
    except common.CoqEvalError as e:
        ctx.fail("correspondence-broken", "the three-party model could not be evaluated: " + str(e)[-1200:], has_input=False)
        return
    nbad = 0
    for r, m in zip(good, vals):
        ctx.traces += 1
        c = compare(r, m)
        if c:
            nbad += 1
            if nbad == 1:
                k = c[0]
                ctx.fail("correspondence/gift-trace", "three-party model and implementation disagree: %s; history prefix (%s): %s"
                         % (c[1], r["origin"], json.dumps(r["actions"][:k + 1])),
                         replay=dict(actions=r["actions"][:k + 1], groups=r["groups"][:k + 1], detail=c[1]), has_input=False)
    ctx.extra["gift3_correspondence_steps"] = sum(len(r["actions"]) for r in good)
    ctx.extra["gift3_disagreements"] = nbad
