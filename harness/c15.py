"""C15 -- keepalive and idle-disconnect timers fire when and only when they should."""
import glob, json, os
from harness import common
from harness.common import coq_list, coq_Z, coq_opt

REQ = ["Verif.lib.PyLite", "Verif.gen.BananaGen", "Verif.gen.TimersGen", "Verif.lib.Timers"]


def run(ctx):
    ctx.rule = ("schedule = (K, T, connection time, list of rx/rxbad/tick/close events on a 1 ms grid) generated against the "
                "live timers of a real Broker: reactor turns exactly at / 1 ms around / late after each pending expiry, arrivals "
                "at expiry-1/0/+1 ms and at last-arrival + {T, 2T+eps, K, 2K+eps} -1/0/+1 ms; non-trivial = distinct schedule "
                "in which at least one timer callback ran; plus float-second schedules, pending-call teardowns and PING/PONG "
                "tokens inserted at token boundaries of nested messages (distinct = (message, position, number, token))")
    ctx.assumptions = [
        "correspondence and boundary oracle run the real code with integer milliseconds as the time unit (virtual clock, "
        "time.time() and timeouts are ints, banana.EPSILON replaced in-process by its exact decimal value in ms); the code only "
        "adds, subtracts and compares times, so this is a change of unit; binary-float rounding is covered by the C15_*_binary64 "
        "theorems on an exact Z model of binary64 +/- (lib/TimersFloat.v, compared with the interpreter's floats on every run; "
        "normal range, results below 2^31 s); the float-second oracle keeps 1 ms distance from every boundary",
        "a reactor turn runs every due delayed call once and sees one value of time.time() (task.Clock semantics); the order of "
        "the two callbacks inside one turn is proved immaterial (C15_callback_order_immaterial)",
        "transport.loseConnection() leads to connectionLost() at some later time chosen by the schedule (Close / BLost event); "
        "until then the keepalive timer stays armed (C15_keepalive_survives_teardown, seen on the real Broker as well)",
        "byte-level PING/PONG theorems are about the C07 receiver model lib/Recv.v + lib/BananaRecv.v (hand-transcribed from "
        "handleData, instantiated with the policy unslicers of harness/c07_impl.py) tied by vm_compute correspondence: woven streams "
        "under whole / bytewise / random chunkings on the real Banana vs bfeed_all vs the specification `expect`; real unslicers "
        "(StorageBanana, Broker) are covered by the direct oracle at every token boundary",
        "pending calls: the request table / eventual queue is C03's model lib/Requests.v (translated PendingRequest, Broker.finish, "
        "abandonAllRequests); the glue connectionTimedOut -> shutdown -> finish / loseConnection and Broker.connectionLost is "
        "translated statement by statement (gen/TimersGen.v) and compared with the real Broker (calls, teardown, late call, close)",
    ]
    ok, log = ctx.coq_build(["props/C15.vo"])
    from harness import c15_impl as impl
    before = len(ctx.failures)
    eps = impl.eps_ms()
    cases = []
    # 1. corpus (regression witnesses / boundary cases), then generated schedules -- real code + direct oracle
    for path in sorted(glob.glob(os.path.join(common.VERIF, "corpus", "C15", "*.json"))):
        for c in json.load(open(path))["cases"]:
            ev = [tuple(e) for e in c["events"]]
            o = impl.run_schedule(c["K"], c["T"], ev, exact=True, t0=c.get("t0", 0), payloads=c.get("payloads"))
            record(ctx, cases, c["K"], c["T"], c.get("t0", 0), ev, o, eps, "corpus:" + os.path.basename(path))
    n = ctx.n(800, 40000)
    for i in range(n):
        K, T, t0, ev, o = gen_schedule(ctx.rng, impl)
        record(ctx, cases, K, T, t0, ev, o, eps, "generated")
    for K, T, t0, ev, o in steady_trickle(ctx, impl):
        record(ctx, cases, K, T, t0, ev, o, eps, "steady-trickle")
        if "error-chunk" in o.kinds and not o.torn:
            ctx.fail("oracle/receive-error-on-valid-stream", "a well-formed inbound stream (valid under every chunking) made the "
                     "receiver abandon the connection  [K=%r T=%r events=%r payloads=%r]" % (K, T, ev, o.payloads[:60]),
                     replay=dict(K=K, T=T, t0=t0, events=ev, payloads=o.payloads))
    if ctx.tier == "thorough":
        for K, T, t0, ev in small_patterns():
            o = impl.run_schedule(K, T, ev, exact=True, t0=t0)
            record(ctx, cases, K, T, t0, ev, o, eps, "pattern")
    import time as _t
    import os as _os
    tm = {}
    cpu = {}

    def _cpu(tag):
        x = _os.times()
        cpu[tag] = round(x[0] + x[1] + x[2] + x[3], 1)
    tm['schedules'] = round(_t.time() - ctx.t0, 1)
    _cpu('schedules')
    # 2. correspondence with the Coq model
    model_ok = ok
    if not ok:
        model_ok, _ = ctx.coq_build(["lib/Timers.vo", "lib/TimersCalls.vo"])
    ctx.extra["_callcases"] = []
    if model_ok:
        correspond(ctx, cases)
    tm['correspond'] = round(_t.time() - ctx.t0, 1)
    _cpu('correspond')
    # 3. float seconds, unmodified EPSILON
    float_oracle(ctx, impl)
    fl_ok = ok
    if not ok:
        fl_ok, _ = ctx.coq_build(["lib/TimersFloat.vo"])
    if fl_ok:
        binary64_correspond(ctx)
    # 4. pending calls fail with DeadReferenceError on teardown
    pending_calls(ctx, impl, eps)
    call_states(ctx, impl, eps)
    closing_paths(ctx, impl, eps)
    if model_ok:
        calls_correspond(ctx)
    tub_level(ctx, impl)
    tm['float+calls+tubs'] = round(_t.time() - ctx.t0, 1)
    _cpu('float+calls+tubs')
    # 5. PING / PONG
    pingpong(ctx, impl, model_ok)
    tm['pingpong'] = round(_t.time() - ctx.t0, 1)
    _cpu('pingpong')
    wire_ok = ok
    if not ok:
        wire_ok, _ = ctx.coq_build(["lib/TimersWire.vo"])
    if wire_ok:
        wire_correspond(ctx, impl)
    tm['wire'] = round(_t.time() - ctx.t0, 1)
    _cpu('wire')
    ctx.extra['cumulative_s'] = tm
    ctx.extra['cumulative_cpu_s'] = cpu
    if not ok and len(ctx.failures) == before:
        ctx.fail("proof-broken", "theorem closure props/C15.vo no longer builds against the regenerated gen/TimersGen.v:\n"
                 + log[-2500:], replay=dict(log=log[-6000:]), has_input=False)
    elif not ok:
        ctx.note("proof broken AND a failing input was found (reported above)")


# ------------------------------------------------------------------------------------------ schedules

KS = [None, 0, 1, 2000, 5000, 3000]
TS = [None, 0, 1, 3000, 7000, 2000]


def gen_schedule(rng, impl):
    K = rng.choice(KS)
    T = rng.choice(TS)
    t0 = rng.choice([0, 0, 17, 1000])
    eps = impl.eps_ms()
    punctual = rng.random() < 0.6
    # what the arrivals carry: one PONG byte each, or successive chunks of a stream with every kind of inbound byte
    stream = impl.inbound_stream(rng, rng.randint(1, 5)) if rng.random() < 0.6 else None
    maxchunk = rng.choice([1, 1, 3, 12, 60, 400])
    r = impl.Run(K, T, True, t0, stream=stream)
    t = t0
    last = t0
    n = rng.randint(0, 14)

    def tick_through(limit, inclusive):
        """punctual reactor: turn at every pending expiry before `limit`"""
        nonlocal t
        for _ in range(30):
            pend = [x for x in r.pending() if x is not None]
            if not pend:
                return
            e = min(pend)
            if e < t:
                e = t
            if e < limit or (inclusive and e == limit):
                r.step("tick", e)
                t = e
            else:
                return

    closed = False
    for i in range(n):
        pend = [x for x in r.pending() if x is not None]
        x = rng.random()
        if closed:      # Twisted delivers neither data nor a second connectionLost after connectionLost
            x = x * 0.40
        if x < 0.40:
            if pend:
                e = max(t, min(pend))
                u = e if x < 0.30 else e + rng.choice([1, 50, eps, 1000, (T or 500)])
                if x >= 0.36:
                    u = max(t, e - 1)
            else:
                u = t + rng.choice([0, 1, 500, 4000])
            if punctual:
                tick_through(u, False)
            r.step("tick", u)
            t = u
        elif x < 0.92:
            cands = [t, t + 1, t + rng.randint(0, 3000)]
            for e in pend:
                cands += [e - 1, e, e + 1]
            for base in (T, K):
                if base is not None:
                    for off in (-1, 0, 1):
                        cands += [last + base + off, last + 2 * base + eps + off, last + base + eps + off]
            cands = [c for c in cands if c >= t]
            u = rng.choice(cands)
            if punctual:
                tick_through(u, rng.random() < 0.5)
            r.step("rxbad" if x > 0.90 else "rx", u, rng.randint(1, maxchunk))
            t = u
            last = u
        else:
            u = t + rng.choice([0, 1, 700])
            if punctual:
                tick_through(u, rng.random() < 0.5)
            r.step("close", u)
            t = u
            closed = True
    # idle tail: long enough for both bounds
    horizon = t + 2 * max(K or 0, T or 0) + eps + rng.choice([1, 2, 1500])
    if punctual or rng.random() < 0.5:
        tick_through(horizon, True)
    else:
        lag = rng.choice([1, 300, 2500])
        for _ in range(40):
            pend = [x for x in r.pending() if x is not None]
            if not pend or t > horizon:
                break
            u = max(t, min(pend) + rng.randint(0, lag))
            r.step("tick", u)
            t = u
    if t <= horizon:
        r.step("tick", horizon + 1)
    o = r.finish()
    return K, T, t0, list(o.events), o


def steady_trickle(ctx, impl):
    """'some byte arrives at least every T' for every KIND of inbound byte: a stream with accepted tokens, tokens
    discarded after a Violation, skipped bodies of rejected STRING/LONGINT/FLOAT tokens, PING/PONG and partial headers
    trickles in a few bytes at a time, one arrival every g <= T, for much longer than 2T + eps, with a punctual reactor
    (and, in half of the runs, an occasionally late one).  The oracle is the general one (no teardown / PING unless
    the latest arrival is older than T / K)."""
    rng = ctx.rng
    eps = impl.eps_ms()
    for trial in range(ctx.n(50, 1500)):
        K = rng.choice([None, 2000, 5000])
        T = rng.choice([3000, 3000, 1000, 7000])
        t0 = rng.choice([0, 17])
        g = rng.choice([T, T - 1, T // 2, 700, (K or T) if (K or T) <= T else T, 1])
        stream = impl.inbound_stream(rng, rng.randint(1, 3))
        maxchunk = rng.choice([1, 2, 5, 25])
        # start somewhere inside the stream's first block or at its beginning
        r = impl.Run(K, T, True, t0, stream=stream)
        t = t0
        late = rng.random() < 0.5
        n = rng.randint(8, 40)
        for i in range(n):
            u = t + (g if rng.random() < 0.8 else rng.randint(0, g))
            for _ in range(60):
                pend = [x for x in r.pending() if x is not None]
                if not pend or min(pend) > u or (min(pend) == u and rng.random() < 0.5):
                    break
                e = max(t, min(pend))
                if late and rng.random() < 0.3:
                    e = min(u, e + rng.randint(0, 400))
                r.step("tick", e)
                t = e
            r.step("rx", u, rng.randint(1, maxchunk))
            t = u
        # then silence: the bounds apply
        horizon = t + 2 * max(K or 0, T) + eps + 1
        for _ in range(60):
            pend = [x for x in r.pending() if x is not None]
            if not pend or min(pend) > horizon:
                break
            t = max(t, min(pend))
            r.step("tick", t)
        r.step("tick", horizon + 1)
        o = r.finish()
        yield K, T, t0, list(o.events), o


def small_patterns():
    """thorough tier: every sequence of <= 3 arrival gaps from a boundary set, with reactor turns at every instant
    (arrival or connection time) + k * (timeout + eps)"""
    import itertools
    out = []
    K, T, eps = 2000, 3000, 100
    gaps = [T - 1, T, T + 1, 2 * T + eps - 1, 2 * T + eps, 2 * T + eps + 1, 1]
    for n in range(0, 4):
        for gs in itertools.product(gaps, repeat=n):
            arr = []
            cur = 0
            for g in gs:
                cur += g
                arr.append(cur)
            horizon = cur + 2 * T + eps + 2
            ticks = set()
            for base in [0] + arr:
                for k in range(0, 5):
                    for tm in (K + eps, T + eps):
                        ticks.add(base + k * tm)
            evs = sorted([("tick", t) for t in ticks if t <= horizon] + [("rx", a) for a in arr] + [("tick", horizon)],
                         key=lambda e: (e[1], 0 if e[0] == "rx" else 1))
            out.append((K, T, 0, evs))
    return out


def record(ctx, cases, K, T, t0, ev, o, eps, origin):
    fired = any(o.trace[i] != o.trace[i + 1] for i in range(len(o.trace) - 1))
    ctx.case([K, T, t0, ev], nontrivial=fired)
    ctx.hist("origin", origin.split(":")[0])
    ctx.hist("events", len(ev) // 5 * 5)
    ctx.hist("outcome", ("torn" if o.torn else "kept") + ("+ping" if o.pings else "") + ("+closed" if o.closed_at is not None else ""))
    ctx.sample(dict(K=K, T=T, t0=t0, events=ev[:12], torn=o.torn, pings=o.pings[:5]))
    for kd in getattr(o, "kinds", []):
        ctx.hist("arrival-kind", kd)
    for sig, what in judge(K, T, eps, t0, ev, o, 0):
        rxk = list(zip([e for e in ev if e[0] in ("rx", "rxbad")], o.kinds, o.payloads))
        ctx.fail(sig, what + "  [K=%r T=%r t0=%r events=%r; rx payloads (event, kind of bytes, hex): %r]" % (K, T, t0, ev, rxk[:40]),
                 replay=dict(K=K, T=T, t0=t0, events=ev, payloads=o.payloads, arrival_kinds=o.kinds, torn=o.torn, pings=o.pings,
                             trace=o.trace))
    cases.append((K, T, t0, ev, o))


def judge(K, T, eps, t0, events, o, tol, results=None):
    """the property, evaluated on what the real code did (independent of the Coq model)"""
    bad = []
    if o.exc:
        bad.append(("oracle/exception", "the timer code raised: " + o.exc))
        return bad
    if o.dup_timers:
        bad.append(("oracle/duplicate-timer", "two delayed calls of the same timer are pending at once"))
    # lateness of the reactor as observed on the pending delayed calls
    d = 0
    for i, (kind, t) in enumerate(events):
        for e in o.trace[i]:
            if e is not None and not isinstance(e, tuple):
                d = max(d, t - e)
    # latest arrival the connection pays attention to, before each event
    la = []
    cur, ab = t0, False
    for kind, t in events:
        la.append(cur)
        if kind in ("rx", "rxbad") and not ab:
            cur = t
        if kind == "rxbad":
            ab = True
    ticks = [(t, la[i]) for i, (kind, t) in enumerate(events) if kind == "tick"]
    # (a) teardown only in a reactor turn with the latest arrival more than T old; at most once; none without T
    if T is None and o.torn:
        bad.append(("oracle/teardown-without-timeout", "connectionTimedOut called although no disconnectTimeout is configured"))
    if len(o.torn) > 1:
        bad.append(("oracle/teardown-twice", "connectionTimedOut called %d times" % len(o.torn)))
    for x in o.torn:
        if T is not None and not any(abs(t - x) <= tol and x - a > T - tol for (t, a) in ticks):
            bad.append(("oracle/early-teardown", "torn down at %r although the latest arrival was not more than T=%r old" % (x, T)))
    # (b) PING only in a turn with the latest arrival more than K old
    if K is None and o.pings:
        bad.append(("oracle/ping-without-keepalive", "PING written although no keepaliveTimeout is configured"))
    for p in o.pings:
        if K is not None and not any(abs(t - p) <= tol and p - a > K - tol for (t, a) in ticks):
            bad.append(("oracle/early-ping", "PING at %r although the latest arrival was not more than K=%r old" % (p, K)))
    # (c) bounds on every maximal arrival-free stretch of reactor turns (before any connectionLost)
    i = 0
    nclose = 0
    while i < len(events):
        if events[i][0] != "tick":
            if events[i][0] == "close":
                nclose += 1
            i += 1
            continue
        j = i
        while j + 1 < len(events) and events[j + 1][0] == "tick":
            j += 1
        if nclose == 0:
            s = events[i - 1][1] if i > 0 else t0
            end = events[j][1]
            if T is not None and end > s + 2 * T + eps + d + tol:
                if not any(x <= s + 2 * T + eps + d + tol for x in o.torn):
                    bad.append(("oracle/late-or-no-teardown", "idle since %r, reactor at most %r late, clock reached %r, but no "
                                "teardown by %r (teardowns: %r)" % (s, d, end, s + 2 * T + eps + d, o.torn)))
            if K is not None and end > s + 2 * K + eps + d + tol:
                c0, c1 = o.counts[i][1], o.counts[j + 1][1]
                newp = o.pings[c0:c1]
                if not any(s - tol <= p <= s + 2 * K + eps + d + tol for p in newp):
                    bad.append(("oracle/late-or-no-ping", "idle since %r, reactor at most %r late, clock reached %r, but no PING "
                                "by %r (pings in this stretch: %r)" % (s, d, end, s + 2 * K + eps + d, newp)))
        i = j + 1
    # (d) after connectionLost: nothing pending, nothing re-armed, no ping, no teardown
    seen_close = None
    for i, (kind, t) in enumerate(events):
        if kind == "close" and seen_close is None:
            seen_close = i
        if seen_close is not None:
            if o.trace[i + 1] != (None, None):
                bad.append(("oracle/timer-after-close", "a keepalive/disconnect delayed call is pending after connectionLost: %r"
                            % (o.trace[i + 1],)))
                break
            if o.counts[i + 1] != o.counts[seen_close]:
                bad.append(("oracle/activity-after-close", "PING or teardown after connectionLost"))
                break
    if seen_close is not None and (o.leftover or o.attr_ka or o.attr_dc):
        bad.append(("oracle/timer-after-close", "timer still referenced after connectionLost: %r" % (o.leftover,)))
    elif seen_close is not None and getattr(o, "leftover_any", None):
        bad.append(("oracle/timer-after-close", "delayed calls of this connection still scheduled after connectionLost: %r"
                    % (o.leftover_any,)))
    # (e) a teardown drops the transport at once; timers exist exactly when configured (until close / teardown)
    nbad = sum(1 for k, _ in events if k == "rxbad")
    if len(o.lose) < len(o.torn) or any(x not in o.lose for x in o.torn):
        bad.append(("oracle/teardown-keeps-transport", "connectionTimedOut did not call transport.loseConnection()"))
    if len(o.lose) > len(o.torn) + min(nbad, 1):
        bad.append(("oracle/spurious-loseConnection", "loseConnection called %d times for %d teardown(s)" % (len(o.lose), len(o.torn))))
    for i, st in enumerate(o.trace):
        closed = seen_close is not None and i > seen_close
        if not closed:
            if (st[0] is None) != (K is None):
                bad.append(("oracle/keepalive-timer-missing", "keepalive timer pending=%r with K=%r after event %d" % (st[0], K, i)))
                break
            if st[1] is None and T is not None and o.counts[i][0] == 0:
                bad.append(("oracle/disconnect-timer-missing", "disconnect timer not pending with T=%r after event %d" % (T, i)))
                break
            if st[1] is not None and T is None:
                bad.append(("oracle/disconnect-timer-missing", "disconnect timer pending without T"))
                break
    return bad


# ------------------------------------------------------------------------------------------ correspondence

def coq_ev(e):
    k, t = e
    return "%s %s" % ({"rx": "Rx", "rxbad": "RxBad", "tick": "Tick", "close": "Close"}[k], coq_Z(t))


BODY = """
Local Open Scope Z_scope.
Definition oz (o : option Z) : Z := match o with Some x => x | None => -1 end.
Fixpoint trace (c : cfg) (s : st) (evs : list ev) : list (Z * Z) :=
  match evs with [] => [] | e :: r => let s' := step c s e in (oz (ka s'), oz (dc s')) :: trace c s' r end.
Definition obs (x : option Z * option Z * Z * list ev) :=
  let '(K, T, t0, evs) := x in
  let c := {| cK := K; cT := T |} in
  let s0 := init c t0 in let s := run c s0 evs in
  (rev (torn s), rev (pings s), (last_rx s, oz (ka s0), oz (dc s0)), trace c s0 evs).
Definition cases : list (option Z * option Z * Z * list ev) := %s.
Eval vm_compute in map obs cases.
"""


def correspond(ctx, cases):
    nbad = 0
    total = 0
    STEP = 300
    jobs = []
    for k in range(0, len(cases), STEP):
        part = cases[k:k + STEP]
        lines = ["(%s, %s, %s, %s)" % (coq_opt(K, coq_Z), coq_opt(T, coq_Z), coq_Z(t0), coq_list(ev, coq_ev))
                 for (K, T, t0, ev, o) in part]
        jobs.append(("C15_cases_%d" % (k // STEP), BODY % coq_list(lines)))
    results = par_eval(ctx, jobs)
    for ji, res in enumerate(results):
        part = cases[ji * STEP:(ji + 1) * STEP]
        if isinstance(res, Exception):
            ctx.fail("correspondence-broken", "the model could not be evaluated: " + str(res)[-1500:], has_input=False)
            return
        (vals,) = res
        for (K, T, t0, ev, o), m in zip(part, vals):
            total += 1
            ctx.traces += 1
            mtorn, mpings, (mlast, mka0, mdc0), mtrace = m
            z = lambda x: -1 if x is None else x
            itrace = [(z(a), z(b)) for (a, b) in o.trace]
            ilast = o.last_rx if (K is not None or T is not None) else t0
            diffs = []
            if o.exc:
                diffs.append("implementation raised " + o.exc)
            if list(mtorn) != list(o.torn):
                diffs.append("teardown times: model %r, implementation %r" % (mtorn, o.torn))
            if list(mpings) != list(o.pings):
                diffs.append("PING times: model %r, implementation %r" % (mpings, o.pings))
            if mlast != ilast:
                diffs.append("dataLastReceivedAt: model %r, implementation %r" % (mlast, ilast))
            if [(mka0, mdc0)] + [tuple(x) for x in mtrace] != itrace:
                diffs.append("pending timers after each event: model %r, implementation %r" %
                             ([(mka0, mdc0)] + [tuple(x) for x in mtrace], itrace))
            if diffs:
                nbad += 1
                ctx.fail("correspondence/timers", "model and implementation disagree on K=%r T=%r t0=%r events=%r: %s"
                         % (K, T, t0, ev, "; ".join(diffs)),
                         replay=dict(K=K, T=T, t0=t0, events=ev, diffs=diffs), has_input=False)
    ctx.extra["correspondence_cases"] = total
    ctx.extra["correspondence_disagreements"] = nbad


# ------------------------------------------------------------------------------------------ float seconds

def float_oracle(ctx, impl):
    rng = ctx.rng
    eps = impl._ORIG_EPS
    n = ctx.n(300, 6000)
    for trial in range(n):
        K = rng.choice([None, 2, 5, 240])
        T = rng.choice([None, 3, 7, 10])
        r = impl.Run(K, T, False, 0.0)
        t = 0.0
        m = rng.randint(0, 10)

        def tick_through(limit):
            nonlocal t
            for _ in range(400):
                pend = [x for x in r.pending() if x is not None]
                if not pend or min(pend) > limit:
                    return
                e = max(t, min(pend))
                r.step("tick", e)
                t = e
        for i in range(m):
            gaps = [0.5, 1.0, 2.0]
            for base in (T, K):
                if base is not None:
                    gaps += [base - 0.001, base + 0.001, 2 * base + eps + 0.001, 2 * base + eps - 0.001, base + eps + 0.001]
            u = round(t + rng.choice(gaps), 3)
            # keep 1 ms distance from every pending expiry (binary rounding at an exact tie is out of scope)
            tick_through(u - 0.0005)
            if any(x is not None and abs(x - u) < 0.0005 for x in r.pending()):
                u = round(u + 0.002, 3)
                tick_through(u - 0.0005)
            if rng.random() < 0.04:
                r.step("close", u)
                t = u
                break
            r.step("rx", u)
            t = u
        horizon = t + 2 * max(K or 0, T or 0) + eps + 0.5
        tick_through(horizon)
        r.step("tick", horizon + 0.25)
        o = r.finish()
        ev = list(o.events)
        ctx.case(["float", K, T, ev], nontrivial=any(o.trace[i] != o.trace[i + 1] for i in range(len(o.trace) - 1)))
        ctx.hist("origin", "float-seconds")
        for sig, what in judge(K, T, eps, 0.0, ev, o, 1e-6):
            ctx.fail(sig, "(float seconds) " + what + "  [K=%r T=%r events=%r]" % (K, T, ev),
                     replay=dict(K=K, T=T, events=ev, unit="s", torn=o.torn, pings=o.pings))


# ------------------------------------------------------------------------------------------ pending calls

def pending_calls(ctx, impl, eps):
    rng = ctx.rng
    for trial in range(ctx.n(60, 600)):
        K = rng.choice([None, 2000])
        T = rng.choice([3000, 1, 7000])
        ncalls = rng.randint(1, 3)
        r = impl.Run(K, T, True, 0, with_call=ncalls)
        t = 0
        arrivals = rng.randint(0, 3)
        for i in range(arrivals):
            u = t + rng.choice([1, T - 1, T, 500])
            for _ in range(50):
                pend = [x for x in r.pending() if x is not None]
                if not pend or min(pend) > u:
                    break
                t = max(t, min(pend))
                r.step("tick", t)
            r.step("rx", u)
            t = u
        failed_early = list(r.o.results)
        horizon = t + 2 * T + eps + 1
        for _ in range(100):
            pend = [x for x in r.pending() if x is not None]
            if not pend or min(pend) > horizon:
                break
            t = max(t, min(pend))
            r.step("tick", t)
        r.step("tick", horizon)
        late_call = []
        # a call made after the teardown fails at once with DeadReferenceError as well
        try:
            d = r.o.rr.callRemote("after", 1)
            d.addBoth(late_call.append)
            impl.E.turn()
        except Exception as e:
            late_call.append(e)
        r.step("close", horizon)
        o = r.finish()
        ev = list(o.events)
        ctx.case(["calls", K, T, ncalls, ev], nontrivial=bool(o.torn))
        ctx.hist("origin", "pending-calls")
        bad = judge(K, T, eps, 0, ev, o, 0)
        kinds = sorted((i, getattr(getattr(res, "type", None), "__name__", type(res).__name__)) for (i, tm, res) in o.results)
        times = sorted(set(tm for (i, tm, res) in o.results))
        if failed_early and not [x for x in o.torn if x <= t]:
            bad.append(("oracle/call-failed-early", "pending calls failed before any teardown: %r" % (failed_early,)))
        if not o.torn:
            bad.append(("oracle/late-or-no-teardown", "no teardown within 2T+eps of idleness"))
        elif kinds != [(i, "DeadReferenceError") for i in range(ncalls)]:
            bad.append(("oracle/pending-call-not-failed", "after the idle teardown the %d pending callRemote Deferreds ended as %r "
                        "(expected each to fail once with DeadReferenceError)" % (ncalls, kinds)))
        elif times != [o.torn[0]]:
            bad.append(("oracle/pending-call-not-failed", "pending calls failed at %r, teardown at %r" % (times, o.torn)))
        lk = [getattr(getattr(x, "type", None), "__name__", type(x).__name__) for x in late_call]
        if o.torn and lk != ["DeadReferenceError"]:
            bad.append(("oracle/call-after-teardown", "callRemote after the teardown ended as %r" % (lk,)))
        if o.all_delayed:
            bad.append(("oracle/timer-after-close", "%d delayed calls left after connectionLost" % o.all_delayed))
        for sig, what in bad:
            ctx.fail(sig, what + "  [K=%r T=%r calls=%d events=%r]" % (K, T, ncalls, ev),
                     replay=dict(K=K, T=T, calls=ncalls, events=ev))
        # for the correspondence with the Broker model (timers + request table): calls, the schedule, a late call, the close
        mev = ["call"] * ncalls + [tuple(e) for e in ev[:-1]] + ["call"] + [tuple(ev[-1])]
        fires = [[4 if k == "DeadReferenceError" else 7 for (i2, k) in kinds if i2 == i] for i in range(ncalls)]
        fires.append([4 if k == "DeadReferenceError" else 7 for k in lk])
        ctx.extra["_callcases"].append((K, T, mev, fires, [], list(o.lose), list(o.torn), bool(o.disconnected),
                                        "pending-calls K=%r T=%r calls=%d events=%r" % (K, T, ncalls, ev)))


# ------------------------------------------------------------------------------------------ pending calls, every state

def call_states(ctx, impl, eps):
    """'its pending calls fail with DeadReferenceError': at the idle teardown every outstanding callRemote -- queued but
    not yet written, written, response header (OPEN answer/error + reqID) arrived, response partly arrived (inside nested
    tokens / inside a token body), complete response waiting for a gift -- fails exactly once with DeadReferenceError at
    the time of the teardown; calls answered before the silence succeeded exactly once; nothing fires when the
    transport closes or the gifts resolve later."""
    import random
    fixed = random.Random(15)
    plans = []
    for st in impl.CALL_STATES:                      # fixed witnesses: every state alone and next to a plain pending call
        plans.append((None, 3000, [st], None, fixed))
        plans.append((2000, 3000, ["sent", st, "answered"], 1, fixed))
    plans.append((None, 1000, ["gift", "gift", "partial", "unsent", "unsent", "answered", "sent"], 7, fixed))
    rng = ctx.rng
    for _ in range(ctx.n(80, 1500)):
        n = rng.randint(1, 6)
        plans.append((rng.choice([None, 2000]), rng.choice([3000, 1000, 1]), [rng.choice(impl.CALL_STATES) for _ in range(n)],
                      rng.choice([None, 1, 5, 40]), rng))
    for K, T, states, csize, r_ in plans:
        chunk = None if csize is None else (lambda rr, c=csize: rr.randint(1, c))
        res = impl.call_states(K, T, states, r_, chunk)
        o = res["o"]
        ev = list(o.events)
        ctx.case(["call-states", K, T, res["states"], csize, ev], nontrivial=bool(o.torn))
        ctx.hist("origin", "call-states")
        for st in res["states"]:
            ctx.hist("call-state", st)
        bad = judge(K, T, eps, 0, ev, o, 0)
        if len(o.torn) != 1:
            bad.append(("oracle/late-or-no-teardown", "teardowns after going silent at %r: %r" % (res["t_silent"], o.torn)))
        else:
            x = o.torn[0]
            for i, st in enumerate(res["states"]):
                got = res["outcomes"][i]
                if st == "answered":
                    if len(got) != 1 or got[0][1] != "42" or got[0][0] > res["t_silent"]:
                        bad.append(("oracle/answered-call-wrong", "call %d was answered with 42 before the silence but ended as %r" % (i, got)))
                elif got != [(x, "DeadReferenceError")]:
                    bad.append(("oracle/pending-call-not-failed", "call %d (state at the teardown: %s, reqID %r) ended as %r; expected "
                                "exactly one DeadReferenceError at the teardown time %r" % (i, st, res["reqids"][i], got, x)))
            if res["waiting_left"]:
                bad.append(("oracle/pending-call-not-failed", "requests still registered after the teardown: %r" % (res["waiting_left"],)))
        if len(o.torn) == 1 and not o.exc:
            # Broker model: the calls in the order they were made, the arrivals, the answers (all complete before the
            # silence), the idle phase, the close
            order = res["order"]
            nrx = max([i for i, e in enumerate(ev) if e[0] in ("rx", "rxbad")] + [-1]) + 1
            mev = ["call"] * len(order) + [tuple(e) for e in ev[:nrx]] + \
                  [("answer", res["reqids"][i]) for i in res["answered_order"]] + [tuple(e) for e in ev[nrx:]]
            code = {"DeadReferenceError": 4, "42": 1}
            fires = [[code.get(k, 7) for (tm_, k) in res["outcomes"][i]] for i in order]
            ctx.extra["_callcases"].append((K, T, mev, fires, list(res["waiting_left"]), list(o.lose), list(o.torn), bool(o.disconnected),
                                            "call-states K=%r T=%r states=%r events=%r" % (K, T, res["states"], ev)))
        for sig, what in bad:
            ctx.fail(sig, what + "  [K=%r T=%r call states %r, inbound bytes %s fed in chunks of <= %r, events %r]"
                     % (K, T, res["states"], res["inbound"], csize, ev),
                     replay=dict(K=K, T=T, states=res["states"], inbound=res["inbound"], chunk=csize, events=ev, payloads=o.payloads,
                                 outcomes=res["outcomes"]))


# ------------------------------------------------------------------------------------------ every closing path

def closing_paths(ctx, impl, eps):
    """'All timers are cancelled when the connection closes', for every way a Broker ends (fixed list, every K/T
    combination): connectionLost with or without connectionMade, after an idle teardown, after the application's
    shutdown() / finish(), twice; plus reactor turns long after.  After the last connectionLost no delayed call of the
    Broker may be scheduled, nothing may raise, the pending call failed exactly once with DeadReferenceError."""
    long_ = "tick:%d" % (5 * 7000 + eps)
    # (Twisted never delivers connectionLost twice to one protocol: not in the list)
    paths = [["lost"], ["made", "lost"], ["made", "shutdown", "lost"],
             ["made", "finish", "lost"], ["made", "shutdown", "shutdown", "lost"], ["made", "finish", "finish", "lost", long_],
             ["made", long_, "lost"], ["made", long_, "lost", long_], ["made", long_, "shutdown", "lost"],
             ["made", "shutdown", long_, "lost", long_], ["lost", long_], ["made", "tick:1", "lost", long_]]
    for K in (None, 2000):
        for T in (None, 3000):
            for path in paths:
                r = impl.closing_path(K, T, path, False)
                ctx.case(["closing", K, T, path], nontrivial=True)
                ctx.hist("origin", "closing-paths")
                bad = []
                if r["exc"]:
                    bad.append(("oracle/exception", "closing the connection raised " + r["exc"]))
                if r["left"] or r["attrs"]:
                    bad.append(("oracle/timer-after-close", "after the last connectionLost: delayed calls %r still scheduled, "
                                "timer attributes %r still set" % (r["left"], r["attrs"])))
                if r["made"] and r["results"] != ["DeadReferenceError"]:
                    bad.append(("oracle/pending-call-not-failed", "the pending callRemote ended as %r" % (r["results"],)))
                for sig, what in bad:
                    ctx.fail(sig, what + "  [K=%r T=%r ms, steps %r]" % (K, T, path), replay=dict(K=K, T=T, path=path))


# ------------------------------------------------------------------------------------------ Tub level

def tub_level(ctx, impl):
    """pb.py options -> negotiation -> two live Brokers pinging each other over the in-memory network"""
    rng = ctx.rng
    eps = impl._ORIG_EPS
    plans = [(2, 6, None), (2, 6, 10.0), (None, 6, None), (None, None, 10.0), (3, None, 7.5), (2, 3, 4.25)]
    for _ in range(ctx.n(4, 60)):
        K = rng.choice([None, 2, 3, 5])
        T = rng.choice([None, 4, 6, 9])
        plans.append((K, T, rng.choice([None, round(rng.uniform(1, 20), 2)])))
    for K, T, hole in plans:
        horizon = 45.0
        r = impl.tub_pair(K, T, hole, horizon)
        ctx.case(["tubs", K, T, hole], nontrivial=True)
        ctx.hist("origin", "tub-level")
        bad = []
        if "error" in r:
            ctx.fail("harness/tub-pair", r["error"], has_input=False)
            continue
        if r["opts"] != [(K, T), (K, T)]:
            bad.append(("oracle/options-not-applied", "brokers run with (keepalive, disconnect) = %r" % (r["opts"],)))
        tol = 1e-6
        alltorn = [x for (x, _) in r["torn"]]
        for bi in range(r["nbrokers"]):
            dl = r["deliv"][bi]
            torn_b = [x for (x, i) in r["torn"] if i == bi]
            if T is None:
                if torn_b:
                    bad.append(("oracle/teardown-without-timeout", "link torn down at %r without disconnectTimeout" % (torn_b,)))
                continue
            if len(torn_b) > 1:
                bad.append(("oracle/teardown-twice", "connectionTimedOut called at %r" % (torn_b,)))
            for x in torn_b:
                last = max([d for d in dl if d < x] or [0.0])
                if x - last <= T - tol:
                    bad.append(("oracle/early-teardown", "teardown at %r although data was delivered to this broker at %r (T=%r)" % (x, last, T)))
                if x > last + 2 * T + eps + tol:
                    bad.append(("oracle/late-or-no-teardown", "last delivery at %r, teardown only at %r" % (last, x)))
            if not torn_b and not alltorn:
                last = max(dl or [0.0])
                if r["end"] - last > 2 * T + eps + tol:
                    bad.append(("oracle/late-or-no-teardown", "nothing delivered to this broker since %r, clock at %r, no teardown" % (last, r["end"])))
        if not alltorn and hole is None and K is not None and r["end"] > 2 * K + eps:
            if r["wire_pings"] == 0 or r["wire_pongs"] != r["wire_pings"]:
                bad.append(("oracle/pong-mismatch", "%d PINGs and %d PONGs on the wire" % (r["wire_pings"], r["wire_pongs"])))
        kinds = [k for (_, k) in r["kinds"]]
        if r["caller_dead"] and kinds != ["DeadReferenceError"]:
            bad.append(("oracle/pending-call-not-failed", "the caller's connection is gone but the pending callRemote ended as %r" % (r["kinds"],)))
        if not r["caller_dead"] and kinds:
            bad.append(("oracle/call-failed-early", "the caller's connection is alive but the pending callRemote ended as %r" % (r["kinds"],)))
        if r["live"] == 0 and r["timers_left"]:
            bad.append(("oracle/timer-after-close", "%d keepalive/disconnect timers pending after the links closed" % r["timers_left"]))
        if r["timers_left_after_stop"]:
            bad.append(("oracle/timer-after-close", "%d timers pending after Tub.stopService" % r["timers_left_after_stop"]))
        for sig, what in bad:
            ctx.fail(sig, "(two Tubs, K=%r T=%r s, network black hole at %r) %s" % (K, T, hole, what),
                     replay=dict(K=K, T=T, blackhole_after=hole, observed={k: v for k, v in r.items() if k not in ("results", "deliv")}))


# ------------------------------------------------------------------------------------------ PING / PONG

def messages():
    import struct
    f = struct.unpack("!d", b"\x40\x8e\x8f\x8e\x8f\x8e\x8f\x8e")[0]
    deep = []
    for i in range(12):
        deep = [deep, i]
    return [
        [1, 2, [3, [4, b"by\x8e\x8ftes", "text"]], {"k": (1, 2.5, None, True)}, 2 ** 70, -2 ** 70, -5, {1, 2}, b"", ""],
        {"a": [{"b": [[], [[]], ()]}], 1: "x" * 300},
        deep,
        "hello",
        [b"\x8e\x8f" * 5, "\x8e", f, -0.0, 1e300, 2 ** 448, -(2 ** 31) - 1],
        (frozenset([b"a", b"b"]), [True, False, None], {"n": {"m": {"l": [0]}}}),
    ]


def numbers(rng):
    return [0, 1, 127, 128, 2 ** 31, 2 ** 64 + 5, 2 ** 448 - 1, rng.randrange(2 ** 448), rng.randrange(2 ** 100)]


def pingpong(ctx, impl, model_ok):
    rng = ctx.rng
    PINGB, PONGB = impl.PING[0], impl.PONG[0]
    tokcases = []      # (message index, insertions, PONG numbers the implementation answered)
    origs = {}
    nums = numbers(rng)
    for mi, msg in enumerate(messages()):
        data = impl.serialize(msg)
        toks = impl.tokenize(data)
        base = impl.decode(data)
        want = impl.canon(msg)
        if base["status"] != "ok" or impl.canon(base["obj"]) != want or base["written"]:
            ctx.fail("harness/pingpong-baseline", "message %d does not round-trip without any PING: %r" % (mi, base), has_input=False)
            continue
        bounds = [t[0] for t in toks] + [len(data)]
        plans = []
        k = 0
        for bi in range(len(bounds)):          # every token boundary, PING and PONG, numbers cycled
            for kind in ("PING", "PONG"):
                # quick tier: a PING at every boundary, a PONG at the first 12 boundaries and every third one after
                if kind == "PING" or ctx.tier == "thorough" or bi < 12 or bi % 3 == 0:
                    plans.append([(bi, kind, nums[k % len(nums)])])
                k += 1
        for _ in range(ctx.n(12, 200)):        # several insertions at once (also several at one boundary)
            plans.append(sorted(((rng.randrange(len(bounds)), rng.choice(["PING", "PONG"]), rng.choice(nums))
                                 for _ in range(rng.randint(2, 8))), key=lambda x: x[0]))
        for plan in plans:
            out = bytearray()
            itoks = []
            pi = 0
            for bi in range(len(bounds)):
                while pi < len(plan) and plan[pi][0] == bi:
                    _, kind, n = plan[pi]
                    out += impl.ping_bytes(n, impl.PING if kind == "PING" else impl.PONG)
                    itoks.append((n, PINGB if kind == "PING" else PONGB))
                    pi += 1
                if bi < len(toks):
                    out += data[toks[bi][0]:toks[bi][1]]
                    itoks.append((toks[bi][2], toks[bi][3]))
            out = bytes(out)
            want_pongs = [n for (_, kind, n) in plan if kind == "PING"]
            want_written = b"".join(impl.ping_bytes(n, impl.PONG) for n in want_pongs)
            chunkings = [None, [1] * len(out)]
            if len(plan) > 1 or rng.random() < 0.25:
                ch = []
                left = len(out)
                while left > 0:
                    c = min(left, rng.randint(1, 9))
                    ch.append(c)
                    left -= c
                chunkings.append(ch)
            if len(plan) == 1 and plan[0][0] < len(toks) and (plan[0][0] < 24 or plan[0][0] % 4 == 0):
                # fixed family: the chunk that carries the keepalive token ends INSIDE the token that follows it (one byte
                # into it / one byte short of its end), and the keepalive token itself is cut in two
                bi = plan[0][0]
                start = sum(toks[j][1] - toks[j][0] for j in range(bi))
                plen = len(impl.ping_bytes(plan[0][2], impl.PING))
                nxt = toks[bi][1] - toks[bi][0]
                for cut in sorted({start + plen + 1, start + plen + max(1, nxt - 1), start + max(1, plen - 1)}):
                    if 0 < cut < len(out):
                        chunkings.append([cut, len(out) - cut])
            for ch in chunkings:
                r = impl.decode(out, ch)
                ctx.case(["pp", mi, [(b, kd, str(n)) for (b, kd, n) in plan], "whole" if ch is None else ("bytewise" if len(ch) == len(out) else ch)],
                         nontrivial=True)
                ctx.hist("origin", "pingpong")
                why = None
                if r["status"] != "ok":
                    why = ("oracle/ping-disturbs-message", "decoding ended as %s (%s)" % (r["status"], r["exc"]))
                elif impl.canon(r["obj"]) != want:
                    why = ("oracle/ping-disturbs-message", "decoded object differs from the message sent")
                elif r["written"] != want_written:
                    got = [(t[2], t[3]) for t in safe_tokenize(impl, r["written"])]
                    why = ("oracle/pong-mismatch", "PINGs %r were answered with %r" % (want_pongs, got))
                if why:
                    ctx.fail(why[0], why[1] + "  [message %d, insertions (boundary, token, number) %r, chunking %s]"
                             % (mi, plan, "whole" if ch is None else ch[:20]),
                             replay=dict(message=mi, plan=[(b, kd, str(n)) for (b, kd, n) in plan], chunks=ch, data=out.hex()))
            tokcases.append((mi, [(b, (n, PINGB if kd == "PING" else PONGB)) for (b, kd, n) in plan], want_pongs))
        origs[mi] = [(t[2], t[3]) for t in toks]
    discarding(ctx, impl, nums)
    # single tokens: PING n alone -> exactly PONG n; PONG n alone -> nothing; numbers beyond 64 header digits are refused
    singles = []
    for n in nums + [2 ** 448, 2 ** 448 + 12345, 2 ** 455]:
        for kind, tokb in (("PING", impl.PING), ("PONG", impl.PONG)):
            data = impl.ping_bytes(n, tokb)
            sent = impl.real_send("send" + kind, n)
            r = impl.decode(data)
            ctx.case(["single", kind, str(n)], nontrivial=True)
            refused = r["status"] == "error" and "token prefix is limited" in (r["exc"] or "")
            singles.append((n, kind, sent, refused, r["written"]))
            if sent != data:
                ctx.fail("oracle/ping-encoding", "send%s(%d) wrote %r" % (kind, n, sent), replay=dict(n=str(n), kind=kind))
            if n < 2 ** 448:
                exp = impl.ping_bytes(n, impl.PONG) if kind == "PING" else b""
                if r["status"] == "error" or r["written"] != exp:
                    ctx.fail("oracle/pong-mismatch", "%s %d alone: status %s, reply %r, expected %r" % (kind, n, r["status"], r["written"], exp),
                             replay=dict(n=str(n), kind=kind))
    if model_ok:
        pp_correspond(ctx, impl, origs, tokcases, singles)


def discarding(ctx, impl, nums):
    """PING/PONG while the receiver is discarding the rest of a rejected / aborted sequence: every token gap of
    messages that hit a Violation (wrong type, too long, bad opentype, over-long string) or a sender ABORT at several
    depths, followed by a good message.  Each PING(n) must be answered by exactly PONG(n), in order; PONGs by nothing;
    objects / violations reported must be those of the stream without pings."""
    rng = ctx.rng
    for si, (name, constraint, tokens) in enumerate(impl.violating_streams()):
        data = b"".join(tokens)
        ref = impl.decode_events(constraint, data)
        refb = impl.decode_events(constraint, data, [1] * len(data))
        kinds = [e[0] for e in ref["events"]]
        if ref["exc"] or ref["written"] or ref["lost"] or "object" not in kinds or ref["events"] != refb["events"] \
                or not ("violation" in kinds or "ABORT" in name):
            # the stream itself is not handled as intended (C07's business): do not blame the pings
            ctx.note("C15 discard stream %r unusable as a reference: %r / bytewise %r" % (name, ref, refb["events"]))
            continue
        ctx.hist("discard-stream", name)
        plans = []
        k = si
        for gap in range(len(tokens) + 1):
            for kind in ("PING", "PONG"):
                if kind == "PING" or ctx.tier == "thorough" or gap % 3 == 0:
                    plans.append([(gap, kind, nums[k % len(nums)])])
                k += 1
        for _ in range(ctx.n(10, 150)):
            plans.append(sorted(((rng.randrange(len(tokens) + 1), rng.choice(["PING", "PING", "PONG"]), rng.choice(nums))
                                 for _ in range(rng.randint(2, 8))), key=lambda x: x[0]))
        for plan in plans:
            out = bytearray()
            pi = 0
            for gap in range(len(tokens) + 1):
                while pi < len(plan) and plan[pi][0] == gap:
                    _, kind, n = plan[pi]
                    out += impl.ping_bytes(n, impl.PING if kind == "PING" else impl.PONG)
                    pi += 1
                if gap < len(tokens):
                    out += tokens[gap]
            out = bytes(out)
            want_pongs = [n for (_, kd, n) in plan if kd == "PING"]
            want_written = b"".join(impl.ping_bytes(n, impl.PONG) for n in want_pongs)
            chunkings = [None, [1] * len(out)]
            if len(plan) > 1 or rng.random() < 0.3:
                ch = []
                left = len(out)
                while left > 0:
                    c = min(left, rng.randint(1, 7))
                    ch.append(c)
                    left -= c
                chunkings.append(ch)
            for ch in chunkings:
                r = impl.decode_events(constraint, out, ch)
                ctx.case(["pp-discard", si, [(g, kd, str(n)) for (g, kd, n) in plan],
                          "whole" if ch is None else ("bytewise" if len(ch) == len(out) else ch)], nontrivial=True)
                ctx.hist("origin", "pingpong-discard")
                why = None
                if r["exc"] or r["lost"]:
                    why = ("oracle/ping-disturbs-message", "receiver raised / dropped the connection: %r lost=%r" % (r["exc"], r["lost"]))
                elif r["events"] != ref["events"]:
                    why = ("oracle/ping-disturbs-message", "outcome %r instead of %r" % (r["events"], ref["events"]))
                elif r["written"] != want_written:
                    got = [(t[2], t[3]) for t in safe_tokenize(impl, r["written"])]
                    why = ("oracle/pong-mismatch", "PINGs %r were answered with %r (header, type byte)" % (want_pongs, got))
                if why:
                    ctx.fail(why[0], why[1] + "  [stream %r (receiver discards part of it), insertions (token gap, token, number) %r, "
                             "chunking %s, bytes %s]" % (name, plan, "whole" if ch is None else ch[:20], out.hex()),
                             replay=dict(stream=name, plan=[(g, kd, str(n)) for (g, kd, n) in plan], chunks=ch, data=out.hex(),
                                         tokens=[t.hex() for t in tokens]))


def safe_tokenize(impl, data):
    try:
        return impl.tokenize(data)
    except Exception:
        return [(0, 0, -1, -1)]


PPBODY = """
Local Open Scope Z_scope.
Definition teq (a b : Z * Z) : bool := (fst a =? fst b) && (snd a =? snd b).
Fixpoint leq (a b : list (Z * Z)) : bool :=
  match a, b with [] , [] => true | x :: a', y :: b' => teq x y && leq a' b' | _, _ => false end.
(* insert the planned PING/PONG tokens at their token boundaries *)
Fixpoint weave (i : nat) (orig : list (Z * Z)) (plan : list (Z * (Z * Z))) {struct orig} : list (Z * Z) :=
  let here := map snd (filter (fun p => fst p =? Z.of_nat i) plan) in
  match orig with [] => here | t :: r => here ++ t :: weave (S i) r plan end.
Definition origs : list (list (Z * Z)) := %s.
Definition chk (x : nat * list (Z * (Z * Z))) := let '(mi, plan) := x in
  let orig := nth mi origs [] in
  let '(d, p) := rx_tokens (weave 0 orig plan) in (leq d orig, p).
Definition hcode (h : hres) : list Z := match h with HNeed => [0] | HBad => [1] | HTok a b r => [2; a; b; Z.of_nat (List.length r)] end.
Definition rcode (r : res (list Z)) : list Z := match r with Ok l => l | Exc _ => [-1] end.
Definition tokcases : list (nat * list (Z * (Z * Z))) := %s.
Eval vm_compute in map chk tokcases.
Definition singles : list (Z * Z * list Z) := %s.
Eval vm_compute in map (fun '(n, ty, bytes) =>
   (rcode (if ty =? tok_PING then sendPING n [] else sendPONG n []), hcode (scan_token bytes),
    match scan_token bytes with HTok h t _ => rcode (reply_bytes h t) | _ => [-2] end)) singles.
"""


def par_eval(ctx, jobs):
    """jobs: list of (name, body) -> list of parsed results (or the CoqEvalError), coqc runs in parallel"""
    from concurrent.futures import ThreadPoolExecutor

    def one(j):
        try:
            return ctx.coq_eval(j[0], j[1], requires=REQ)
        except common.CoqEvalError as e:
            return e
    with ThreadPoolExecutor(max_workers=6) as ex:
        return list(ex.map(one, jobs))


def pp_correspond(ctx, impl, origs, tokcases, singles):
    ct = lambda t: "(%s, %s)" % (coq_Z(t[0]), coq_Z(t[1]))
    cp = lambda p: "(%s, %s)" % (coq_Z(p[0]), ct(p[1]))
    nbad = 0
    total = 0
    STEP = 400
    ol = coq_list([coq_list(origs.get(i, []), ct) for i in range(max(origs) + 1 if origs else 0)])
    jobs = []
    for k in range(0, max(len(tokcases), 1), STEP):
        part = tokcases[k:k + STEP]
        lines = ["(%d%%nat, %s)" % (mi, coq_list(plan, cp)) for (mi, plan, _) in part]
        sl = []
        if k == 0:
            sl = ["(%s, %s, %s)" % (coq_Z(n), coq_Z(impl.PING[0] if kind == "PING" else impl.PONG[0]),
                                    coq_list(list(sent), coq_Z)) for (n, kind, sent, refused, written) in singles]
        jobs.append(("C15_pp_%d" % (k // STEP), PPBODY % (ol, coq_list(lines), coq_list(sl))))
    results = par_eval(ctx, jobs)
    for ji, res in enumerate(results):
        k = ji * STEP
        part = tokcases[k:k + STEP]
        if isinstance(res, Exception):
            ctx.fail("correspondence-broken", "the PING/PONG model could not be evaluated: " + str(res)[-1500:], has_input=False)
            return
        v1, v2 = res
        for (mi, plan, pongs), (same, mp) in zip(part, v1):
            total += 1
            ctx.traces += 1
            if same is not True or list(mp) != list(pongs):
                nbad += 1
                ctx.fail("correspondence/pingpong", "token-level model on message %d, insertions %r: delivered==original %r, PONG "
                         "numbers %r; the implementation decoded the original message and answered %r" % (mi, plan, same, mp, pongs),
                         replay=dict(message=mi, plan=[(b, str(t[0]), t[1]) for b, t in plan]), has_input=False)
        if k == 0:
            for (n, kind, sent, refused, written), (msent, mscan, mreply) in zip(singles, v2):
                total += 1
                ctx.traces += 1
                diffs = []
                if list(msent) != list(sent):
                    diffs.append("send%s(%d): model bytes %r, implementation %r" % (kind, n, msent, list(sent)))
                if refused != (mscan == [1]):
                    diffs.append("header scan of %s %d: model %r, implementation refused=%r" % (kind, n, mscan, refused))
                if not refused and mscan[:1] == [2]:
                    if mscan[1] != n or list(mreply) != list(written):
                        diffs.append("%s %d: model header %r reply %r, implementation reply %r" % (kind, n, mscan[1], mreply, list(written)))
                if diffs:
                    nbad += 1
                    ctx.fail("correspondence/pingpong", "; ".join(diffs), replay=dict(n=str(n), kind=kind), has_input=False)
    ctx.extra["pingpong_correspondence_cases"] = total
    ctx.extra["pingpong_correspondence_disagreements"] = nbad


# ------------------------------------------------------------------------------------------ Broker model = timers + request table

CALLBODY = """
Local Open Scope Z_scope.
Definition cases : list (option Z * option Z * list bev) := %s.
Eval vm_compute in map (fun '(K, T, evs) => bobs (broker_run {| cK := K; cT := T |} 0 evs)) cases.
"""


def coq_bev(e, nturns):
    turns = ["BReq Turn"] * nturns
    if e == "call":
        return ["BReq (Call KTwoWay)"] + turns
    k, t = e
    if k == "answer":
        return ["BReq (Answer %s)" % coq_Z(t)] + turns
    if k == "close":
        return ["BLost %s (RListed ConnectionDoneC)" % coq_Z(t)] + turns
    return ["%s %s" % ({"rx": "BRx", "rxbad": "BRxBad", "tick": "BTick"}[k], coq_Z(t))] + turns


def calls_correspond(ctx):
    """the combined Broker model (lib/TimersCalls.v) on the pending-call schedules the real Broker just ran: per call the
    outcomes fired (1 result, 4 DeadReferenceError), the request table, loseConnection and teardown times, disconnected"""
    cases = ctx.extra.pop("_callcases", [])
    if not cases:
        return
    jobs = []
    STEP = 120
    for k in range(0, len(cases), STEP):
        lines = []
        for (K, T, mev, fires, table, lose, torn, disc, what) in cases[k:k + STEP]:
            nt = len(fires) + 1
            evs = []
            for e in mev:
                evs += coq_bev(e, nt)
            lines.append("(%s, %s, %s)" % (coq_opt(K, coq_Z), coq_opt(T, coq_Z), coq_list(evs)))
        jobs.append(("C15_calls_%d" % (k // STEP), CALLBODY % coq_list(lines)))
    req = REQ + ["Verif.gen.RequestsGen", "Verif.lib.Requests", "Verif.lib.TimersCalls"]
    nbad = 0
    total = 0
    for ji, (name, body) in enumerate(jobs):
        try:
            (vals,) = ctx.coq_eval(name, body, requires=req)
        except common.CoqEvalError as e:
            ctx.fail("correspondence-broken", "the Broker model (timers + requests) could not be evaluated: " + str(e)[-1500:], has_input=False)
            return
        for (K, T, mev, fires, table, lose, torn, disc, what), m in zip(cases[ji * STEP:(ji + 1) * STEP], vals):
            total += 1
            ctx.traces += 1
            mf, mtab, mlose, mtorn, mdisc = m
            got = ([list(x) for x in mf], sorted(mtab), list(mlose), list(mtorn), mdisc)
            want = ([list(x) for x in fires], sorted(table), list(lose), list(torn), disc)
            if got != want:
                nbad += 1
                ctx.fail("correspondence/broker-calls", "Broker model (fires per call, request table, loseConnection times, teardown "
                         "times, disconnected) %r, implementation %r  [%s]" % (got, want, what),
                         replay=dict(case=what, model=repr(got), implementation=repr(want)), has_input=False)
    ctx.extra["broker_calls_correspondence_cases"] = total
    ctx.extra["broker_calls_correspondence_disagreements"] = nbad


# ------------------------------------------------------------------------------------------ byte level: woven streams

WIREBODY = """
Local Open Scope Z_scope.
Definition rc (r : res (list Z)) : list Z := match r with Ok l => l | Exc _ => [-1] end.
Definition voc : list (Z * list Z) := %s.
Definition cases : list (Z * list item * list (list (list Z))) := %s.
Eval vm_compute in map (fun '(mode, items, css) =>
   (rc (wire items), run_expect mode voc items, map (run_chunks mode voc) css, run_chunks mode voc [plain items])) cases.
"""


def wire_correspond(ctx, impl):
    """C15_ping_pong_bytes on the real code: token streams for the policy receiver (violations at every depth, long
    strings, LONGINTs, FLOATs) with PING n / PONG n woven in at token boundaries; the real Banana under whole / bytewise /
    random chunkings, the C07 model bfeed_all on the same chunks, and the specification `expect` must agree on every
    event, on the final receiver state, on the bytes written, and on the decoding of the stream without the pings"""
    rng = ctx.rng
    nums = [0, 1, 127, 128, 300, 2 ** 64 + 5, 2 ** 448 - 1]
    cases = []
    fixed = __import__("random").Random(1507)
    # regression witnesses: a PING spliced INTO a STRING token turns its body byte into a VOCAB token (needs the vocabulary)
    witnesses = [("any", [("Bytes", b"\x01"), ("Ping", 9), ("Bytes", b"\x82\x87")]),
                 ("any", [("Bytes", b"\x01"), ("Ping", 0), ("Bytes", b"\x82\x87"), ("Ping", 5), ("Bytes", b"\x00\x87")])]
    for trial in range(-len(witnesses), ctx.n(24, 400)):
        r_ = fixed if trial < 12 else rng          # a fixed family first: detection does not depend on the random stream
        if trial < 0:
            mode, items = witnesses[trial + len(witnesses)]
            items = list(items)
        else:
            mode, toks = impl.policy_stream(r_)
            items = []
            for t in toks:
                while r_.random() < 0.3:
                    items.append((r_.choice(["Ping", "Ping", "Pong"]), r_.choice(nums)))
                items.append(("Bytes", t))
            while r_.random() < 0.4:
                items.append((r_.choice(["Ping", "Pong"]), r_.choice(nums)))
        if trial >= 0 and trial % 7 == 3 and items:                 # a keepalive token that is NOT between two tokens: `placed` must say so
            j = r_.randrange(len(items))
            if items[j][0] == "Bytes" and len(items[j][1]) > 1:
                b = items[j][1]
                cut = r_.randrange(1, len(b))
                items[j:j + 1] = [("Bytes", b[:cut]), ("Ping", 9), ("Bytes", b[cut:])]
        stream = b"".join(x[1] if x[0] == "Bytes" else impl.ping_bytes(x[1], impl.PING if x[0] == "Ping" else impl.PONG) for x in items)
        plain = b"".join(x[1] for x in items if x[0] == "Bytes")
        chunkings = [[len(stream)]] + ([[1] * len(stream)] if len(stream) <= 160 else [])
        ch, left = [], len(stream)
        while left > 0:
            c = min(left, r_.randint(1, 11))
            ch.append(c)
            left -= c
        chunkings.append(ch)
        real = [impl.run_policy(stream, c, mode) for c in chunkings]
        real_plain = impl.run_policy(plain, [len(plain)], mode)
        cases.append((mode, items, stream, plain, chunkings, real, real_plain))
        ctx.case(["wire", mode, [(k, v.hex() if k == "Bytes" else str(v)) for k, v in items]], nontrivial=any(k != "Bytes" for k, _ in items))
        ctx.hist("origin", "wire")
    from harness.c07 import modecode
    from harness.c07_impl import VOCAB_TABLE
    # the receiver's incoming vocabulary (a body byte of a mis-spliced token can be read as a VOCAB token)
    voc = coq_list(["(%d, %s)" % (k, coq_list(list(v), coq_Z)) for k, v in sorted(VOCAB_TABLE.items())])

    def coq_item(x):
        if x[0] == "Bytes":
            return "Bytes %s" % coq_list(list(x[1]), coq_Z)
        return "%s %s" % (x[0], coq_Z(x[1]))
    jobs = []
    STEP = 20
    for k in range(0, len(cases), STEP):
        lines = []
        for (mode, items, stream, plain, chunkings, real, real_plain) in cases[k:k + STEP]:
            css = []
            for ch in chunkings:
                pos, parts = 0, []
                for n in ch:
                    parts.append(coq_list(list(stream[pos:pos + n]), coq_Z))
                    pos += n
                css.append(coq_list(parts))
            lines.append("(%d, %s, %s)" % (modecode(mode), coq_list(items, coq_item), coq_list(css)))
        jobs.append(("C15_wire_%d" % (k // STEP), WIREBODY % (voc, coq_list(lines))))
    req = ["Verif.lib.PyLite", "Verif.gen.BananaGen", "Verif.gen.TimersGen", "Verif.lib.Token", "Verif.lib.Recv",
           "Verif.lib.BananaRecv", "Verif.lib.TimersWire"]
    from concurrent.futures import ThreadPoolExecutor

    def one(j):
        try:
            return ctx.coq_eval(j[0], j[1], requires=req)
        except common.CoqEvalError as e:
            return e
    with ThreadPoolExecutor(max_workers=6) as ex:
        results = list(ex.map(one, jobs))
    nbad = total = placed_n = abstained = 0
    for ji, res in enumerate(results):
        if isinstance(res, Exception):
            ctx.fail("correspondence-broken", "the byte-level PING/PONG model could not be evaluated: " + str(res)[-1500:], has_input=False)
            return
        (vals,) = res
        for (mode, items, stream, plain, chunkings, real, real_plain), m in zip(cases[ji * STEP:(ji + 1) * STEP], vals):
            total += 1
            ctx.traces += 1
            mwire, mexp, mruns, mplain = m
            placed, exp_ev, exp_snap, exp_undisturbed = mexp
            if any([99] in [list(e) for e in mev] for (mev, _) in list(mruns) + [mplain]):
                # the C07 model abstains (EUnmodelled: a non-ASCII index token, only reachable through a mis-spliced token)
                abstained += 1
                ctx.hist("wire-placed", "model-abstains")
                continue
            diffs = []
            if list(mwire) != list(stream):
                diffs.append("bytes of the woven stream: translated sendPING/sendPONG give %r, the real int2b128 %r" % (list(mwire)[:80], list(stream)[:80]))
            pings = [v for k, v in items if k == "Ping"]
            for ch, (rev, rsnap, esc, written), (mev, msnap) in zip(chunkings, real, mruns):
                tag = "whole" if len(ch) == 1 else ("bytewise" if len(ch) == len(stream) else "chunks %r" % ch[:12])
                if esc:
                    diffs.append("%s: dataReceived raised %s" % (tag, esc))
                if [list(e) for e in mev] != rev:
                    diffs.append("%s: events: model %r, implementation %r" % (tag, mev, rev))
                dead = rsnap[5]
                if (list(msnap)[:2] + list(msnap)[5:] != rsnap[:2] + rsnap[5:] and not dead) or (not dead and list(msnap)[2:5] != rsnap[2:5]) \
                        or bool(list(msnap)[5]) != bool(dead):
                    diffs.append("%s: final receiver state (buffer, skip, discard, depth, inOpen, dead): model %r, implementation %r" % (tag, msnap, rsnap))
                if placed is True:
                    if [list(e) for e in exp_ev] != rev:
                        diffs.append("%s: the specification `expect` gives events %r, implementation %r" % (tag, exp_ev, rev))
                    want_written = b"".join(impl.ping_bytes(e[1], impl.PONG) for e in rev if e[0] == 18)
                    if not dead and written != want_written:
                        diffs.append("%s: bytes written %r, expected the PONGs %r" % (tag, written, want_written))
            if placed is True:
                placed_n += 1
                if [list(e) for e in exp_undisturbed] != real_plain[0]:
                    diffs.append("stream WITHOUT the keepalive tokens: implementation %r, specification %r" % (real_plain[0], exp_undisturbed))
                if [list(e) for e in mplain[0]] != real_plain[0]:
                    diffs.append("stream without the keepalive tokens: model %r, implementation %r" % (mplain[0], real_plain[0]))
                got_pongs = [e[1] for e in real[0][0] if e[0] == 18]
                plain_pongs = [e[1] for e in real_plain[0] if e[0] == 18]
                if len(got_pongs) != len(plain_pongs) + len(pings):
                    diffs.append("PINGs woven in %r, PONGs answered %r" % (pings, got_pongs))
            ctx.hist("wire-placed", str(placed))
            if diffs:
                nbad += 1
                ctx.fail("correspondence/wire-pingpong", "byte-level PING/PONG: %s  [root mode %s, items %r]"
                         % ("; ".join(diffs)[:3000], mode, [(k, v.hex() if k == "Bytes" else v) for k, v in items][:60]),
                         replay=dict(mode=mode, items=[(k, v.hex() if k == "Bytes" else str(v)) for k, v in items], stream=stream.hex()),
                         has_input=False)
    ctx.extra["wire_correspondence_cases"] = total
    ctx.extra["wire_correspondence_placed"] = placed_n
    ctx.extra["wire_correspondence_model_abstained"] = abstained
    ctx.extra["wire_correspondence_disagreements"] = nbad


# ------------------------------------------------------------------------------------------ binary64 model vs the machine's floats

def binary64_correspond(ctx):
    """lib/TimersFloat.v's fadd / fsub (exact Z model of IEEE binary64 + and -, unit 2^-120 s) against the interpreter's
    float arithmetic on time-like operands: epoch time stamps, timeouts, EPSILON, ages, nested now + (T + EPSILON)"""
    import random
    from fractions import Fraction
    import foolscap.banana as ban
    U = 120
    eps = float(getattr(ban, "EPSILON", 0.1)) if isinstance(getattr(ban, "EPSILON", 0.1), float) else 0.1

    def units(x):
        fr = Fraction(x) * 2 ** U
        return int(fr) if fr.denominator == 1 else None
    cases = []
    for rr in (random.Random(64), ctx.rng):
        for _ in range(ctx.n(12, 200)):
            now = 1.7e9 + rr.random() * 3e8
            last = now - rr.choice([0.0, rr.random() * 1e-3, rr.random() * 10, rr.uniform(1, 1e5)])
            T = rr.choice([0.5, 2.0, 3.0, 240.0, rr.uniform(1e-3, 1e4), float(rr.randint(1, 5000))])
            for (op, a, b) in (("add", T, eps), ("add", now, T + eps), ("sub", now, last), ("add", rr.random(), rr.random()),
                               ("sub", T + eps, T), ("add", now, last)):
                r = a + b if op == "add" else a - b
                ua, ub, ur = units(a), units(b), units(r)
                if None in (ua, ub, ur) or abs(r) >= 2.0 ** 31:
                    continue
                cases.append((op, ua, ub, ur, a, b))
    body = ("Local Open Scope Z_scope.\nDefinition cases : list (bool * Z * Z) := %s.\n"
            "Eval vm_compute in map (fun '(isadd, a, b) => if isadd : bool then fadd 120 a b else fsub 120 a b) cases.\n"
            % coq_list(["(%s, %s, %s)" % ("true" if op == "add" else "false", coq_Z(a), coq_Z(b)) for (op, a, b, r, fa, fb) in cases]))
    try:
        (vals,) = ctx.coq_eval("C15_binary64", body, requires=["Verif.lib.Timers", "Verif.lib.TimersRound", "Verif.lib.TimersFloat"])
    except common.CoqEvalError as e:
        ctx.fail("correspondence-broken", "the binary64 model could not be evaluated: " + str(e)[-1500:], has_input=False)
        return
    nbad = 0
    for (op, a, b, r, fa, fb), m in zip(cases, vals):
        ctx.traces += 1
        if m != r:
            nbad += 1
            ctx.fail("correspondence/binary64", "%r %s %r: the interpreter's float result is %d units of 2^-120 s, the model's %d"
                     % (fa, "+" if op == "add" else "-", fb, r, m), replay=dict(op=op, a=repr(fa), b=repr(fb)), has_input=False)
    ctx.extra["binary64_correspondence_cases"] = len(cases)
    ctx.extra["binary64_correspondence_disagreements"] = nbad
