"""C14: drives two real Tubs (M = the one with the higher tubID = negotiation master, S = the other)
over the in-memory network, with message-granular or byte-granular delivery, asynchronous cuts
(each end sees the loss separately), restarts (a new Tub object with the same certificate = new
incarnation), several `fake:` hints in parallel and connector timeouts.  Nothing here edits foolscap."""
import re
from twisted.python import failure
from twisted.internet.error import ConnectionDone, ConnectionLost
from harness import implenv as E
from harness.implenv import Net, make_tub, quiet, pems_sorted, Referenceable
from foolscap.referenceable import SturdyRef
import foolscap.negotiate as neg
import foolscap.connection as fconn
from zope.interface import implementer
from foolscap.ipb import IConnectionHintHandler

NAMES = ("M", "S")

# location hints that make TubConnector.connect() fail SYNCHRONOUSLY (before getBrokerForTubRef has returned), by kind:
#   none        the FURL has no hints at all (legal: furl.decode_furl)
#   unknown     hints of a type nobody registered a handler for (tor: / i2p: on a plain Tub)
#   nocolon     a hint without a colon (InvalidHintError "no colon")
#   legacy      an old-style host:port hint = tcp:, whose handler was removed (removeAllConnectionHintHandlers)
#   ghost       a registered handler whose hint_to_endpoint raises (here: the fake: handler asked for an unknown host)
#   refused     a registered handler whose endpoint refuses at once (the hint IS valid: the failure is the refusal, not
#               NoLocationHintsError)
#   mixed       several of these together
SYNC_BAD_HINTS = {
    "none": [],
    "unknown": ["tor:abcdefghij234567.onion:80", "i2p:xyz.b32.i2p"],
    "nocolon": ["nowhere"],
    "legacy": ["127.0.0.1:9"],
    "ghost": ["fake:ghost:1"],
    "refused": ["dead:end:1", "dead:end:2"],
    "mixed": ["tor:abcdefghij234567.onion:80", "fake:ghost:1", "dead:end:1", "nowhere"],
}


class _RefusingEndpoint:
    def connect(self, factory):
        from twisted.internet import defer
        from twisted.internet.error import ConnectionRefusedError
        return defer.fail(failure.Failure(ConnectionRefusedError()))


@implementer(IConnectionHintHandler)
class RefusingHandler:
    """connection-hint handler for `dead:` hints: a valid endpoint that refuses the connection at once"""

    def hint_to_endpoint(self, hint, reactor, update_status):
        return _RefusingEndpoint(), "dead"


def add_dead_handler(t):
    t.addConnectionHintHandler("dead", RefusingHandler())


@implementer(IConnectionHintHandler)
class SlowHandler:
    """connection-hint handler for `slow:<tub>:<i>` hints: hint_to_endpoint returns a DEFERRED (legal per
    IConnectionHintHandler: a tor / i2p / socks plugin whose helper has to come up first).  What becomes of hint i is
    World.slow_plan[i]:  ("never",)  the Deferred never fires;  ("good", dt)  it fires dt seconds later with a working
    endpoint of the target Tub;  ("bad", dt)  it fails dt seconds later with InvalidHintError;  ("refused", dt)  it
    fires dt seconds later with an endpoint that refuses at once"""

    def __init__(self, world):
        self.world = world
        self.asked = []

    def hint_to_endpoint(self, hint, reactor, update_status):
        from twisted.internet import defer
        from foolscap.ipb import InvalidHintError
        _, name, idx = hint.split(":")
        plan = self.world.slow_plan[int(idx)]
        self.asked.append(hint)
        update_status("launching helper")
        d = defer.Deferred()
        net = self.world.net

        def fire():
            if d.called:
                return                                   # the connector gave up meanwhile (cancelled)
            if plan[0] == "good":
                d.callback((E.FakeEndpoint(net, net.tubs[name]), name))
            elif plan[0] == "refused":
                d.callback((_RefusingEndpoint(), name))
            else:
                d.errback(failure.Failure(InvalidHintError("helper did not come up")))
        if plan[0] != "never":
            reactor.callLater(plan[1], fire)
        return d


class Target(Referenceable):
    def remote_hi(self):
        return 42


def other(x):
    return "S" if x == "M" else "M"


def make_tub_unstarted(net, name, pemdata):
    """implenv.make_tub without the final startService() (same statements, same order)"""
    import foolscap.pb as pb
    from foolscap.api import Tub
    t = Tub(certData=pemdata)
    t.removeAllConnectionHintHandlers()
    t.addConnectionHintHandler("fake", E.FakeHandler(net))
    l = pb.Listener.__new__(pb.Listener)
    l._tub = t
    l._test_options = {}
    l._redirects = {}
    l._negotiationClass = t.negotiationClass
    l._lp = None
    l._ep = "fake"
    t.listeners.append(l)
    t.setLocation("fake:%s:1" % name)
    net.tubs[name] = t
    return t


class World:
    def __init__(self, handle_old=None, unstarted=(), third=False, old_peer=()):
        """unstarted: names of Tubs that are created but whose startService() is delayed (World.start);
        third: a third Tub "T" (a plain lookup target, outside the M/S pair the agreement oracle looks at)"""
        E.reset_clock()
        # an exception raised inside a timer callback / eventual-send is logged by a real reactor and the loop goes on
        # (task.Clock.advance would propagate it to the harness): emulate the reactor, keep a tally, let the oracle decide
        self.reactor_errors = []
        _clk, _adv = E.clock, E.clock.advance

        def _advance(amount, _adv=_adv):
            try:
                _adv(amount)
            except Exception as e:                       # noqa
                self.reactor_errors.append("%s: %s" % (type(e).__name__, e))
        _clk.advance = _advance
        self.net = Net()
        (lo_id, lo_pem), (hi_id, hi_pem) = pems_sorted(2)
        self.pem = {"M": hi_pem, "S": lo_pem}
        self.tubid = {"M": hi_id, "S": lo_id}
        self.tub = {}
        self.epoch = {"M": 0, "S": 0}          # number of restarts
        self.irs = {"M": [], "S": []}          # incarnation strings, index = epoch
        self.handle_old = handle_old
        self.old_peer = tuple(old_peer)        # Tubs that behave like a pre-0.2.0 peer: their hello carries no my-incarnation
        self.slow_plan = []                    # what becomes of the `slow:` hints (SlowHandler)
        self.results = []                      # one entry per lookup: dict(who, kind, fired=[...])
        self.retry = {"M": None, "S": None}     # armed: the next errback of x re-enters getBrokerForTubRef with k hints
        self.reentered = 0
        self.fire_seq = 0
        self.dying = None
        self.graveyard = []
        self.started_at = {}
        if third:
            self.pem["T"] = E.pem(2)
            self.epoch["T"] = 0
            self.irs["T"] = []
            self.retry["T"] = None
        for x in NAMES + (("T",) if third else ()):
            self._start(x, start=x not in unstarted)

    # ------------------------------------------------------------ tubs
    def _start(self, x, start=True):
        if start:
            t = make_tub(self.net, x, self.pem[x])
        else:
            t = make_tub_unstarted(self.net, x, self.pem[x])
        add_dead_handler(t)
        t.addConnectionHintHandler("slow", SlowHandler(self))
        if x in self.old_peer:
            # how foolscap's own tests make an ancient peer (test_negotiate: incarnation_string = ""): the hello then
            # fails `offer.get("my-incarnation")` at the deciding end, which falls back to handle_old / rejection
            t.incarnation_string = ""
        self.tubid.setdefault(x, t.tubID)
        t.registerReference(Target(), name="obj")
        if self.handle_old is not None:
            t.setOption("handle-old-duplicate-connections", self.handle_old)
        self.tub[x] = t
        self.irs[x].append(t.getIncarnationString())
        assert t.tubID == self.tubid[x]
        return t

    def start(self, x):
        """Tub.startService() of a Tub created unstarted: the lookups queued so far are released; their
        CONNECTION_TIMEOUT runs from now"""
        t = self.tub[x]
        now = E.clock.seconds()
        for rec in self.results:
            if rec["who"] == x and rec.get("queued") and rec["epoch"] == self.epoch[x] and not rec["fired"]:
                rec["t0"] = now
        t.startService()
        E.turn()
        self.name_links()

    def furl(self, x, nhints):
        """nhints: how many good hints -- or an explicit list of hint strings (SYNC_BAD_HINTS: hints that fail at once)"""
        if isinstance(nhints, (list, tuple)):
            hints = ",".join(nhints)
        else:
            hints = ",".join("fake:%s:%d" % (x, i + 1) for i in range(nhints))
        return "pb://%s@%s/obj" % (self.tubid[x], hints)

    def links_of(self, x):
        out = []
        for l in self.net.links:
            if l.client_tub is self.tub[x] or l.server_tub is self.tub[x]:
                out.append(l)
        return out

    def end_of(self, link, x):
        """the End of `link` that belongs to the *current or past* tub named x (M/S roles are fixed per link)"""
        return link.ends[0] if link.client_name == x else link.ends[1]

    # ------------------------------------------------------------ operations
    def name_links(self):
        """every link gets client_name = M/S of the Tub (current or past incarnation) that dialled it"""
        for l in self.net.links:
            if not hasattr(l, "client_name"):
                for x in list(self.tub):
                    if l.client_tub is self.tub[x] or any(l.client_tub is g and n == x for n, g in self.graveyard):
                        l.client_name = x
                if not hasattr(l, "client_name"):
                    raise RuntimeError("link dialled by an unknown Tub")

    def lookup(self, x, nhints=1, full=True, reenter=None, target=None):
        """tub x looks up the other tub's object (getReference) -- or, full=False, only asks for the Broker
        (Tub.getBrokerForTubRef: exactly the waiter mechanism, without the follow-up remote call).
        reenter = dict(left=n, on="err"|"ok"|"both", hints=k): the application's callback/errback of this lookup
        SYNCHRONOUSLY issues another lookup for the same Tub (an instant retry / a second FURL of that Tub), n deep."""
        n0 = len(self.net.links)
        self._issue(x, nhints, full, reenter, target=target)
        E.turn()
        self.name_links()
        return self.net.links[n0:]

    def _issue(self, x, nhints, full, reenter, depth=0, target=None):
        t = self.tub[x]
        rec = dict(who=x, fired=[], epoch=self.epoch[x], t0=E.clock.seconds(), at=[], depth=depth, queued=not t.running,
                   target=target or other(x), order=[],
                   id=sum(1 for r in self.results if r["who"] == x and r["epoch"] == self.epoch[x]))
        self.results.append(rec)
        furl = self.furl(target or other(x), nhints)
        if full:
            d = t.getReference(furl)
        else:
            d = t.getBrokerForTubRef(SturdyRef(furl).getTubRef())
            rec["d"] = d                   # the very Deferred kept in Tub.waitingForBrokers

        def fired(res, rec=rec):
            bad = isinstance(res, failure.Failure)
            rec["fired"].append(res.type.__name__ if bad else "ok")
            rec["at"].append(E.clock.seconds())
            self.fire_seq += 1
            rec["order"].append(self.fire_seq)
            if self.tub[x] is t and t.running and self.dying != x:
                # re-entrant lookups, issued from inside the callback / errback
                if reenter and reenter["left"] > 0 and (reenter["on"] == "both" or (reenter["on"] == "err") == bad):
                    self.reentered += 1
                    self._issue(x, reenter.get("hints", nhints), full, dict(reenter, left=reenter["left"] - 1), depth + 1, target)
                elif bad and self.retry.get(x):
                    k = self.retry[x]
                    self.retry[x] = None
                    self.reentered += 1
                    self._issue(x, k, full, None, depth + 1)
            return None if bad else res
        d.addBoth(fired)
        return rec

    def handshake_plaintext(self, link):
        """deliver the GET and the 101 of a fresh link, so that both hellos are in flight (the model's Dial)"""
        self.deliver_block(link, 0)
        self.deliver_block(link, 1)

    def deliver_block(self, link, side):
        """deliver the first logical block (up to and including a blank line), or everything when there is no
        block terminator, or a FIN, travelling from end `side` to the other end"""
        q = link.q[side]
        if not q:
            return None
        dst = link.ends[1 - side]
        if q[0] is None:
            q.pop(0)
            kind = "fin"
            if not dst.lost:
                dst.lost = True
                dst.closed = True
                dst.protocol.connectionLost(failure.Failure(ConnectionDone()))
        else:
            buf = b""
            while q and q[0] is not None:
                buf += q.pop(0)
            i = buf.find(b"\r\n\r\n")
            if i >= 0 and i + 4 < len(buf):
                q.insert(0, buf[i + 4:])
                buf = buf[:i + 4]
            kind = classify(buf)
            if not dst.closed and not dst.lost:
                dst.protocol.dataReceived(buf)
        E.turn()
        return kind

    def deliver_bytes(self, link, side, n):
        self.net.step((link, side), n)

    def cut(self, link):
        """the network drops the link: queued data is lost, nothing more can be written; each end learns of it
        separately (close_seen)"""
        link.q = {0: [], 1: []}
        for e in link.ends:
            e.closed = True
            if not e.lost and e not in link.pending_local_close:
                link.pending_local_close.append(e)
            # a later loseConnection() on a cut end queues nothing; remember that the protocol asked for it
            e.loseConnection = e.abortConnection = (lambda *a, e=e: setattr(e, "disconnecting", True))
        link.was_cut = True

    def close_seen(self, link, endidx):
        e = link.ends[endidx]
        if e in link.pending_local_close:
            link.pending_local_close.remove(e)
        if e.protocol and not e.lost:
            e.lost = True
            why = ConnectionLost() if getattr(link, "was_cut", False) else ConnectionDone()
            e.protocol.connectionLost(failure.Failure(why))
        E.turn()

    def restart(self, x):
        """the process of tub x dies (all its links are cut, it sees nothing more) and a new Tub with the same
        certificate -- a new incarnation with empty tables -- takes its place"""
        old = self.tub[x]
        self.name_links()
        self.dying = x
        for l in self.links_of(x):
            mine = self.end_of(l, x)
            self.cut(l)
            if mine in l.pending_local_close:
                l.pending_local_close.remove(mine)
            if mine.protocol and not mine.lost:
                mine.lost = True
                mine.protocol.connectionLost(failure.Failure(ConnectionLost()))
        E.turn()
        for rec in self.results:
            if rec["who"] == x and rec["epoch"] == self.epoch[x]:
                rec["abandoned"] = True
        try:
            old.stopService()
        except Exception:
            pass
        E.turn()
        self.graveyard.append((x, old))
        self.dying = None
        self.retry[x] = None
        self.epoch[x] += 1
        return self._start(x)

    def connector(self, x):
        cs = list(self.tub[x].tubConnectors.values())
        assert len(cs) <= 1
        return cs[0] if cs else None

    def timeout(self, x):
        """fire tub x's connector timer (the real DelayedCall of TubConnector.connect)"""
        c = self.connector(x)
        if c is None or not c.timer:
            return False
        c.timer.reset(0)
        E.turn()
        return True

    # ------------------------------------------------------------ observation
    def pending_steps(self):
        """(link index, what) for everything the network could still do"""
        out = []
        self.name_links()
        for i, l in enumerate(self.net.links):
            for side in (0, 1):
                if l.q[side]:
                    out.append(("deliver", i, side))
            for e in l.pending_local_close:
                out.append(("closeseen", i, e.side))
        return out

    def quiescent(self):
        return not self.pending_steps()

    def run_to_quiescence(self, rng=None, chunk=None, maxsteps=20000):
        n = 0
        while True:
            ps = self.pending_steps()
            if not ps:
                return n
            st = rng.choice(ps) if rng else ps[0]
            self.do_net_step(st, rng, chunk)
            n += 1
            if n > maxsteps:
                raise RuntimeError("no quiescence")

    def do_net_step(self, st, rng=None, chunk=None):
        kind, i, side = st
        l = self.net.links[i]
        if kind == "closeseen":
            self.close_seen(l, side)
        elif chunk is None:
            self.deliver_block(l, side)
        else:
            nb = chunk(rng) if callable(chunk) else chunk
            self.deliver_bytes(l, side, nb)

    def live_broker_link(self, x, peer=None):
        peer = peer or other(x)
        bs = [b for ref, b in self.tub[x].brokers.items() if ref.getTubID() == self.tubid[peer]]
        if len(bs) > 1:
            return ("many", len(bs))
        if not bs:
            return None
        b = bs[0]
        return self.net.links.index(b.transport.link), b.transport.side, b.disconnected

    def ir_code(self, x, s):
        """incarnation string -> small integer (epoch+1 of tub x), 0 for 'none', -1 unknown"""
        if s is None:
            return None
        if s == "none":
            return 0
        if s in self.irs[x]:
            return self.irs[x].index(s) + 1
        return -1

    def end_state(self, link, endidx):
        e = link.ends[endidx]
        p = e.protocol
        banana = "connectionLost" in p.__dict__          # switchToBanana rebinds it on the instance
        if e.lost:
            return "Lost"
        if e.disconnecting:
            return "CloBrk" if banana else "CloNeg"
        if banana:
            return "Brk"
        if p.receive_phase == neg.DECIDING:
            return "Dec"
        if p.receive_phase == neg.ENCRYPTED:
            return "Neg"
        if p.receive_phase == neg.PLAINTEXT:
            return "Plain"
        return "Abandoned"

    def queue_codes(self, link, side):
        out = []
        buf = b""
        for it in link.q[side]:
            if it is None:
                if buf:
                    out += split_blocks(buf)
                    buf = b""
                out.append("fin")
            else:
                buf += it
        if buf:
            out += split_blocks(buf)
        return out

    def observe(self):
        """canonical snapshot compared with the model after every step"""
        self.name_links()
        tubs = {}
        for x in NAMES:
            t = self.tub[x]
            y = other(x)
            lb = self.live_broker_link(x)
            st = list(t.slave_table.values())
            mt = list(t.master_table.values())
            waiters = sum(len(v) for v in t.waitingForBrokers.values())
            byd = {id(r["d"]): r for r in self.results if r["who"] == x and r["epoch"] == self.epoch[x] and "d" in r}
            wl = []
            for v in t.waitingForBrokers.values():
                for d in v:
                    r = byd.get(id(d))
                    wl.append((r["id"], int(round(r["t0"]))) if r else (-99, -99))
            con = self.connector(x)
            bro = [b for ref, b in t.brokers.items() if ref.getTubID() == self.tubid[y]]
            tubs[x] = dict(waiting=wl, deadline=(int(round(con.timer.getTime())) if con is not None and con.timer else -1),
                           bcreated=(int(round(bro[0].creation_timestamp)) if len(bro) == 1 else -1),
                           broker=(lb[0] if lb else None),
                           master=(mt[0] if mt else 0),
                           slave=((self.ir_code(y, st[0][0]), int(st[0][1])) if st else None),
                           connector=self.connector(x) is not None,
                           waiters=waiters)
        links = []
        for l in self.net.links:
            cname = l.client_name
            ends = {cname: 0, other(cname): 1}
            links.append(dict(client=cname, M=self.end_state(l, ends["M"]), S=self.end_state(l, ends["S"]),
                              qMS=self.queue_codes(l, ends["M"]), qSM=self.queue_codes(l, ends["S"]),
                              cut=bool(getattr(l, "was_cut", False))))
        return dict(tubs=tubs, links=links)

    def stop(self):
        for t in list(self.tub.values()):
            try:
                t.stopService()
            except Exception:
                pass
        E.turn()


def split_blocks(buf):
    out = []
    while buf:
        i = buf.find(b"\r\n\r\n")
        if i < 0:
            out.append(classify(buf))
            break
        out.append(classify(buf[:i + 4]))
        buf = buf[i + 4:]
    return out


def classify(block):
    if block.startswith(b"GET "):
        return "get"
    if block.startswith(b"HTTP/1.1 101"):
        return "101"
    if b"error:" in block and b"banana-decision-version" in block:
        return "error"
    if b"my-tub-id" in block:
        return "hello"
    if b"banana-decision-version" in block:
        return "decision"
    return "data"


# ---------------------------------------------------------------------------------------------
# direct drive of the decision function on the real class (for the translated-function tie)

class _FakeExisting:
    def __init__(self, ir, seq, created):
        self.current_slave_IR = ir
        self.current_seqnum = seq
        self.creation_timestamp = created


class _FakeTub:
    def __init__(self, my_ir, handle_old):
        self._ir = my_ir
        self._handle_old_duplicate_connections = handle_old

    def getIncarnationString(self):
        return self._ir


def real_compare(o_inc, o_last, e_ir, e_seq, my_ir, handle_old, age):
    """run Negotiation.compareOfferAndExisting of the real class.  o_inc: str|None|'' ; o_last: None|(ir, seq)
    handle_old: False | threshold ; returns True/False or the exception class name"""
    n = neg.Negotiation.__new__(neg.Negotiation)
    n._logparent = None
    n.log = lambda *a, **k: None
    n.tub = _FakeTub(my_ir, handle_old)
    offer = {}
    if o_inc is not None:
        offer["my-incarnation"] = o_inc
    if o_last is not None:
        offer["last-connection"] = "%s %s" % o_last
    now = E.clock.seconds()
    ex = _FakeExisting(e_ir, e_seq, now - age)
    try:
        return bool(n.compareOfferAndExisting(offer, ex, None))
    except Exception as e:
        return type(e).__name__


# ---------------------------------------------------------------------------------------------
# random schedules at the granularity of the model (lib/Converge.v), with the real Tubs' state after each op

EST = {"Neg": 0, "Dec": 1, "Brk": 2, "CloNeg": 3, "CloBrk": 4, "Lost": 5}
MSG = {"hello": 1, "decision": 2, "error": 3, "fin": 4}


def obs_codes(w):
    o = w.observe()
    out = [[int(round(E.clock.seconds()))]]
    for x in NAMES:
        t = o["tubs"][x]
        row = [-1 if t["broker"] is None else t["broker"], t["master"],
               -1 if t["slave"] is None else t["slave"][0], -1 if t["slave"] is None else t["slave"][1],
               1 if t["connector"] else 0, t["deadline"] if t["connector"] else -1,
               t["bcreated"] if t["broker"] is not None else -1, 1 if w.retry.get(x) else 0]
        for (i, r) in t["waiting"]:
            row += [i, r]
        row.append(-7)
        # every answer: (lookup number, when it was made, when it was answered, callback/errback), in the order answered;
        # a Deferred that fires twice shows up twice
        ans = []
        for r in w.results:
            if r["who"] == x and r["epoch"] == w.epoch[x]:
                for k in range(len(r["fired"])):
                    ans.append((r["order"][k], r["id"], int(round(r["t0"])), int(round(r["at"][k])), 1 if r["fired"][k] == "ok" else 0))
        for a in sorted(ans):
            row += list(a[1:])
        out.append(row)
    for l in o["links"]:
        out.append([0 if l["client"] == "M" else 1, EST.get(l["M"], 8), EST.get(l["S"], 8), 1 if l["cut"] else 0]
                   + [MSG.get(m, 7) for m in l["qMS"]] + [9] + [MSG.get(m, 7) for m in l["qSM"]])
    return out


class Tracer:
    """applies high-level steps to the real Tubs and records the model ops + the real state after each"""

    def __init__(self):
        self.w = World()
        self.groups = []
        self.shaken = 0                          # links [0, shaken) have had their GET/101 exchange

    def apply(self, st):
        w = self.w
        kind = st[0]
        if kind == "restart":
            w.restart(st[1])
            ops = [("Restart", st[1])]
        elif kind == "cut":
            w.cut(w.net.links[st[1]])
            ops = [("Cut", st[1])]
        elif kind == "timeout":
            w.timeout(st[1])
            ops = [("Timeout", st[1])]
        elif kind == "armretry":
            # the application arms an instant retry: its next errback calls getBrokerForTubRef again, synchronously
            w.retry[st[1]] = st[2]
            ops = [("ArmRetry", st[1])]
        elif kind == "advance":
            # virtual time passes, but not beyond the next armed timer without that timer firing (lib/Converge.v do_advance)
            now = E.clock.seconds()
            due = [dc.getTime() for dc in E.clock.getDelayedCalls() if dc.getTime() > now]
            dt = int(st[1])
            if due:
                dt = min(dt, int(round(min(due) - now)))
            E.clock.advance(dt)
            E.turn()
            ops = [("Advance", dt)]
        elif kind == "sethandleold":
            # Tub.setOption on the master (and on every later incarnation of it)
            w.handle_old = st[1]
            w.tub["M"]._handle_old_duplicate_connections = False
            if st[1] is not None:
                w.tub["M"].setOption("handle-old-duplicate-connections", st[1])
            ops = [("SetHandleOld", st[1])]
        elif kind == "lookup":
            w.lookup(st[1], st[2], full=False)
            ops = [("GetRef", st[1])]
        elif kind == "lookupbad":
            # a FURL whose hints all fail at once: the model's derived operation (Converge.nohints_ops)
            w.lookup(st[1], SYNC_BAD_HINTS[st[2]], full=False)
            ops = [("GetRefNoHints", st[1])]
        elif kind == "deliver":
            i, side = st[1], st[2]
            l = w.net.links[i]
            dest = l.client_name if 1 - side == 0 else other(l.client_name)
            w.deliver_block(l, side)
            ops = [("Deliver", i, dest)]
        elif kind == "closeseen":
            i, side = st[1], st[2]
            l = w.net.links[i]
            who = l.client_name if side == 0 else other(l.client_name)
            w.close_seen(l, side)
            ops = [("CloseSeen", i, who)]
        else:
            raise ValueError(st)
        # links dialled during this step (by the lookup itself, or by a lookup issued from inside an errback)
        w.name_links()
        for l in w.net.links[self.shaken:]:
            w.handshake_plaintext(l)
            ops.append(("DialHint", l.client_name))
        self.shaken = len(w.net.links)
        self.groups.append((ops, obs_codes(w), tuple(st)))

    def drain(self, hold=()):
        """deliver everything pending, first pending step first, except the held ones"""
        for i in range(10000):
            ps = [s for s in self.w.pending_steps() if s not in hold]
            if not ps:
                return
            self.apply(ps[0])
        raise RuntimeError("no quiescence")


def random_trace(rng, nsteps, p_restart=0.03, p_cut=0.06, p_timeout=0.04, p_lookup=0.14, p_retry=0.05, maxhints=3, p_advance=0.08,
                 p_bad=0.2):
    """-> (world, groups) where groups = [(model ops of this step, observation after it, description)]"""
    tr = Tracer()
    w = tr.w
    if rng.random() < 0.15:
        tr.apply(("sethandleold", rng.choice([30, 60, 200])))
    for stepno in range(nsteps):
        net_steps = w.pending_steps()
        r = rng.random()
        if rng.random() < p_advance:
            st = ("advance", rng.choice([1, 5, 30, 60, 119, 120, 121, 500]))
        elif r < p_restart:
            st = ("restart", rng.choice(NAMES))
        elif r < p_restart + p_cut and any(not getattr(l, "was_cut", False) for l in w.net.links):
            st = ("cut", rng.choice([i for i, l in enumerate(w.net.links) if not getattr(l, "was_cut", False)]))
        elif r < p_restart + p_cut + p_timeout and any(w.connector(x) for x in NAMES):
            st = ("timeout", rng.choice([x for x in NAMES if w.connector(x)]))
        elif r < p_restart + p_cut + p_timeout + p_retry:
            st = ("armretry", rng.choice(NAMES), rng.randint(1, maxhints))
        elif r < p_restart + p_cut + p_timeout + p_retry + p_lookup or not net_steps:
            if rng.random() < p_bad:
                st = ("lookupbad", rng.choice(NAMES), rng.choice(sorted(SYNC_BAD_HINTS)))
            else:
                st = ("lookup", rng.choice(NAMES), rng.randint(1, maxhints))
        else:
            st = rng.choice(net_steps)
        tr.apply(st)
    return w, tr.groups


WITNESS_DISPLACED = None


def scripted_traces():
    """fixed schedules (independent of VERIF_SEED), one per family of behaviour the model must follow:
    instant retry from an errback on the time-out and on the negotiation-failure path; one-sided cuts after
    connections dialled in either direction followed by a redial of the side that noticed; raced cross-connect,
    cut, new lookups; parallel hints with history"""
    out = []
    for x in NAMES:
        for k in (1, 2):
            tr = Tracer()                         # time-out path, retry armed, twice
            for st in [("lookup", x, k), ("armretry", x, k), ("lookup", x, 1), ("timeout", x), ("armretry", x, 1), ("timeout", x),
                       ("timeout", x)]:
                tr.apply(st)
            tr.drain()
            out.append(tr)
            tr = Tracer()                         # failure path: the only attempt is cut, the errback retries, the retry connects
            tr.apply(("lookup", x, 1))
            tr.apply(("armretry", x, k))
            tr.apply(("cut", 0))
            tr.drain()
            tr.apply(("lookup", other(x), 1))
            tr.drain()
            out.append(tr)
    for x in NAMES:
        # virtual time: two lookups at different times share the first one's connector and are answered when ITS timer
        # fires; the retry armed for the errback gets a connector (and CONNECTION_TIMEOUT) of its own
        tr = Tracer()
        for st in [("lookup", x, 2), ("advance", 50), ("lookup", x, 1), ("armretry", x, 1), ("advance", 100), ("advance", 1),
                   ("advance", 500), ("advance", 500)]:
            tr.apply(st)
        tr.drain()
        out.append(tr)
        # the listening end's own negotiation timer (SERVER_TIMEOUT): the dialler gives up at once (forced), its FIN is
        # not delivered; the listener hangs up when its timer fires; a later attempt runs into both timers at once
        tr = Tracer()
        for st in [("lookup", x, 1), ("timeout", x), ("advance", 10), ("lookup", x, 2), ("advance", 500), ("advance", 500),
                   ("advance", 500)]:
            tr.apply(st)
        tr.drain()
        out.append(tr)
        # an established connection ages; handle-old set on the master; cross-connect afterwards
        tr = Tracer()
        tr.apply(("sethandleold", 60))
        tr.apply(("lookup", x, 1))
        tr.drain()
        tr.apply(("advance", 100))
        tr.apply(("lookup", other(x), 2))
        tr.apply(("lookup", x, 1))
        tr.drain()
        tr.apply(("cut", 0))
        tr.apply(("advance", 30))
        tr.apply(("lookup", "M", 2))
        tr.apply(("lookup", "S", 1))
        tr.drain()
        tr.apply(("advance", 1000))
        out.append(tr)
    for xi, x in enumerate(NAMES):
        # lookups whose connector fails synchronously (the model's derived operation nohints_ops): alone and followed by
        # a good lookup; with a retry armed for the errback; while another attempt is in flight (the hints are not looked
        # at); with a Broker (answered at once), after its loss, with time passing in between
        kinds = sorted(SYNC_BAD_HINTS)
        tr = Tracer()
        for st in [("lookupbad", x, kinds[xi]), ("lookupbad", x, kinds[2 + xi]), ("advance", 9), ("lookup", x, 1)]:
            tr.apply(st)
        tr.drain()
        tr.apply(("lookupbad", x, kinds[4 + xi]))                 # a Broker exists: callback at once
        tr.apply(("cut", 0))
        tr.drain()
        for st in [("lookupbad", other(x), kinds[6 - xi]), ("lookupbad", x, kinds[5 - xi]), ("advance", 200), ("lookup", other(x), 2)]:
            tr.apply(st)
        tr.drain()
        out.append(tr)
        tr = Tracer()
        for st in [("armretry", x, 2), ("advance", 3), ("lookupbad", x, kinds[3 - xi]), ("lookupbad", x, kinds[1 + xi]),
                   ("armretry", x, 1), ("timeout", x), ("lookupbad", other(x), kinds[xi])]:
            tr.apply(st)
        tr.drain()
        tr.apply(("advance", 500))
        tr.apply(("armretry", x, 1))
        tr.apply(("restart", x))
        tr.apply(("lookupbad", x, kinds[6 - xi]))
        tr.drain()
        out.append(tr)
    # the reachable run of C14_established_displaced_after_master_restart (known finding), step for step: M restarts, S
    # (remembering M's past life) dials two hints, the first is established at both ends, the second offer displaces it
    tr = Tracer()
    tr.apply(("lookup", "S", 1))
    tr.drain()
    tr.apply(("restart", "M"))
    tr.drain()
    tr.apply(("lookup", "S", 2))
    for st in [("deliver", 1, 0), ("deliver", 1, 1), ("deliver", 1, 1)]:
        tr.apply(st)
    tr.witness_before = (tr.w.live_broker_link("M"), tr.w.live_broker_link("S"))
    tr.apply(("deliver", 2, 0))
    tr.witness_after = tr.w.live_broker_link("M")
    tr.drain()
    out.append(tr)
    global WITNESS_DISPLACED
    WITNESS_DISPLACED = (tr.witness_before, tr.witness_after)
    for first in NAMES:
        for noticer in NAMES:
            for k in (1, 2):
                tr = Tracer()
                tr.apply(("lookup", first, 1))
                tr.drain()
                for rnd in range(2):
                    cur = tr.w.live_broker_link("M")[0]
                    l0 = tr.w.net.links[cur]
                    tr.apply(("cut", cur))
                    tr.apply(("closeseen", cur, tr.w.end_of(l0, noticer).side))
                    hold = [("closeseen", cur, tr.w.end_of(l0, other(noticer)).side)]
                    tr.apply(("lookup", noticer, k))
                    tr.drain(hold)
                    tr.drain()
                    if tr.w.live_broker_link("M") is None:
                        break
                    noticer = other(noticer)
                out.append(tr)
    for order in (0, 1):
        tr = Tracer()                             # cross-connect, cut, both look up again
        tr.apply(("lookup", NAMES[order], 2))
        tr.apply(("lookup", NAMES[1 - order], 1))
        tr.drain()
        cur = tr.w.live_broker_link("M")
        if cur:
            tr.apply(("cut", cur[0]))
            tr.drain()
        tr.apply(("lookup", "M", 1))
        tr.apply(("lookup", "S", 2))
        tr.drain()
        tr.apply(("restart", NAMES[order]))
        tr.apply(("lookup", NAMES[1 - order], 2))
        tr.drain()
        out.append(tr)
    for tr in out:
        tr.w.stop()
    return [tr.groups for tr in out]


# ---------------------------------------------------------------------------------------------
# direct oracle on the real Tubs
import random as _random
import os as _os, json as _json, glob as _glob


def agreement_problem(w):
    """the property at quiescence: both Tubs' brokers for each other are the two ends of one link, or both absent"""
    bm, bs = w.live_broker_link("M"), w.live_broker_link("S")
    for b in (bm, bs):
        if b and b[0] == "many":
            return "a Tub holds %d brokers for one peer" % b[1]
    if (bm is None) != (bs is None):
        return "one side has a current connection and the other has none: M=%r S=%r" % (bm, bs)
    if bm is None:
        return None
    if bm[0] != bs[0] or bm[1] == bs[1]:
        return "the two current connections are not the two ends of one link: M on link %r end %r, S on link %r end %r" % (
            bm[0], bm[1], bs[0], bs[1])
    if bm[2] or bs[2]:
        return "a disconnected broker is still registered: M=%r S=%r" % (bm, bs)
    l = w.net.links[bm[0]]
    if any(e.closed or e.lost for e in l.ends):
        return "the shared connection's transport is closed: %r" % ([(e.closed, e.lost) for e in l.ends],)
    return None


def lookups_problem(w, timeout_s):
    for r in w.results:
        if r.get("abandoned"):
            continue
        how = "" if not r.get("depth") else " issued from inside the callback/errback of another lookup (depth %d, at t=%.1f)" % (
            r["depth"], r["t0"])
        if r.get("queued"):
            how += " queued before startService (released at t=%.1f, target %s)" % (r["t0"], r["target"])
        if len(r["fired"]) != 1:
            return "a getReference of %s%s fired %d times (%r)" % (r["who"], how, len(r["fired"]), r["fired"])
        if r["at"][0] - r["t0"] > timeout_s + 1e-6:
            return "a getReference of %s%s fired after %.1f s > CONNECTION_TIMEOUT" % (r["who"], how, r["at"][0] - r["t0"])
    return None


def lookup_sig(bad):
    if "queued before startService" in bad:
        return "lookup-queued-before-start"
    return "lookup-reentrant" if "issued from inside" in bad else "lookup"


def tick(seconds):
    """advance virtual time second by second, so that a timer fires at (about) its own time"""
    for i in range(int(seconds)):
        E.clock.advance(1)
        E.turn()


def drain(w, rng, chunk, T, rounds=6):
    """virtual time: let every pending lookup reach its own CONNECTION_TIMEOUT (re-entrant retries start later)"""
    for i in range(rounds):
        if all(r.get("abandoned") or r["fired"] for r in w.results):
            break
        tick(T)
        settle(w, rng, chunk)


def random_reenter(rng):
    return rng.choice([None, None, dict(left=1, on="err", hints=rng.randint(1, 3)), dict(left=2, on="both", hints=rng.randint(1, 2)),
                       dict(left=1, on="ok", hints=1)])


def deliver_all_but(w, rng, chunk, held):
    for i in range(40000):
        ps = [s for s in w.pending_steps() if s not in held]
        if not ps:
            return
        w.do_net_step(rng.choice(ps), rng, chunk)
    raise RuntimeError("no quiescence")


def settle(w, rng, chunk=None):
    w.run_to_quiescence(rng, chunk)


def scenario(kind, seed, p):
    """one oracle run; returns (signature suffix | None, text, facts)"""
    rng = _random.Random(seed)
    T = fconn.TubConnector.CONNECTION_TIMEOUT
    if kind == "prestart":
        w = World(unstarted=[p["who"]], third=True)
    elif kind == "sync-fail":
        w = World(unstarted=[p["who"]] if p.get("pre") == "unstarted" else (), third=(p.get("target") == "T"))
    elif kind == "old-peer":
        w = World(handle_old=p["threshold"], old_peer=("S",))
    else:
        w = World(third=bool(p.get("third")))
    facts = dict(kind=kind)
    chunk = None
    if p.get("bytes"):
        chunk = lambda r: r.choice([1, 2, 3, 7, 20, 64, 300])
    try:
        if kind == "crossfire":
            # both dial at once, 1-3 hints each, no faults: must end on ONE shared live connection, both lookups ok
            for x in NAMES:
                w.lookup(x, p["hints"][x], reenter=(p.get("reenter") or {}).get(x))
                if p.get("third"):
                    w.lookup(x, 1, target="T")
            settle(w, rng, chunk)
            bad = agreement_problem(w) or lookups_problem(w, T)
            if bad:
                return "agreement" if "getReference" not in bad else lookup_sig(bad), bad, facts
            if w.live_broker_link("M") is None:
                return "no-connection-without-faults", "a fault-free simultaneous connect ended without a connection", facts
            kinds = sorted(r["fired"][0] for r in w.results)
            facts["results"] = kinds
            if "ok" not in kinds:
                return "no-lookup-succeeded", "fault-free cross-connect: every getReference failed: %r" % kinds, facts
            if p.get("relookup"):
                # the raced connection is lost (seen by both), then both look the peer up again: must not hang, must reconnect
                n0 = len(w.results)
                w.cut(w.net.links[w.live_broker_link("M")[0]])
                settle(w, rng, chunk)
                for x in p["relookup"]:
                    w.lookup(x, rng.randint(1, 2), reenter=random_reenter(rng))
                settle(w, rng, chunk)
                drain(w, rng, chunk, T)
                bad = lookups_problem(w, T) or agreement_problem(w)
                if bad:
                    return (lookup_sig(bad) if "getReference" in bad else "agreement"), "after a raced cross-connect was cut: " + bad, facts
                if w.live_broker_link("M") is None or "ok" not in [r["fired"][0] for r in w.results[n0:]]:
                    return "no-connection-without-faults", "after a raced cross-connect was cut, a new lookup did not reconnect: %r" % (
                        [r["fired"] for r in w.results[n0:]],), facts
        elif kind == "faults":
            # lookups, deliveries, cuts, close notifications and restarts in random order; then everything settles
            for i in range(p["steps"]):
                r = rng.random()
                ps = w.pending_steps()
                if r < 0.15 or not ps:
                    w.lookup(rng.choice(NAMES), rng.randint(1, 3), reenter=random_reenter(rng) if p.get("reenter") else None)
                elif r < 0.22 and w.net.links:
                    w.cut(rng.choice(w.net.links))
                elif r < 0.25:
                    w.restart(rng.choice(NAMES))
                else:
                    w.do_net_step(rng.choice(ps), rng, chunk)
            settle(w, rng, chunk)
            bad = agreement_problem(w)
            if bad:
                return "agreement", bad, facts
            # virtual time: everything still pending must be answered by CONNECTION_TIMEOUT
            drain(w, rng, chunk, T)
            bad = lookups_problem(w, T) or agreement_problem(w)
            if bad:
                return (lookup_sig(bad) if "getReference" in bad else "agreement-after-timeout"), bad, facts
            facts["results"] = sorted(set(r["fired"][0] for r in w.results if not r.get("abandoned")))
            facts["reentered"] = w.reentered
        elif kind == "redundant":
            # S (or M) connects with several hints in parallel, after some history: exactly ONE of the parallel
            # attempts may be accepted -- a later one from the same incarnation must not displace the first
            x = p["who"]
            hist = p["history"]
            if hist != "fresh":
                w.lookup(x, 1)
                settle(w, rng)
                l0 = w.net.links[0]
                if hist == "both-lost":
                    w.cut(l0)
                    settle(w, rng)
                elif hist == "dialer-lost-only":
                    # the dialer has seen the loss, the peer has not yet
                    w.cut(l0)
                    w.close_seen(l0, 0)
                elif hist == "peer-restarted":
                    w.restart(other(x))
                    settle(w, rng)
            seq0 = list(w.tub["M"].master_table.values())
            seq0 = seq0[0] if seq0 else 0
            n0 = len(w.results)
            new = w.lookup(x, p["hints"])
            settle(w, rng, chunk)
            E.clock.advance(0.5)
            E.turn()
            settle(w, rng, chunk)
            seq1 = list(w.tub["M"].master_table.values())
            seq1 = seq1[0] if seq1 else 0
            # offers of this round that the master accepted = new links whose master end switched to Banana
            accepted = sum(1 for l in new if "connectionLost" in w.end_of(l, "M").protocol.__dict__)
            facts.update(seq_before=seq0, seq_after=seq1, accepted=accepted, results=[r["fired"] for r in w.results[n0:]])
            bad = agreement_problem(w)
            if bad:
                return "agreement", bad, facts
            if accepted == 0 or seq1 - seq0 != 1:
                if accepted == 0:
                    return "no-connection-without-faults", "no parallel attempt was accepted: %r" % (facts,), facts
                if accepted == 1:
                    return "seqnum-not-advanced", "one offer accepted but the master's seqnum went %d -> %d" % (seq0, seq1), facts
            if accepted > 1 or w.live_broker_link("M") is None or w.results[n0]["fired"] != ["ok"]:
                return ("redundant-attempt-displaces-established/%s" % hist,
                        "%d parallel hints after history %r: the master accepted %d of the parallel offers of one peer incarnation "
                        "(an established connection was displaced by a redundant attempt); final brokers M=%r S=%r; lookup result %r"
                        % (p["hints"], hist, accepted, w.live_broker_link("M"), w.live_broker_link("S"), w.results[n0]["fired"]),
                        facts)
        elif kind == "restart-displaces":
            # a stale connection (the peer restarted, the loss not yet noticed) must be displaced by the new incarnation
            x = p["who"]                       # who restarts and then dials
            y = other(x)
            w.lookup(p["first_dialer"], 1)
            settle(w, rng)
            stale = w.live_broker_link(y)
            w.restart(x)                       # y has not seen the loss: its broker is stale
            if w.live_broker_link(y) != stale:
                return "harness", "restart disturbed the surviving Tub", facts
            new = w.lookup(x, 1)
            # deliver everything on the new link only; the stale link's close notification stays pending
            for i in range(20000):
                ps = [s for s in w.pending_steps() if w.net.links[s[1]] in new]
                if not ps:
                    break
                w.do_net_step(rng.choice(ps), rng, chunk)
            by, bx = w.live_broker_link(y), w.live_broker_link(x)
            facts.update(stale=stale, y=by, x=bx)
            if by is None or bx is None or by[0] != bx[0] or by[0] == stale[0]:
                return ("restart-does-not-displace", "after %s restarted and dialled again, the surviving Tub kept its stale connection "
                        "or refused the new one: %s has %r, %s has %r (stale was %r)" % (x, y, by, x, bx, stale), facts)
            settle(w, rng)
            bad = agreement_problem(w) or lookups_problem(w, T)
            if bad:
                return "agreement", bad, facts
            if w.live_broker_link(y) is None:
                return "restart-does-not-displace", "the new connection did not survive the late close of the stale one", facts
        elif kind == "one-sided-cut":
            # a connection dialled by `first_dialer` is established; per round: the link dies, ONLY `noticer` sees it,
            # and redials (same incarnation, k hints) while the other side still holds the stale Broker: the redial
            # must replace the stale connection (the offer proves knowledge of the existing seqnum / the master has
            # no Broker), exactly one offer is accepted, and the new connection survives the late close of the old
            w.lookup(p["first_dialer"], 1)
            settle(w, rng, chunk)
            for rnd, (noticer, hints) in enumerate(p["rounds"]):
                cur = w.live_broker_link("M")
                bad = agreement_problem(w)
                if bad or cur is None:
                    return "agreement", "before round %d: %s" % (rnd, bad or "no connection"), facts
                l0 = w.net.links[cur[0]]
                dialled_by = l0.client_name
                y = other(noticer)
                w.cut(l0)
                w.close_seen(l0, w.end_of(l0, noticer).side)
                stale = w.live_broker_link(y)
                held = [("closeseen", cur[0], w.end_of(l0, y).side)]
                n0 = len(w.results)
                if p.get("third") in ("before", "both"):
                    w.lookup(noticer, 1, target="T")       # another outbound negotiation of the noticer, set up just before
                new = w.lookup(noticer, hints)
                if p.get("third") in ("after", "both"):
                    w.lookup(noticer, 1 + rnd % 2, target="T")   # ... or within the first round trip of the redial
                deliver_all_but(w, rng, chunk, held)
                E.clock.advance(0.5)
                E.turn()
                deliver_all_but(w, rng, chunk, held)
                by, bx = w.live_broker_link(y), w.live_broker_link(noticer)
                accepted = sum(1 for l in new if "connectionLost" in w.end_of(l, "M").protocol.__dict__)
                tag = "dialled-by-%s/noticed-by-%s" % (dialled_by, noticer)
                facts.update(round=rnd, tag=tag, stale=stale, y=by, x=bx, accepted=accepted, result=w.results[n0]["fired"],
                             slave_table=[list(v) for v in w.tub["S"].slave_table.values()])
                if stale is None:
                    return "harness", "the side that did not notice lost its broker", facts
                if by is None or bx is None or by[0] != bx[0] or by[0] == stale[0] or w.results[n0]["fired"] != ["ok"]:
                    return ("stale-not-displaced-by-redial/" + tag,
                            "round %d: the connection dialled by %s was cut and only %s noticed; %s redialled (%d hints) but the stale "
                            "connection was not replaced: %s has %r (stale %r), %s has %r, lookup result %r, S.slave_table=%r"
                            % (rnd, dialled_by, noticer, noticer, hints, y, by, stale, noticer, bx, w.results[n0]["fired"],
                               facts["slave_table"]), facts)
                if p.get("third") and any(r["fired"] not in (["ok"],) for r in w.results if r["target"] == "T" and r["fired"]):
                    return ("lookup", "round %d (%s): a lookup of the third Tub failed without any fault on that path: %r" % (
                        rnd, tag, [r["fired"] for r in w.results if r["target"] == "T"]), facts)
                if accepted != 1:
                    return ("redundant-attempt-displaces-established/one-sided-cut",
                            "round %d (%s): %d of %d parallel redial offers were accepted" % (rnd, tag, accepted, hints), facts)
                settle(w, rng, chunk)
                bad = agreement_problem(w) or lookups_problem(w, T)
                if bad:
                    return ("agreement" if "getReference" not in bad else lookup_sig(bad)), "round %d (%s): %s" % (rnd, tag, bad), facts
                if w.live_broker_link("M") is None:
                    return ("stale-not-displaced-by-redial/" + tag,
                            "round %d (%s): the new connection did not survive the late close of the stale one" % (rnd, tag), facts)
        elif kind == "prestart":
            # lookups issued BEFORE Tub.startService() are queued; several of them, for the peer (different FURLs /
            # numbers of hints) and for a different Tub; then the Tub starts and the usual races follow: every queued
            # lookup must fire exactly once within CONNECTION_TIMEOUT of the start, and -- without faults -- succeed
            x = p["who"]
            y = other(x)
            for (tgt, k, re_) in p["queued"]:
                w.lookup(x, k, reenter=re_, target=("T" if tgt == "T" else None))
            if any(r["fired"] for r in w.results):
                return "lookup-fired-before-start", "a lookup fired although the Tub was not started: %r" % (
                    [r["fired"] for r in w.results],), facts
            tick(p.get("wait", 0))
            w.start(x)
            if p.get("peer_lookup"):
                w.lookup(y, p["peer_lookup"])
            if p.get("late"):
                w.lookup(x, p["late"])                      # an ordinary lookup right after the start
            for i in range(p.get("steps", 0)):
                r = rng.random()
                ps = w.pending_steps()
                if r < 0.1 or not ps:
                    w.lookup(rng.choice(NAMES), rng.randint(1, 3), reenter=random_reenter(rng))
                elif r < 0.2 and w.net.links:
                    w.cut(rng.choice(w.net.links))
                else:
                    w.do_net_step(rng.choice(ps), rng, chunk)
            settle(w, rng, chunk)
            tick(1)
            settle(w, rng, chunk)
            facts["lookups"] = [(r["target"], r["queued"], list(r["fired"])) for r in w.results]
            facts["results"] = [(r["fired"][0] if r["fired"] else "not-fired-yet") for r in w.results]
            bad = agreement_problem(w)
            if bad:
                return "agreement", bad, facts
            if not p.get("steps"):
                # with a simultaneous lookup by the peer one side may legitimately be refused as a duplicate
                # (RemoteNegotiationError) -- but it must have FIRED; lookups of the third Tub race with nobody
                def fine(r):
                    if r["fired"] == ["ok"]:
                        return True
                    return bool(p.get("peer_lookup")) and r["target"] != "T" and r["fired"] == ["RemoteNegotiationError"]
                notok = [r for r in w.results if r["who"] == x and not r["depth"] and not fine(r)]
                if notok:
                    r0 = notok[0]
                    return ("lookup-queued-before-start" if r0["queued"] else "lookup",
                            "no faults: %d lookups were queued on %s before startService (targets %r); after the start and with "
                            "everything delivered, the lookup #%d (target %s, queued=%s) has result %r; all results: %r"
                            % (len(p["queued"]), x, [q[0] for q in p["queued"]], w.results.index(r0), r0["target"], r0["queued"],
                               r0["fired"], facts["lookups"]), facts)
                if w.live_broker_link(x) is None and any(q[0] != "T" for q in p["queued"]):
                    return "no-connection-without-faults", "queued lookups were released but no connection exists", facts
            drain(w, rng, chunk, T)
            bad = lookups_problem(w, T) or agreement_problem(w)
            if bad:
                return (lookup_sig(bad) if "getReference" in bad else "agreement-after-timeout"), bad, facts
        elif kind == "sync-fail":
            # TubConnector.connect() can fail SYNCHRONOUSLY, inside Tub.getBrokerForTubRef: none of the FURL's hints is
            # usable (no hints, unknown type, malformed, the handler raises) or every endpoint refuses at once.  Such a
            # lookup must fire (with the failure) -- and must leave nothing behind that keeps LATER lookups of the same
            # Tub from getting a connector and a time-out of their own: per `follow`, a lookup with good hints by the
            # same Tub (fault-free: must succeed; black hole: must fail AT its own CONNECTION_TIMEOUT), an inbound
            # connection from the peer, both at once, or a good lookup issued from inside the failing lookup's errback.
            x = p["who"]
            y = other(x)
            tgt = "T" if p.get("target") == "T" else None
            peer = tgt or y
            bad = SYNC_BAD_HINTS[p["bad"]]
            pre = p.get("pre", "fresh")
            follow = p["follow"]
            k = p.get("hints", 1)
            if pre == "peer-restarted":
                # after a restart of the master, two offers of one slave incarnation (parallel hints, or a cross-connect)
                # are both accepted: that is the KNOWN finding redundant-attempt-displaces-established/peer-restarted,
                # reported by the `redundant` family; here one attempt at a time
                k = 1
                follow = "good" if follow == "both" else follow
            if pre in ("lost", "peer-restarted") and not tgt:
                w.lookup(x if p.get("first_dialer", "who") == "who" else y, 1)
                settle(w, rng, chunk)
                if w.live_broker_link(x) is None:
                    return "no-connection-without-faults", "fault-free first connection failed", facts
                if pre == "lost":
                    w.cut(w.net.links[w.live_broker_link(x)[0]])
                else:
                    w.restart(y)
                settle(w, rng, chunk)
            n0 = len(w.results)
            re_ = dict(left=1, on="err", hints=k) if follow == "reenter" else None
            for i in range(p.get("nbad", 1)):
                w.lookup(x, bad, reenter=re_, target=tgt)
                if follow == "reenter" and pre != "unstarted":
                    settle(w, rng, chunk)         # the good lookup made from inside the errback is not black-holed
                tick(p.get("gap", 0))
            if pre == "unstarted":
                if any(r["fired"] for r in w.results):
                    return "lookup-fired-before-start", "a lookup fired although the Tub was not started", facts
                w.start(x)
            nbad = len(w.results)
            facts["bad_results"] = [list(r["fired"]) for r in w.results[n0:]]
            if "ok" in w.results[n0]["fired"]:
                return "harness", "a lookup without a usable hint succeeded although no connection existed", facts
            if follow in ("good", "both", "blackhole"):
                w.lookup(x, k, target=tgt)
            if follow in ("peer", "both") and not tgt:
                w.lookup(y, p.get("peer_hints", 1))
            if follow == "blackhole":
                # nothing is delivered: the good lookup must be errbacked when ITS connector times out
                tick(T - 1)
                early = [list(r["fired"]) for r in w.results[nbad:]]
                tick(2)
                late = [list(r["fired"]) for r in w.results[nbad:]]
                facts.update(early=early, final=late)
                if any(early):
                    return "lookup-fired-early", "lookup failed before CONNECTION_TIMEOUT although an attempt was pending: %r" % early, facts
            else:
                settle(w, rng, chunk)
                tick(1)
                settle(w, rng, chunk)
                if follow == "peer" and not tgt:
                    w.lookup(x, bad)              # a Broker exists now: the hints do not matter
                    settle(w, rng, chunk)
            after = [r for r in w.results[n0:] if r["depth"] > 0 or w.results.index(r) >= nbad]
            facts["results"] = [(r["fired"][0] if r["fired"] else "not-fired-yet") for r in w.results[n0:]]
            hung = [r for r in w.results[n0:] if not r["fired"]]
            if hung:
                # give it its full CONNECTION_TIMEOUT (and more): does it EVER fire?
                t = w.tub[x]
                cons = [(bool(c.active), c.timer is not None and c.timer.active()) for c in t.tubConnectors.values()]
                drain(w, rng, chunk, T, rounds=3)
                still = [r for r in w.results[n0:] if not r["fired"]]
                if still:
                    r0 = still[0]
                    return ("lookup-hangs-after-synchronous-connect-failure",
                            "%s looked up %s through a FURL whose hints all fail at once (%s: %r; result %r), history %r; then (%s) "
                            "lookup #%d of %s (made at t=%.0f%s) was never answered: still pending %.0f s later, CONNECTION_TIMEOUT "
                            "is %d s; when it was made %s.tubConnectors held %d connector(s) (active, timer armed)=%r, "
                            "waitingForBrokers has %d waiter(s)"
                            % (x, peer, p["bad"], bad, facts["bad_results"], pre, follow, w.results.index(r0), r0["who"], r0["t0"],
                               ", from inside the errback" if r0["depth"] else "", E.clock.seconds() - r0["t0"], T, x, len(cons), cons,
                               sum(len(v) for v in t.waitingForBrokers.values())), facts)
            if follow != "blackhole":
                # fault-free: the good lookups must have SUCCEEDED (with a simultaneous lookup by the peer, one side may be
                # refused as a duplicate, but a connection must exist)
                okset = (["ok"], ["RemoteNegotiationError"]) if follow == "both" else (["ok"],)
                notok = [r for r in after if r["who"] == x and r["fired"] not in okset]
                if after and notok:
                    return ("no-connection-without-faults",
                            "after a lookup that failed synchronously (%s), a fault-free lookup of %s by %s (%s) has result %r"
                            % (p["bad"], peer, x, follow, notok[0]["fired"]), facts)
                if follow != "none" and not tgt and w.live_broker_link(x) is None:
                    return "no-connection-without-faults", "after a lookup that failed synchronously (%s; then %s) no connection exists" % (
                        p["bad"], follow), facts
            drain(w, rng, chunk, T)
            bad_ = lookups_problem(w, T) or agreement_problem(w)
            if bad_:
                return (lookup_sig(bad_) if "getReference" in bad_ else "agreement"), "after a lookup that failed synchronously (%s; then %s): %s" % (
                    p["bad"], follow, bad_), facts
        elif kind == "slow-hints":
            # connection-hint handlers may return a DEFERRED from hint_to_endpoint (tor / i2p / socks helpers).  The FURL
            # has `slow:` hints whose Deferred never fires / fires dt seconds later with a working endpoint, with an
            # endpoint that refuses, or with a failure, mixed with ordinary good hints and with hints that fail at once;
            # the network delivers everything ("free") or nothing ("blackhole").  Every lookup must fire exactly once
            # within CONNECTION_TIMEOUT of being MADE (the budget covers the handler's start-up); fault-free with an
            # endpoint available before the time-out it must succeed; black-holed with an attempt still open it must
            # fail AT the time-out, not earlier; a later lookup shares the connector and is answered with it.
            x = p["who"]
            y = other(x)
            w.slow_plan = [tuple(sl) for sl in p["slow"]]
            hints = ["slow:%s:%d" % (y, i) for i in range(len(w.slow_plan))]
            hints += ["fake:%s:%d" % (y, i + 1) for i in range(p.get("good", 0))]
            hints += list(SYNC_BAD_HINTS[p["bad"]]) if p.get("bad") else []
            rot = p.get("rot", 0) % len(hints)
            hints = hints[rot:] + hints[:rot]
            black = p["net"] == "blackhole"
            usable = [0] * p.get("good", 0) + [sl[1] for sl in w.slow_plan if sl[0] == "good"]
            usable_at = min(usable) if usable else None               # when the first working endpoint exists
            open_till_T = any(sl[0] == "never" for sl in w.slow_plan) or (black and usable_at is not None and usable_at < T)
            facts.update(hints=hints, usable_at=usable_at)
            w.lookup(x, hints, reenter=p.get("reenter"))
            first = w.results[0]
            cons0 = [(bool(c.active), c.timer is not None and c.timer.active()) for c in w.tub[x].tubConnectors.values()]
            horizon = T + 1
            if p.get("second"):
                horizon += p["second"]
            early = None
            for sec in range(horizon):
                if p.get("second") and sec == p["second"]:
                    w.lookup(x, hints if p.get("second_same", True) else 1)
                if sec == T - 1:
                    early = list(first["fired"])
                tick(1)
                if not black:
                    settle(w, rng, chunk)
            facts["results"] = [(r["fired"][0] if r["fired"] else "not-fired-yet") for r in w.results]
            facts["at"] = [list(r["at"]) for r in w.results]
            hung = [r for r in w.results if not r["fired"] and not r["depth"]]
            if hung:
                r0 = hung[0]
                cons = [(bool(c.active), c.timer is not None and c.timer.active()) for c in w.tub[x].tubConnectors.values()]
                for i in range(3 * T):
                    if r0["fired"]:
                        break
                    tick(1)
                    if not black:
                        settle(w, rng, chunk)
                how = ("it was answered only %.0f s after it was made (%r)" % (r0["at"][0] - r0["t0"], r0["fired"])) if r0["fired"] else \
                    ("it was never answered: still pending %.0f s after it was made" % (E.clock.seconds() - r0["t0"]))
                return ("lookup-exceeds-timeout-while-hint-handler-pending",
                        "%s looked up %s through hints %r; the handler of the slow: hints returns a Deferred (plan %r), network: %s; "
                        "lookup #%d (made at t=%.0f) had not fired %d s later, CONNECTION_TIMEOUT is %d s: %s; right after "
                        "getReference %s.tubConnectors held (active, timer armed)=%r, at the time-out %r, waitingForBrokers %d"
                        % (x, y, hints, w.slow_plan, p["net"], w.results.index(r0), r0["t0"], horizon, T, how, x, cons0, cons,
                           sum(len(v) for v in w.tub[x].waitingForBrokers.values())), facts)
            if open_till_T and early and early != ["ok"]:
                return "lookup-fired-early", "an attempt was still open (slow hint handler / black-holed connection) but the lookup " \
                    "fired before CONNECTION_TIMEOUT: %r; hints %r plan %r" % (early, hints, w.slow_plan), facts
            if not black and usable_at is not None and usable_at < T - 1:
                if first["fired"] != ["ok"] or w.live_broker_link(x) is None:
                    return ("no-connection-without-faults",
                            "fault-free network, a working endpoint was available %d s after the lookup (hints %r, plan %r) but the "
                            "lookup has result %r, Broker %r" % (usable_at, hints, w.slow_plan, first["fired"], w.live_broker_link(x)), facts)
            if usable_at is None and first["fired"] == ["ok"]:
                return "harness", "a lookup without a working endpoint succeeded", facts
            # late resolutions (after the connector gave up) must not leave anything behind
            tick(max([sl[1] for sl in w.slow_plan if len(sl) > 1] + [0]) + 2)
            settle(w, rng, chunk)
            drain(w, rng, chunk, T)
            bad = lookups_problem(w, T) or agreement_problem(w)
            if bad:
                return (lookup_sig(bad) if "getReference" in bad else "agreement"), "slow hint handlers (hints %r, plan %r, %s): %s" % (
                    hints, w.slow_plan, p["net"], bad), facts
            if w.tub[x].tubConnectors and w.live_broker_link(x) is None and all(r["fired"] for r in w.results):
                c = list(w.tub[x].tubConnectors.values())[0]
                if c.active:
                    return ("connector-left-active", "every lookup has fired and no attempt is open, but %s still holds an active "
                            "TubConnector (timer armed: %r): later lookups would piggy-back on it" % (x, bool(c.timer)), facts)
        elif kind == "old-peer":
            # S behaves like a pre-0.2.0 peer (no my-incarnation in its hello); the deciding Tub M has
            # handle-old-duplicate-connections = threshold, so the AGE of M's existing connection decides:
            #   restart        the connection (dialled by first_dialer: INBOUND or outbound at M) is `age` s old, S restarts
            #                  (M not told yet) and dials k hints: age >= threshold -> exactly one offer displaces the stale
            #                  connection and both share the new one; age < threshold -> M keeps what it has
            #   one-sided-cut  the same, but the link dies, only S notices and redials (same incarnation)
            #   parallel       S dials k >= 2 hints at once (fresh / after a connection lost by both): ONE offer is accepted,
            #                  the others meet a brand-new connection (age 0 < threshold) and are rejected
            th, ev, age, k = p["threshold"], p["event"], p.get("age", 0), p.get("hints", 1)
            if ev == "parallel":
                if p.get("history") == "both-lost":
                    w.lookup(p["first_dialer"], 1)
                    settle(w, rng, chunk)
                    tick(age)
                    w.cut(w.net.links[0])
                    settle(w, rng, chunk)
                n0 = len(w.results)
                new = w.lookup("S", k)
                settle(w, rng, chunk)
                tick(1)
                settle(w, rng, chunk)
                accepted = sum(1 for l in new if "connectionLost" in w.end_of(l, "M").protocol.__dict__)
                facts.update(accepted=accepted, results=[r["fired"] for r in w.results[n0:]])
                bad = agreement_problem(w)
                if bad:
                    return "agreement", "old-style peer, parallel hints: " + bad, facts
                if accepted != 1 or w.live_broker_link("M") is None or w.results[n0]["fired"] != ["ok"]:
                    return ("redundant-attempt-displaces-established/old-peer" if accepted > 1 else "no-connection-without-faults",
                            "old-style peer S (no my-incarnation) dialled %d hints in parallel, M has handle-old=%d: %d offers accepted, "
                            "brokers M=%r S=%r, lookup %r" % (k, th, accepted, w.live_broker_link("M"), w.live_broker_link("S"),
                                                              w.results[n0]["fired"]), facts)
            else:
                w.lookup(p["first_dialer"], 1)
                settle(w, rng, chunk)
                stale = w.live_broker_link("M")
                if stale is None or w.live_broker_link("S") is None:
                    return "no-connection-without-faults", "old-style peer: the fault-free first connection (dialled by %s) failed: %r" % (
                        p["first_dialer"], [r["fired"] for r in w.results]), facts
                l0 = w.net.links[stale[0]]
                how = "INBOUND" if l0.client_name == "S" else "outbound"
                tick(age)
                if w.live_broker_link("M") != stale:
                    return "harness", "the idle connection did not survive %d s" % age, facts
                if ev == "restart":
                    w.restart("S")
                else:
                    w.cut(l0)
                    w.close_seen(l0, w.end_of(l0, "S").side)
                held = [("closeseen", stale[0], w.end_of(l0, "M").side)]
                if w.live_broker_link("M") != stale:
                    return "harness", "the deciding Tub lost its Broker although it was not told", facts
                n0 = len(w.results)
                new = w.lookup("S", k)
                deliver_all_but(w, rng, chunk, held)
                tick(1)
                deliver_all_but(w, rng, chunk, held)
                bm, bs = w.live_broker_link("M"), w.live_broker_link("S")
                accepted = sum(1 for l in new if "connectionLost" in w.end_of(l, "M").protocol.__dict__)
                facts.update(stale=stale, M=bm, S=bs, accepted=accepted, result=w.results[n0]["fired"], existing=how)
                what = ("old-style peer S (hello without my-incarnation); deciding Tub M has handle-old-duplicate-connections=%d; M's "
                        "connection to S (dialled by %s: %s at M) was %d s old when %s and dialled %d hint(s): M accepted %d offer(s); M "
                        "has %r (stale was %r), S has %r, S's lookup: %r"
                        % (th, l0.client_name, how, age, "S restarted" if ev == "restart" else "the link died, only S noticed", k,
                           accepted, bm, stale, bs, w.results[n0]["fired"]))
                if age >= th:
                    if bm is None or bs is None or bm[0] != bs[0] or bm[0] == stale[0] or w.results[n0]["fired"] != ["ok"]:
                        return ("old-peer-stale-not-displaced/%s/existing-%s" % (ev, how.lower()),
                                what + " -- the existing connection is older than the threshold: the attempt must displace it", facts)
                    if accepted != 1:
                        return "redundant-attempt-displaces-established/old-peer", what + " -- exactly one must be accepted", facts
                else:
                    if accepted or bm != stale:
                        return ("old-peer-young-connection-displaced/%s" % ev,
                                what + " -- the existing connection is younger than the threshold: the heuristic must keep it", facts)
                settle(w, rng, chunk)
                drain(w, rng, chunk, T)
                bad = agreement_problem(w) or lookups_problem(w, T)
                if bad:
                    return ("agreement" if "getReference" not in bad else lookup_sig(bad)), what + " -- at quiescence: " + bad, facts
                if age >= th and w.live_broker_link("M") is None:
                    return ("old-peer-stale-not-displaced/%s/existing-%s" % (ev, how.lower()),
                            what + " -- the new connection did not survive the late close of the stale one", facts)
        elif kind == "blackhole":
            # nothing is ever delivered: the lookup must fail at CONNECTION_TIMEOUT, not hang, not earlier
            x = p["who"]
            w.lookup(x, p["hints"], reenter=p.get("reenter"))
            if p.get("second"):
                E.clock.advance(30)
                w.lookup(x, p["hints"], reenter=p.get("reenter"))
            tick(T - 31)
            early = [list(r["fired"]) for r in w.results]
            tick(31)
            facts.update(early=early, final=[r["fired"] for r in w.results])
            if any(early):
                return "lookup-fired-early", "lookup failed before CONNECTION_TIMEOUT although attempts were pending: %r" % early, facts
            if any(len(r["fired"]) != 1 for r in w.results if not r["depth"]):
                return "lookup", "lookup did not fire exactly once by CONNECTION_TIMEOUT: %r" % [r["fired"] for r in w.results], facts
            if p.get("reenter"):
                # the errback retried at once: each retry has its own CONNECTION_TIMEOUT, still nothing is delivered
                want = (2 if p.get("second") else 1) * (1 + p["reenter"]["left"]) if p["reenter"]["on"] != "ok" else None
                for i in range(p["reenter"]["left"] + 1):
                    tick(T)
                facts["final"] = [r["fired"] for r in w.results]
                bad = lookups_problem(w, T)
                if bad:
                    return lookup_sig(bad), bad, facts
                if want is not None and len(w.results) != want:
                    return "harness", "expected %d lookups, saw %d" % (want, len(w.results)), facts
            settle(w, rng)
            bad = agreement_problem(w)
            if bad:
                return "agreement", bad, facts
        else:
            raise ValueError(kind)
    finally:
        if w.reactor_errors:
            facts["exceptions_in_timer_callbacks"] = w.reactor_errors[:3]
        w.stop()
    return None, "", facts


def run_case(ctx, kind, seed, p, nontrivial=True):
    from harness.implenv import quiet
    try:
        with quiet():
            sig, text, facts = scenario(kind, seed, p)
    except Exception as e:
        import traceback
        ctx.fail("oracle/exception-escaped", "an exception escaped from the real Tubs in scenario %s %r: %r" % (kind, p, e),
                 replay=dict(kind=kind, seed=seed, params=p, tb=traceback.format_exc()))
        return None
    ctx.case([kind, seed if kind in ("faults", "crossfire", "one-sided-cut", "prestart", "sync-fail", "slow-hints", "old-peer") else 0, p], nontrivial=nontrivial)
    ctx.hist("oracle_kind", kind)
    for r in facts.get("results", []) if isinstance(facts.get("results"), list) else []:
        ctx.hist("lookup_result", r if isinstance(r, str) else "/".join(r))
    if sig:
        ctx.fail("oracle/" + sig, "%s [scenario %s %r seed %d]" % (text, kind, p, seed),
                 replay=dict(kind=kind, seed=seed, params=p, facts=facts))
    return facts


def run_corpus(ctx):
    d = _os.path.join(_os.path.dirname(_os.path.dirname(_os.path.abspath(__file__))), "corpus", "C14")
    for path in sorted(_glob.glob(_os.path.join(d, "*.json"))):
        c = _json.load(open(path))
        run_case(ctx, c["kind"], c["seed"], c["params"])
        ctx.hist("corpus", _os.path.basename(path))


FIXED_REENTER = [dict(left=1, on="err", hints=1), dict(left=2, on="err", hints=2), dict(left=1, on="both", hints=1)]


def run_fixed(ctx):
    """a fixed battery (independent of VERIF_SEED): one witness family per kind of defect seen so far"""
    # lookups that never fire / re-entrant lookups from errbacks (time-out path)
    for who in NAMES:
        for re_ in FIXED_REENTER:
            for second in (False, True):
                run_case(ctx, "blackhole", 0, dict(who=who, hints=2, second=second, reenter=re_))
    # re-entrant lookups from errbacks on the negotiation-failure path, and lookups after a raced connection was lost
    for sd in range(40):
        hints = dict(M=1 + sd % 3, S=1 + (sd // 3) % 3)
        run_case(ctx, "crossfire", 7000 + sd, dict(hints=hints, bytes=(sd % 4 == 0), relookup=[NAMES[sd % 2]] if sd % 5 else ["S", "M"],
                                                    reenter=dict(M=FIXED_REENTER[sd % 3], S=FIXED_REENTER[(sd + 1) % 3])))
    for sd in range(40):
        run_case(ctx, "faults", 8000 + sd, dict(steps=[25, 50, 90][sd % 3], bytes=(sd % 4 == 1), reenter=True))
    # one-sided cuts after connections dialled in both directions, redial from the side that noticed, several rounds
    for first in NAMES:
        for n1 in NAMES:
            for n2 in NAMES:
                for hints in (1, 2, 3):
                    run_case(ctx, "one-sided-cut", 9000 + hints, dict(first_dialer=first, rounds=[(n1, hints), (n2, 1 + hints % 3), (n1, 1)],
                                                                       bytes=(hints == 2)))
    # ... the same while the side that noticed has other outbound business: a lookup of a third Tub set up just before /
    # within the first round trip of the redial (concurrent outbound negotiations with different histories)
    for first in NAMES:
        for n1 in NAMES:
            for third in ("before", "after", "both"):
                for hints in (1, 2):
                    run_case(ctx, "one-sided-cut", 9100 + hints, dict(first_dialer=first, rounds=[(n1, hints), (other(n1), 1), (n1, 3 - hints)],
                                                                       bytes=(hints == 2 and third == "both"), third=third))
    for sd in range(6):
        run_case(ctx, "crossfire", 7100 + sd, dict(hints=dict(M=1 + sd % 2, S=1 + sd % 3), bytes=(sd % 3 == 0), relookup=["S", "M"],
                                                    reenter=dict(M=None, S=None), third=True))
    # lookups queued before Tub.startService(): 1-4 of them, same Tub (different hints) and a different Tub, with and
    # without a simultaneous lookup by the peer, with and without faults afterwards
    Q = [[("peer", 1, None)],
         [("peer", 1, None), ("peer", 2, None)],
         [("peer", 2, None), ("T", 1, None)],
         [("T", 1, None), ("peer", 1, None), ("peer", 3, None)],
         [("peer", 1, FIXED_REENTER[0]), ("T", 1, None), ("peer", 2, None), ("T", 1, None)]]
    for who in NAMES:
        for qi, q in enumerate(Q):
            for peer_lookup in (0, 2):
                run_case(ctx, "prestart", 9700 + qi, dict(who=who, queued=q, peer_lookup=peer_lookup, wait=(qi % 2) * 30,
                                                          late=(1 if qi == 3 else 0), steps=0, bytes=(qi == 2)))
            run_case(ctx, "prestart", 9750 + qi, dict(who=who, queued=q, peer_lookup=1, wait=5, steps=40, bytes=(qi == 4)))
    # lookups whose TubConnector fails synchronously inside getBrokerForTubRef (no usable hint / refused at once), then
    # later lookups of the same Tub: every kind of unusable hint x what follows x both Tubs, some histories, a third Tub
    for who in NAMES:
        for bi, badk in enumerate(sorted(SYNC_BAD_HINTS)):
            for fi, follow in enumerate(("good", "blackhole", "peer", "both", "reenter", "none")):
                run_case(ctx, "sync-fail", 9800 + bi, dict(who=who, bad=badk, follow=follow, hints=1 + (bi + fi) % 3, nbad=1 + (bi + fi) % 2,
                                                            gap=(fi % 2) * 7, pre="fresh", bytes=(bi == fi)))
        for pi, pre in enumerate(("lost", "peer-restarted", "unstarted")):
            for fi, follow in enumerate(("good", "blackhole", "reenter")):
                run_case(ctx, "sync-fail", 9820 + pi, dict(who=who, bad=sorted(SYNC_BAD_HINTS)[(2 * pi + fi) % len(SYNC_BAD_HINTS)], follow=follow,
                                                            hints=1 + fi % 2, nbad=1 + pi % 2, gap=0, pre=pre,
                                                            first_dialer=("who" if fi % 2 else "peer")))
        for fi, follow in enumerate(("good", "blackhole", "reenter")):
            run_case(ctx, "sync-fail", 9830 + fi, dict(who=who, bad=("none", "unknown", "refused")[fi], follow=follow, hints=1, nbad=1, gap=0,
                                                        pre="fresh", target="T"))
    # connection-hint handlers that answer with a Deferred (never / late / failing), alone and mixed with ordinary hints,
    # fault-free and black-holed: the time-out runs from the lookup
    SLOW = [[("never",)], [("good", 50)], [("good", 119)], [("good", 200)], [("bad", 40)], [("refused", 30), ("never",)],
            [("good", 70), ("bad", 10)], [("never",), ("good", 5)], [("bad", 130), ("never",)], [("good", 0)]]
    for who in NAMES:
        for si, slow in enumerate(SLOW):
            for ni, netk in enumerate(("free", "blackhole")):
                run_case(ctx, "slow-hints", 9900 + si, dict(who=who, slow=slow, net=netk, good=0, bad=None, rot=si, bytes=(si % 4 == 1)))
                run_case(ctx, "slow-hints", 9920 + si, dict(who=who, slow=slow, net=netk, good=(si + ni) % 2, rot=si + ni,
                                                             bad=sorted(SYNC_BAD_HINTS)[si % len(SYNC_BAD_HINTS)] if si % 3 else None,
                                                             second=(0, 30, 100)[si % 3], second_same=bool(si % 2),
                                                             reenter=FIXED_REENTER[si % 3] if si % 4 == 0 else None))
    # an old-style peer (no my-incarnation) and handle-old-duplicate-connections on the deciding Tub: the age of the existing
    # connection decides, whether that connection was accepted INBOUND or dialled by the decider
    for th in (30, 60):
        for first in NAMES:
            for ev in ("restart", "one-sided-cut"):
                for ai, age in enumerate((0, th - 1, th, th + 1, 5 * th)):
                    run_case(ctx, "old-peer", 9950 + ai, dict(threshold=th, first_dialer=first, event=ev, age=age, hints=1 + (ai + th // 30) % 3,
                                                               bytes=(ai == 3)))
            for hist in ("fresh", "both-lost"):
                for k in (2, 3):
                    run_case(ctx, "old-peer", 9960 + k, dict(threshold=th, first_dialer=first, event="parallel", history=hist, age=2 * th,
                                                              hints=k))
    # parallel hints after every history, restarted peers
    for who in NAMES:
        for hist in ("fresh", "both-lost", "dialer-lost-only"):
            for hints in (2, 3):
                for sd in range(3):
                    run_case(ctx, "redundant", 9500 + sd, dict(who=who, history=hist, hints=hints))
        for first in NAMES:
            for sd in range(2):
                run_case(ctx, "restart-displaces", 9600 + sd, dict(who=who, first_dialer=first, bytes=bool(sd)))


def run_all(ctx):
    rng = ctx.rng
    seed = lambda: rng.randrange(1 << 30)
    run_fixed(ctx)
    for i in range(ctx.n(100, 3000)):
        run_case(ctx, "crossfire", seed(), dict(hints=dict(M=rng.randint(1, 3), S=rng.randint(1, 3)), bytes=(i % 3 == 0),
                                                relookup=rng.choice([None, ["M"], ["S"], ["M", "S"]]),
                                                reenter=dict(M=random_reenter(rng), S=random_reenter(rng))))
    for i in range(ctx.n(200, 4000)):
        run_case(ctx, "faults", seed(), dict(steps=rng.choice([10, 25, 50, 90]), bytes=(i % 4 == 0), reenter=True))
    for i in range(ctx.n(40, 1500)):
        q = [(rng.choice(["peer", "peer", "T"]), rng.randint(1, 3), random_reenter(rng) if rng.random() < 0.3 else None)
             for k in range(rng.randint(1, 5))]
        run_case(ctx, "prestart", seed(), dict(who=rng.choice(NAMES), queued=q, peer_lookup=rng.choice([0, 0, 1, 3]),
                                               wait=rng.choice([0, 10, 100]), late=rng.choice([0, 0, 2]),
                                               steps=rng.choice([0, 0, 20, 60]), bytes=(i % 3 == 0)))
    for i in range(ctx.n(30, 1500)):
        rounds = [(rng.choice(NAMES), rng.randint(1, 3)) for k in range(rng.randint(1, 4))]
        run_case(ctx, "one-sided-cut", seed(), dict(first_dialer=rng.choice(NAMES), rounds=rounds, bytes=(i % 3 == 0),
                                                    third=rng.choice([None, None, "before", "after", "both"])))
    for i in range(ctx.n(30, 2000)):
        run_case(ctx, "sync-fail", seed(), dict(who=rng.choice(NAMES), bad=rng.choice(sorted(SYNC_BAD_HINTS)),
                                                follow=rng.choice(["good", "good", "blackhole", "peer", "both", "reenter", "none"]),
                                                hints=rng.randint(1, 3), nbad=rng.randint(1, 3), gap=rng.choice([0, 0, 1, 60, 200]),
                                                pre=rng.choice(["fresh", "fresh", "lost", "peer-restarted", "unstarted"]),
                                                first_dialer=rng.choice(["who", "peer"]), peer_hints=rng.randint(1, 2),
                                                target=rng.choice([None, None, None, "T"]), bytes=(i % 4 == 0)))
    for i in range(ctx.n(10, 1500)):
        slow = [rng.choice([("never",), ("good", rng.choice([0, 1, 30, 118, 119, 120, 121, 300])), ("bad", rng.choice([0, 5, 119, 150])),
                            ("refused", rng.choice([1, 60, 125]))]) for k in range(rng.randint(1, 3))]
        run_case(ctx, "slow-hints", seed(), dict(who=rng.choice(NAMES), slow=slow, net=rng.choice(["free", "blackhole"]),
                                                 good=rng.choice([0, 0, 1, 2]), bad=rng.choice([None, None] + sorted(SYNC_BAD_HINTS)),
                                                 rot=rng.randint(0, 5), second=rng.choice([0, 0, 1, 60, 119]),
                                                 second_same=rng.random() < 0.5, reenter=random_reenter(rng), bytes=(i % 4 == 0)))
    for i in range(ctx.n(10, 1500)):
        th = rng.choice([1, 30, 60, 200])
        run_case(ctx, "old-peer", seed(), dict(threshold=th, first_dialer=rng.choice(NAMES),
                                               event=rng.choice(["restart", "restart", "one-sided-cut", "parallel"]),
                                               history=rng.choice(["fresh", "both-lost"]),
                                               age=rng.choice([0, 1, th - 1, th, th + 1, 3 * th, 1000]), hints=rng.randint(1, 3),
                                               bytes=(i % 3 == 0)))
    for who in NAMES:
        for hist in ("fresh", "both-lost", "dialer-lost-only", "peer-restarted"):
            for hints in (2, 3):
                for rep in range(ctx.n(3, 40)):
                    run_case(ctx, "redundant", seed(), dict(who=who, history=hist, hints=hints))
    for who in NAMES:
        for first in NAMES:
            for rep in range(ctx.n(3, 40)):
                run_case(ctx, "restart-displaces", seed(), dict(who=who, first_dialer=first, bytes=(rep % 2 == 1)))
    for who in NAMES:
        for hints in (1, 3):
            for second in (False, True):
                run_case(ctx, "blackhole", 0, dict(who=who, hints=hints, second=second))
    ctx.sample(dict(kind="crossfire", params=dict(hints=dict(M=2, S=3), bytes=True)))
    ctx.sample(dict(kind="redundant", params=dict(who="S", history="peer-restarted", hints=2)))


# ---------------------------------------------------------------------------------------------
# the two layered models (lib/ConvergeLayers.v) on the real code

class _Sink:
    def __init__(self):
        self.data = b""

    def write(self, d):
        self.data += bytes(d)


class _FakeConnector:
    def __init__(self, tub, target):
        self.tub = tub
        self.target = target


def offers_case(events, records):
    """the outbound Negotiations of ONE real Tub: events = [("new", tgt) | ("send", n)], records = {tgt: (ir, seq)} =
    Tub.slave_table entries (targets without one have never been talked to).  Real Negotiation.__init__ / initClient /
    sendHello; returns [(n, (ir, seq))] = the last-connection every hello carried, in the order sent"""
    from foolscap.referenceable import TubRef
    from foolscap.info import ConnectionInfo
    E.reset_clock()
    net = Net()
    t = make_tub(net, "A", E.pem(0))
    tid = lambda k: "tub%02dabcdefghijklmnopqrstuvwxy" % k
    for k, (ir, seq) in records.items():
        t.slave_table[tid(k)] = (ir, seq)
    negs, out = [], []
    try:
        for ev in events:
            if ev[0] == "new":
                n = neg.Negotiation()
                n.initClient(_FakeConnector(t, TubRef(tid(ev[1]), ["fake:x:1"])), "x", ConnectionInfo())
                n.transport = _Sink()
                negs.append(n)
            elif ev[1] < len(negs):
                n = negs[ev[1]]
                n.transport = _Sink()
                n.sendHello()
                m = re.search(rb"last-connection: (\S+) (\S+)\r\n", n.transport.data)
                out.append((ev[1], (m.group(1).decode(), int(m.group(2))) if m else None))
    finally:
        try:
            t.stopService()
        except Exception:
            pass
        E.turn()
    return out


def prestart_relay_case(who, k, late):
    """k getReference calls queued on `who` before startService (same peer), the start, `late` more calls, everything
    delivered, no faults: how often did each caller's Deferred fire?  (the relays of Tub.startService on the real Tub)"""
    rng = _random.Random(5)
    w = World(unstarted=[who])
    try:
        for i in range(k):
            w.lookup(who, 1 + i % 2)
        w.start(who)
        for i in range(late):
            w.lookup(who, 1)
        settle(w, rng)
        tick(1)
        settle(w, rng)
        return [len(r["fired"]) for r in w.results if r["who"] == who], [r["fired"] for r in w.results if r["who"] == who]
    finally:
        w.stop()


# ---------------------------------------------------------------------------------------------
# the SECOND LEG of Tub.getReference (lib/RefLeg.v, lib/ConvergeRef.v) on the real code: b.getYourReferenceByName over the
# new Broker, on a connection that the network silently drops

SECOND_LEG_ROUNDS, SECOND_LEG_STEP = 20, 130


def second_leg_case(dialer, stage, hints=1):
    """`dialer` calls Tub.getReference (both legs); blocks are delivered until the dialer holds a Broker (stage "dialer":
    when the master dials, the other end is then still waiting for the decision) or both Tubs do (stage "both"); then the
    network DROPS the link without telling anybody (World.cut, no close notification: no FIN, no RST) and 20 x 130 s of
    virtual time pass; then the dialer's end is told (connectionLost).  Returns the facts the oracle and the
    correspondence look at."""
    rng = _random.Random(11)
    w = World()
    try:
        x, y = dialer, other(dialer)
        w.lookup(x, hints)
        rec = w.results[0]
        for i in range(400):
            have = bool(w.live_broker_link(x)) and (stage == "dialer" or bool(w.live_broker_link(y)))
            ps = w.pending_steps()
            if have or not ps:
                break
            w.do_net_step(ps[0])
        facts = dict(dialer=x, stage=stage, hints=hints)
        lb = w.live_broker_link(x)
        if lb is None or rec["fired"]:
            facts["harness"] = "no Broker at the dialer before the drop (fired=%r)" % (rec["fired"],)
            return facts
        link = w.net.links[lb[0]]
        b = [b for ref, b in w.tub[x].brokers.items() if ref.getTubID() == w.tubid[y]][0]
        facts["requests_before"] = sorted(b.waitingForAnswers.keys())
        for l in list(w.net.links):
            w.cut(l)                              # every link between the two: nothing is delivered any more, nobody is told
        t0 = E.clock.seconds()
        for i in range(SECOND_LEG_ROUNDS):
            E.clock.advance(SECOND_LEG_STEP)
            E.turn()
            # whatever the Tubs write or close now goes nowhere (the links are cut); no close notification is scheduled
        facts.update(waited=int(round(E.clock.seconds() - t0)), fired_while_silent=list(rec["fired"]),
                     dialer_broker_silent=w.live_broker_link(x) is not None, peer_broker_silent=w.live_broker_link(y) is not None,
                     requests_silent=sorted(b.waitingForAnswers.keys()), disconnected_silent=bool(b.disconnected),
                     timers=sorted(set(type(getattr(c, "func", None)).__name__ + ":" + getattr(getattr(c, "func", None), "__name__", "?")
                                       for c in E.clock.getDelayedCalls())))
        # the dialer's end learns of the loss
        w.close_seen(link, w.end_of(link, x).side)
        E.turn()
        facts.update(fired_after_notification=list(rec["fired"]), dialer_broker_after=w.live_broker_link(x) is not None,
                     requests_after=sorted(b.waitingForAnswers.keys()), disconnected_after=bool(b.disconnected))
        return facts
    finally:
        w.stop()
