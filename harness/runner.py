"""entry point: parent process = watchdog, child = the property's check."""
import argparse, importlib, json, os, subprocess, sys, time, traceback

VERIF = os.path.dirname(os.path.dirname(os.path.abspath(__file__)))
sys.path.insert(0, VERIF)

LIMITS = {"quick": 1500, "thorough": 4 * 3600}


def child(args):
    from harness import common
    ctx = common.Ctx(args.pid, args.tier, args.seed, args.replay)
    mod = importlib.import_module("harness.%s" % args.pid.lower())
    try:
        if args.replay and hasattr(mod, "replay"):
            data = json.load(open(args.replay))
            print("replaying %s (%s)" % (args.replay, data.get("signature")))
            mod.replay(ctx, data)
        else:
            if args.replay:
                print("note: %s has no dedicated replay entry point; running the full check (its corpus/generators include the replayed family)" % args.pid)
            mod.run(ctx)
    except Exception:
        tb = traceback.format_exc()
        ctx.fail("harness-exception", "the check itself raised: " + tb, replay=dict(traceback=tb), has_input=False)
    rc = ctx.finish()
    sys.stdout.flush()
    os._exit(rc)


def main():
    ap = argparse.ArgumentParser()
    ap.add_argument("pid")
    ap.add_argument("--tier", default=os.environ.get("VERIF_TIER", "quick"))
    ap.add_argument("--seed", type=int, default=int(os.environ.get("VERIF_SEED", "1") or 1))
    ap.add_argument("--replay")
    ap.add_argument("--child", action="store_true")
    args = ap.parse_args()
    if args.tier not in ("quick", "thorough"):
        args.tier = "quick"
    if args.child:
        return child(args)
    t0 = time.time()
    cmd = [sys.executable, "-u", os.path.abspath(__file__), args.pid, "--tier", args.tier, "--seed", str(args.seed),
           "--child"] + (["--replay", args.replay] if args.replay else [])
    try:
        r = subprocess.run(cmd, timeout=LIMITS[args.tier])
        rc = r.returncode
        why = "child exited with status %d" % rc
    except subprocess.TimeoutExpired:
        rc = -9
        why = "check exceeded its %d s watchdog (implementation or model hangs)" % LIMITS[args.tier]
    if rc in (0, 1):
        sys.exit(rc)
    # fail closed
    path = os.path.join(VERIF, "replays", "%s-crash.json" % args.pid)
    os.makedirs(os.path.dirname(path), exist_ok=True)
    json.dump(dict(property=args.pid, what=why, has_failing_input=False), open(path, "w"))
    ev = dict(property_id=args.pid, tier=args.tier, seed=args.seed, level="proof",
              coverage=dict(evaluations=0, distinct_nontrivial=0, explanation=why), wall_s=time.time() - t0, violations=1)
    d = os.environ.get("VERIF_EVIDENCE_DIR") or os.path.join(VERIF, "evidence")
    os.makedirs(d, exist_ok=True)
    json.dump(ev, open(os.path.join(d, args.pid + (".replay.json" if args.replay else ".json")), "w"))
    print("VIOLATION property=%s replay=%s no-failing-input-found" % (args.pid, path))
    sys.exit(1)


if __name__ == "__main__":
    main()
