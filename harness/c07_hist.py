"""C07, round 6: two direct oracles on the real receiver with FIXED witnesses (no dependence on the random stream).

keepalive_replies   the replies a byte sequence causes (PONG tokens, the final ERROR token) are part of the observable behaviour:
                    every PING(n) is answered by exactly one PONG(n), at the point of the stream where the PING stands (before
                    whatever the following tokens cause: deliveries, violations, the ERROR of a later protocol violation), in every
                    receiver state, for every packetisation -- in particular for several PINGs in one packet, and for a PING that
                    shares its packet with a protocol violation.

connection_age      "a function of the byte sequence alone": two identically configured receivers of one process that differ only in
                    WHEN they were connected (before / after an application module registered its RemoteCopy classes or unslicers)
                    treat the same bytes alike, and as the token specification says (a registered class is decoded and delivered).
                    Nothing that is derived from the process-wide registries may be frozen when the connection is set up while the
                    registries themselves are consulted when the tokens arrive.
"""
from harness import common

INT, STRING, OPEN, CLOSE, ABORT, ERROR, PING, PONG, LIST = 0x81, 0x82, 0x88, 0x89, 0x8A, 0x8D, 0x8E, 0x8F, 0x80

SEMANTIC = ("deliver", "violation", "pong", "error-sent", "lose", "receive-error", "write")


def _c07():
    from harness import c07
    return c07


# ------------------------------------------------------------------------------------------------ keepalive replies
def _splits(n, three_way_upto=16):
    """whole, bytewise, and every two-way and (for short streams) three-way cut"""
    out = [[n]]
    if n > 1:
        out.append([1] * n)
    for i in range(1, n):
        out.append([i, n - i])
    if n <= three_way_upto:
        for i in range(1, n):
            for j in range(i + 1, n):
                out.append([i, j - i, n - j])
    return out


def keepalive_witnesses():
    """(name, flavour, rootmode, stream, expected semantic events or None, expected prefix, abandoned?)
    flavour "policy" = PolicyBanana, "real" = RootUnslicer with the standard unslicers"""
    c = _c07()
    tok, S, I_ = c.tok, c.S, c.enc_int
    P = lambda n=None: tok(PING, n)
    pong = lambda n: ["pong", n]
    dl = lambda v: ["deliver", v]
    out = []
    for fl, L, lst in (("policy", b"L", lambda items: ["L", "L", items]), ("real", b"list", lambda items: ["list", items])):
        W = lambda name, stream, expect, mode="any", _fl=fl: out.append(dict(name=name, flavour=_fl, rootmode=mode, stream=stream, expect=expect))
        W("two-pings-one-packet", P(1) + P(2), [pong(1), pong(2)])
        W("same-number-twice", P(7) + P(7), [pong(7), pong(7)])
        W("four-pings-one-packet", P(0) + P(2 ** 40) + P(5) + P(), [pong(0), pong(2 ** 40), pong(5), pong(0)])
        W("pings-between-objects", P(1) + I_(5) + P(2) + S(b"abc") + P(),
          [pong(1), dl(["i", 5]), pong(2), dl(["s", list(b"abc")]), pong(0)])
        W("pings-around-index-phase", tok(OPEN, 0) + P(1) + S(L) + P(2) + I_(5) + P(3) + tok(CLOSE, 0) + P(4) + I_(9),
          [pong(1), pong(2), pong(3), dl(lst([["i", 5]])), pong(4), dl(["i", 9])])
        W("pong-and-body-bytes-are-not-pings", tok(PONG, 4) + S(b"\x01\x8e\x02\x8e") + P(3) + tok(PONG, 3) + P(6),
          [dl(["s", [1, 0x8e, 2, 0x8e]]), pong(3), pong(6)])
        if fl == "policy":
            W("pings-while-discarding", tok(OPEN, 0) + S(b"I") + P(1) + S(b"no") + P(2) + I_(4) + P(3) + tok(CLOSE, 0) + P(4) + I_(9),
              [pong(1), ["violation"], pong(2), pong(3), pong(4), dl(["i", 9])])
            W("ping-after-skipped-body", S(b"\x01\x8e\x02\x8e\x03\x8e") + P(3) + I_(9) + P(4), [["violation"], pong(3), dl(["i", 9]), pong(4)], mode="size0")
        else:
            W("pings-while-discarding", tok(OPEN, 0) + S(L) + I_(1) + P(1) + tok(OPEN, 1) + S(b"bogus") + P(2) + I_(2) + tok(CLOSE, 1) + P(3)
              + tok(CLOSE, 0) + P(4) + I_(9), [pong(1), ["violation"], pong(2), pong(3), pong(4), dl(["i", 9])])
        bads = [("invalid-type-byte", bytes([0x8b])), ("error-token", tok(ERROR, 2, b"hi")), ("list-token", bytes([LIST])),
                ("65-byte-header", bytes([1]) * 65), ("open-open", tok(OPEN, 1) + tok(OPEN, 2)), ("stray-close", tok(CLOSE, 9)),
                ("oversize-error", tok(ERROR, 1001))]
        for bn, bad in bads:
            # the PING stands before the protocol violation: it is answered, and answered FIRST; what stands behind is ignored
            out.append(dict(name="ping-then-" + bn, flavour=fl, rootmode="any", stream=P(7) + I_(1) + bad + I_(2) + P(8),
                            expect=None, prefix=[pong(7), dl(["i", 1])], dead=True))
            out.append(dict(name="two-pings-then-" + bn, flavour=fl, rootmode="any", stream=P(7) + P(9) + bad + P(8),
                            expect=None, prefix=[pong(7), pong(9)], dead=True))
            out.append(dict(name=bn + "-then-ping", flavour=fl, rootmode="any", stream=I_(1) + bad + P(7) + I_(2),
                            expect=None, prefix=[dl(["i", 1])], dead=True))
    return out


def keepalive_replies(ctx, I):
    ws = keepalive_witnesses()
    for w in ws:
        s = w["stream"]
        ref = None
        for cs in _splits(len(s), 16 if getattr(ctx, "tier", "quick") == "quick" else 40):
            if w["flavour"] == "policy":
                ev, snaps, esc = I.run_policy(s, cs, w["rootmode"])
                dead = bool(snaps and snaps[-1]["dead"])
            else:
                ev, final, esc = I.run_real(s, cs)
                dead = final["dead"]
            got = [list(e) for e in ev if e[0] in SEMANTIC]
            ctx.case(["keepalive", w["name"], w["flavour"], cs], nontrivial=True)
            ctx.hist("kind", "keepalive-replies")
            rp = dict(stream=list(s), chunks=cs, rootmode=w["rootmode"], real=w["flavour"] == "real", witness=w["name"])
            if esc:
                ctx.fail("oracle/exception-escaped", "keepalive witness %s (%s unslicers): an exception escaped dataReceived: %s; chunks %r"
                         % (w["name"], w["flavour"], esc, cs[:20]), replay=rp)
                break
            if w["expect"] is not None:
                want_pongs = [e[1] for e in w["expect"] if e[0] == "pong"]
                bad = got != w["expect"] or dead
                desc = "expected exactly %r, connection kept" % (w["expect"],)
            else:
                k = len(w["prefix"])
                want_pongs = [e[1] for e in w["prefix"] if e[0] == "pong"]
                rest = got[k:]
                bad = (got[:k] != w["prefix"] or not dead or ["lose"] not in rest
                       or any(e[0] in ("deliver", "violation", "pong") for e in rest))
                desc = "expected %r, then the connection is closed and nothing else is answered or delivered" % (w["prefix"],)
            if bad:
                pongs = [e[1] for e in got if e[0] == "pong"]
                sig = "oracle/ping-not-answered" if pongs != want_pongs else "oracle/ping-reply-misplaced"
                ctx.fail(sig, "keepalive witness %s (%s unslicers, root mode %s): every PING(n) is answered by one PONG(n) at its place in the stream, "
                         "for every packetisation: %s; got %r (abandoned=%s) with packets %r of stream %r"
                         % (w["name"], w["flavour"], w["rootmode"], desc, got, dead, cs[:20], list(s)), replay=dict(rp, expected=w["expect"] or w["prefix"], got=got))
                break
            final = (got, dead)
            if ref is None:
                ref = final
            elif final != ref:
                ctx.fail("oracle/chunk-dependent", "keepalive witness %s (%s unslicers): replies / events depend on the packetisation: one packet %r, packets %r -> %r; stream %r"
                         % (w["name"], w["flavour"], ref, cs[:20], final, list(s)), replay=dict(rp, whole=ref, chunked=final))
                break


# ------------------------------------------------------------------------------------------------ connection age
def _age_canon(o, seen=None):
    """canonical delivered object; instances built from a copyable sequence become ["copy", class name, sorted state]"""
    from harness import c07_impl as I
    seen = seen if seen is not None else {}
    if isinstance(o, (list, tuple)):
        return [type(o).__name__, [_age_canon(x, seen) for x in o]]
    if isinstance(o, dict):
        return ["dict", sorted(([_age_canon(k, seen), _age_canon(v, seen)] for k, v in o.items()), key=repr)]
    if hasattr(o, "__dict__") and not isinstance(o, type):
        return ["copy", type(o).__name__, sorted(([k, _age_canon(v, seen)] for k, v in o.__dict__.items()), key=repr)]
    return I.deep_canon(o)


def _flavours():
    """three receivers whose root unslicer decides about index tokens: banana.RootUnslicer, the storage root, and the PB root's
    openerCheckToken (PBRootUnslicer with the plain root's top-level registries, so that it can be driven without a Broker)"""
    from harness import c07_impl as I
    from foolscap import storage, broker
    from foolscap.slicers.root import RootUnslicer

    class AgeBanana(I.RealBanana):
        def receivedObject(self, obj):
            self.vlog.append(("deliver", _age_canon(obj)))

    class AgeStorageBanana(AgeBanana):
        unslicerClass = storage.StorageRootUnslicer

        def receiveChild(self, obj, ready_deferred):
            if ready_deferred is None:
                self.receivedObject(obj)
            else:
                ready_deferred.addBoth(lambda res: self.receivedObject(obj))

    class PBFlavourRoot(broker.PBRootUnslicer):
        topRegistries = RootUnslicer.topRegistries
        broker = None
        checkToken = RootUnslicer.checkToken
        receiveChild = RootUnslicer.receiveChild
        reportViolation = RootUnslicer.reportViolation

    class AgePBBanana(AgeBanana):
        unslicerClass = PBFlavourRoot
    return [("root", AgeBanana), ("storage-root", AgeStorageBanana), ("pb-root-index-check", AgePBBanana)]


def _feed(p, stream, chunks):
    from harness import c07_impl as I
    pos, esc = 0, None
    for n in chunks:
        try:
            p.dataReceived(stream[pos:pos + n])
        except Exception as e:
            esc = "%s: %s" % (type(e).__name__, e)
            break
        pos += n
    ev = [list(e) for e in I.events_of(p.vlog) if e[0] in SEMANTIC]
    return ev, dict(discard=p.discardCount, depth=len(p.receiveStack), buf=len(p.buffer), dead=bool(p.connectionAbandoned)), esc


def connection_age(ctx, I):
    """must run LAST among the oracles on the real unslicers: it registers RemoteCopy classes and unslicers process-wide"""
    from foolscap import copyable, slicer
    from foolscap.slicers.list import ListUnslicer
    c = _c07()
    tok, S, I_ = c.tok, c.S, c.enc_int
    flavours = _flavours()        # (imports foolscap.broker / call, which register their own RemoteCopy names: before `base` is taken)
    base = max([13] + [len(k) for k in copyable.CopyableRegistry.keys()] + [len(k[0]) for k in slicer.UnslicerRegistry.keys()])

    def name_of(tag, n):
        stem = "verif.c07.age.%s." % tag
        return stem + "x" * max(1, n - len(stem))
    # every name is longer than anything known when the OLD connections are made (just over the limit in force then, and far over it)
    copy_names = [("metaclass", name_of("metaclass", base + 1)), ("registerRemoteCopy", name_of("register", base + 2)),
                  ("factory", name_of("factory", base + 40)), ("short", "vc07.s")]
    if any(n in copyable.CopyableRegistry for _, n in copy_names):
        ctx.note("connection_age: witnesses already registered in this process; oracle skipped")
        return
    state_toks = S(b"value") + I_(42) + S(b"unit") + S(b"mV")
    state = [["unit", ["s", list(b"mV")]], ["value", ["i", 42]]]

    def copy_cases(route, name):
        nb = name.encode()
        cp = lambda k: tok(OPEN, k) + S(b"copyable") + S(nb) + state_toks + tok(CLOSE, k)
        cv = ["copy", "C07Copy_" + route, state]
        tail, tv = I_(99), ["deliver", ["i", 99]]
        yield "in-list", tok(OPEN, 0) + S(b"list") + cp(1) + I_(7) + tok(CLOSE, 0) + tail, [["deliver", ["list", [cv, ["i", 7]]]], tv]
        yield "in-list-in-list", (tok(OPEN, 0) + S(b"list") + I_(1) + tok(OPEN, 1) + S(b"list") + cp(2) + tok(CLOSE, 1) + cp(3) + tok(CLOSE, 0) + tail), \
            [["deliver", ["list", [["i", 1], ["list", [cv]], cv]]], tv]
        yield "dict-value", tok(OPEN, 0) + S(b"dict") + I_(1) + cp(1) + tok(CLOSE, 0) + tail, [["deliver", ["dict", [[["i", 1], cv]]]], tv]
        yield "in-tuple", tok(OPEN, 0) + S(b"tuple") + cp(1) + I_(7) + tok(CLOSE, 0) + tail, [["deliver", ["tuple", [cv, ["i", 7]]]], tv]

    # a new sequence type registered by an application module (an Unslicer subclass with an opentype of its own)
    short_ot, long_ot = "vc07seq", name_of("opentype", base + 5)
    cases = []            # (family, name, stream, expected events)
    for route, name in copy_names:
        for shape, s, exp in copy_cases(route, name):
            cases.append(("remotecopy-registered-later/" + route, shape, s, exp))
    for fam, ot in (("opentype-registered-later/short-name", short_ot), ("opentype-registered-later/long-name", long_ot)):
        b = ot.encode()
        cases.append((fam, "top-level", tok(OPEN, 0) + S(b) + I_(1) + I_(2) + tok(CLOSE, 0) + I_(99),
                      [["deliver", ["list", [["i", 1], ["i", 2]]]], ["deliver", ["i", 99]]]))
        cases.append((fam, "in-list", tok(OPEN, 0) + S(b"list") + tok(OPEN, 1) + S(b) + I_(1) + tok(CLOSE, 1) + I_(7) + tok(CLOSE, 0) + I_(99),
                      [["deliver", ["list", [["list", [["i", 1]]], ["i", 7]]]], ["deliver", ["i", 99]]]))

    def chunkings_of(n):
        out = [[n], [1] * n, [n // 2, n - n // 2], [3] * (n // 3) + ([n % 3] if n % 3 else [])]
        if getattr(ctx, "tier", "quick") == "thorough":
            out += [[i, n - i] for i in range(1, n) if i != n // 2]
        return out
    # ---- the OLD connections: made, and used for ordinary traffic (an object, a rejected object, an object), before the
    # application module is loaded; the new ones receive the very same bytes, so both see ONE byte sequence: pre + stream
    pre = I_(5) + tok(OPEN, 40) + S(b"list") + tok(OPEN, 41) + S(b"bogus") + I_(1) + tok(CLOSE, 41) + tok(CLOSE, 40) \
        + tok(OPEN, 42) + S(b"list") + I_(6) + tok(CLOSE, 42)
    pre_ev = [["deliver", ["i", 5]], ["violation"], ["deliver", ["list", [["i", 6]]]]]
    old = {}
    for fname, cls in flavours:
        for ci, (fam, shape, s, exp) in enumerate(cases):
            for ki, cs in enumerate(chunkings_of(len(s))):
                p = cls()
                p.dataReceived(pre)
                old[(fname, ci, ki)] = p

    # ---- "import application": registration through every public route
    class C07Copy_metaclass(copyable.RemoteCopy):
        copytype = copy_names[0][1]

    class C07Copy_registerRemoteCopy(copyable.RemoteCopy):
        copytype = None
    copyable.registerRemoteCopy(copy_names[1][1], C07Copy_registerRemoteCopy)

    class C07Copy_factory(object):
        pass

    def factory(state):
        o = C07Copy_factory()
        o.__dict__.update(state)
        return o
    copyable.registerRemoteCopyFactory(copy_names[2][1], factory, cyclic=False)

    class C07Copy_short(copyable.RemoteCopy):
        copytype = copy_names[3][1]

    class C07SeqShort(ListUnslicer):
        opentype = (short_ot,)

    class C07SeqLong(ListUnslicer):
        opentype = (long_ot,)

    known = common.load_known()
    noted = set()
    for fname, cls in flavours:
        for ci, (fam, shape, s, exp) in enumerate(cases):
            for ki, cs in enumerate(chunkings_of(len(s))):
                pn = cls()
                pn.dataReceived(pre)
                new_ev, new_fin, new_esc = _feed(pn, s, cs)
                want = pre_ev + exp
                old_ev, old_fin, old_esc = _feed(old[(fname, ci, ki)], s, cs)
                ctx.case(["connection-age", fname, fam, shape, cs], nontrivial=True)
                ctx.hist("kind", "connection-age")
                rp = dict(stream=list(s), chunks=cs, real=True, root=fname, family=fam, shape=shape,
                          prefix=list(pre), history="receiver connected -> prefix received -> %s -> stream received" % fam, expected=want)
                top = dict(discard=0, depth=1, buf=0, dead=False)
                if new_esc or old_esc:
                    ctx.fail("oracle/exception-escaped", "connection age (%s, %s, %s): an exception escaped dataReceived: %r / %r" % (fname, fam, shape, new_esc, old_esc), replay=rp)
                    break
                if new_ev != want or new_fin != top:
                    # a connection made AFTER the registration does not decode a legal stream as specified
                    ctx.fail("oracle/spec-deviation", "%s, %s (%s unslicer): a receiver connected after the registration must deliver %r and be back at top level; "
                             "got %r, final %r; packets %r, stream %r" % (fam, shape, fname, want, new_ev, new_fin, cs[:12], list(s)), replay=dict(rp, got=new_ev))
                    break
                if (old_ev, old_fin) != (new_ev, new_fin):
                    sig = "oracle/connection-age-dependent"
                    what = ("the same bytes are treated differently by two identically configured receivers of one process that differ only in when they were "
                            "connected (%s; %s; root %s): connected before the registration -> %r %r; connected after it -> %r %r; packets %r, stream %r"
                            % (fam, shape, fname, old_ev, old_fin, new_ev, new_fin, cs[:12], list(s)))
                    if fam == "opentype-registered-later/long-name":
                        # RootUnslicer.maxIndexLength is computed once in __init__ from registries that doOpen / open consult live.
                        # Present in the unchanged tree: reported to the lead as a candidate finding.  It becomes a reported failure under
                        # its own signature as soon as known_findings.json lists that signature (known -> KNOWN-FINDING, fixed -> VIOLATION).
                        sig = "oracle/connection-age-dependent/opentype-index-limit"
                        if ("C07", sig) not in known:
                            if sig not in noted:
                                noted.add(sig)
                                ctx.note("candidate finding (unchanged tree; not in known_findings.json): " + what[:900])
                            break
                    ctx.fail(sig, what, replay=dict(rp, old=[old_ev, old_fin], new=[new_ev, new_fin]))
                    break
