"""C06: drives one real Tub with two real Brokers (connections A and B) whose inbound traffic is hand-built Banana
tokens, interleaved with legitimate grants / registrations; instrumented Referenceables, Broker methods and
RemoteCopy classes record what is entered / instantiated.  No sockets; the brokers write into a sink."""
import sys, inspect
from zope.interface import implementer
from twisted.python import failure
from twisted.internet.error import ConnectionDone

from harness import implenv as E
from harness.implenv import Net, make_tub, pems_sorted, quiet
from foolscap import broker, tokens, copyable
from foolscap.api import Referenceable, RemoteInterface
from foolscap.referenceable import TubRef
from foolscap.remoteinterface import UnconstrainedMethod
from foolscap.banana import int2b128

PREFIX = "remote_"      # the oracle's own idea of the prefix (the property text: "methods exposed for remote use")


# ------------------------------------------------------------------ token building / reading
def b128(n):
    out = []
    int2b128(n, out.append)
    return b"".join(out)


def INT(n):
    return (b128(n) + tokens.INT) if n >= 0 else (b128(-n) + tokens.NEG)


def STR(s):
    return b128(len(s)) + tokens.STRING + s


def OPEN(n):
    return b128(n) + tokens.OPEN


def CLOSE(n):
    return b128(n) + tokens.CLOSE


def enc_arg(a, cnt):
    k = a[0]
    if k == "I":
        return INT(a[1])
    if k == "B":
        return STR(bytes(a[1]))
    n = cnt[0]
    cnt[0] += 1
    if k == "Y":
        return OPEN(n) + STR(b"your-reference") + INT(a[1]) + CLOSE(n)
    if k == "C":
        return OPEN(n) + STR(b"copyable") + STR(a[1].encode()) + CLOSE(n)
    if k == "O":
        return OPEN(n) + STR(a[1].encode()) + CLOSE(n)
    if k == "M":          # (my-reference k): the peer's own object number k; no interface name, no URL
        return OPEN(n) + STR(b"my-reference") + INT(a[1]) + CLOSE(n)
    if k == "T":          # (their-reference giftID url): a gift; the URL names another Tub, its name part carries the gift id
        return OPEN(n) + STR(b"their-reference") + INT(a[1]) + STR(gift_url(a[1]).encode()) + CLOSE(n)
    raise ValueError(a)


FOREIGN_TUBID = "tb5ha7q5uhxsrd4gqvqvgxwhbs2ikmk7"


def gift_url(g):
    return "pb://%s@tcp:127.0.0.1:1/gift-%d" % (FOREIGN_TUBID, g)


class GiftStandIn(object):
    """what the (stubbed) dial returns: stands for the RemoteReference Tub.getReference would produce"""


_classify = [None]       # set by System: how to describe a value a remote_ method / callable received


def enc_call(cnt, req, clid, mbytes, args, kw=False):
    n0 = cnt[0]
    cnt[0] += 2
    body = b""
    if kw:
        # keyword form, only used for the three RIBroker methods
        names = dict(getReferenceByName=[b"name"], decref=[b"clid", b"count"], decgift=[b"giftID", b"count"])[bytes(mbytes).decode()]
        body = INT(0) + b"".join(STR(nm) + enc_arg(a, cnt) for nm, a in zip(names, args))
    else:
        body = INT(len(args)) + b"".join(enc_arg(a, cnt) for a in args)
    return (OPEN(n0) + STR(b"call") + INT(req) + INT(clid) + STR(bytes(mbytes)) +
            OPEN(n0 + 1) + STR(b"arguments") + body + CLOSE(n0 + 1) + CLOSE(n0))


def enc_top(cnt, t):
    n0 = cnt[0]
    cnt[0] += 1
    return OPEN(n0) + STR(t.encode()) + INT(987654) + INT(1) + CLOSE(n0)


def read_tokens(data):
    """minimal Banana tokenizer (no vocab): -> list of (type byte, header int, body bytes)"""
    out = []
    i = 0
    while i < len(data):
        h = 0
        sh = 0
        while data[i] < 0x80:
            h += data[i] << sh
            sh += 7
            i += 1
        t = data[i:i + 1]
        i += 1
        body = b""
        if t in (tokens.STRING, tokens.LONGINT, tokens.LONGNEG, tokens.ERROR):
            body = data[i:i + h]
            i += h
        elif t == tokens.FLOAT:
            body = data[i:i + 8]
            i += 8
        out.append((t, h, body))
    return out


def myrefs_in(data):
    """my-reference sequences the server wrote: [(clid, url or None)]"""
    toks = read_tokens(data)
    out = []
    for i, (t, h, b) in enumerate(toks):
        if t == tokens.STRING and b == b"my-reference" and i > 0 and toks[i - 1][0] == tokens.OPEN:
            t1, h1, _ = toks[i + 1]
            clid = h1 if t1 == tokens.INT else -h1
            url = None
            j = i + 2
            strs = []
            while j < len(toks) and toks[j][0] == tokens.STRING:
                strs.append(toks[j][2])
                j += 1
            if len(strs) == 2:
                url = strs[1].decode()
            out.append((clid, url))
    return out


def answers_in(data):
    """top-level answer / error sequences the server wrote: {reqID: "answer" | "error"}"""
    out = {}
    depth = 0
    toks = read_tokens(data)
    for i, (t, h, b) in enumerate(toks):
        if t == tokens.OPEN:
            if depth == 0 and i + 2 < len(toks) and toks[i + 1][0] == tokens.STRING and toks[i + 1][2] in (b"answer", b"error") \
                    and toks[i + 2][0] == tokens.INT:
                out[toks[i + 2][1]] = toks[i + 1][2].decode()
            depth += 1
        elif t == tokens.CLOSE:
            depth -= 1
    return out


# ------------------------------------------------------------------ the serving application
class RIThing(RemoteInterface):
    hi = UnconstrainedMethod()
    x = UnconstrainedMethod()


class RIRead(RemoteInterface):
    hi = UnconstrainedMethod()


class RIOther(RemoteInterface):
    x = UnconstrainedMethod()


IFACE_METHODS = ["hi", "x"]
# the harness's own table of what each RemoteInterface exposes (not read from foolscap)
IFACES = {"RIThing": (RIThing, ["hi", "x"]), "RIRead": (RIRead, ["hi"]), "RIOther": (RIOther, ["x"])}


def declared_iface(obj):
    """Independent computation (zope only, never Referenceable.getInterface) of the RemoteInterface an object exposes now:
    -> (method names or None, 'class'|'instance'|None).  More than one RemoteInterface: ('several', ...)"""
    import zope.interface as zi
    provided = set(zi.providedBy(obj))
    found = [(n, names) for n, (ri, names) in sorted(IFACES.items()) if ri in provided]
    if not found:
        return None, None
    if len(found) > 1:
        return "several", None
    cls_level = IFACES[found[0][0]][0] in set(zi.implementedBy(type(obj)))
    return list(found[0][1]), ("class" if cls_level else "instance")


class Base(Referenceable):
    def __init__(self, wid, log):
        self._wid = wid
        self._log = log
        log.append(("init", wid))

    def _enter(self, name, a=(), k=None):
        argv = [_classify[0](x) for x in a] if _classify[0] and not k else None
        self._log.append(("enter", self._wid, name, argv))
        return 42

    def remote_hi(self, *a, **k):
        return self._enter("remote_hi", a, k)

    def hi(self, *a, **k):
        return self._enter("hi", a, k)

    def secret(self, *a, **k):
        return self._enter("secret", a, k)

    def _private(self, *a, **k):
        return self._enter("_private", a, k)

    def __call__(self, *a, **k):
        return self._enter("__call__", a, k)

    def cb_a(self, *a, **k):
        return self._enter("cb_a", a, k)

    def cb_b(self, *a, **k):
        return self._enter("cb_b", a, k)


def add_method(cls, name):
    def m(self, *a, **k):
        return self._enter(name, a, k)
    m.__name__ = "m"
    setattr(cls, name, m)


class P1(Base):
    pass


class P2(Base):
    pass


@implementer(RIThing)
class I1(Base):
    pass


class P1b(P1):
    """a subclass of a class that declares no RemoteInterface"""


class I2(I1):
    """a subclass of a class that declares RIThing: inherits the declaration"""


add_method(P1, "remote_x")
for _n in ("remote_", "remote___init__", "remote_hé", "remote_remote_hi", "remote_hi.x", "x", "__init__x"):
    add_method(P2, _n)
add_method(I1, "remote_x")
add_method(I1, "remote_hidden")


class RCBase(copyable.RemoteCopy):
    copytype = None
    LOG = None
    CLS = 0

    def __init__(self):
        RCBase.LOG.append(("inst", self.CLS))


class RC1(RCBase):
    copytype = None
    CLS = 1


class RC2(RCBase):
    copytype = None
    CLS = 2


class RC3(RCBase):
    copytype = None
    CLS = 3


RCS = {1: RC1, 2: RC2, 3: RC3}


class CopyOnly(copyable.Copyable):
    """a class that is only ever SENT by value (Copyable, no RemoteCopy side): never receivable"""
    CLS = 0

    def __init__(self):
        RCBase.LOG.append(("inst", self.CLS))


CLASS_NAMES = ["app.c1", "app.c2", "app.t1", "app.t2"]   # copytype / typeToCopy names of classes DEFINED during a history
KINDS = {1: P1, 2: P2, 3: P1, 4: P2, 5: I1, 6: I1, 9: P1, 10: P1b, 11: I2, 12: P1b}   # world ids of Referenceables
DECLARABLE = [1, 2, 3, 4, 9, 10, 12]                    # instances of classes without a RemoteInterface: may declare their own
CALLABLES = {7: (1, "cb_a"), 8: (2, "cb_b")}             # world ids of bound methods: (owner, method)
HANDLER_NAMES = {"dyn-3": 3, "dyn-5": 5, "dyn-6": 6}     # names the application's lookup handler may serve (Serve events)
PRIV_NAMES = ["priv.a", "priv.b", "priv.c"]              # copytypes of classes registered in PRIVATE registries only


class Sink:
    def __init__(self):
        self.data = []
        self.closed = False
        self.b = None

    def write(self, d):
        self.data.append(bytes(d))

    def loseConnection(self, *a):
        if not self.closed:
            self.closed = True
            self.b.connectionLost(failure.Failure(ConnectionDone()))

    def getPeer(self):
        return broker.LoopbackAddress()

    def getHost(self):
        return broker.LoopbackAddress()

    def take(self):
        d = b"".join(self.data)
        self.data = []
        return d


_pem = None


class System:
    """one Tub, two connections; `do(event)` executes one event and returns the observation"""

    INIT_YOURS = 424242   # the clid of the peer object the application already holds on each connection (see below)

    def __init__(self, accept_gifts=True):
        global _pem
        E.reset_clock()
        if _pem is None:
            _pem = pems_sorted(1)[0][1]
        self.log = []
        RCBase.LOG = self.log
        self.net = Net()
        self.tub = make_tub(self.net, "s", _pem)
        self.swiss = 0
        self.tub.generateSwissnumber = self._swiss
        # gifts: the Tub's dial is replaced per Tub instance by a stub that records the URL and succeeds / fails as the
        # current event says (no network in the sandbox; what a dial does is C05 / C14)
        self.accept_gifts = accept_gifts
        if not accept_gifts:
            self.tub.setOption("accept-gifts", False)
        self.dials = []
        self.dial_ok = {}
        self.tub.getReference = self._dial
        _classify[0] = self.classify
        self.served = {}            # what the handler answers now: name -> world id
        self.handler = lambda name: self.objs.get(self.served.get(name))
        self.handler_on = False
        # two private copyable registries of the application: one initially empty, one not
        self.priv = {0: {}, 1: {"priv.seed": (lambda: copyable.RemoteCopyUnslicer(lambda state: None, None))}}
        self.objs = {}
        for wid, cls in KINDS.items():
            self.objs[wid] = cls(wid, self.log)
        for wid, (owner, m) in CALLABLES.items():
            self.objs[wid] = getattr(self.objs[owner], m)
        self.wid_of = {id(o): w for w, o in self.objs.items()}
        self.cb_wid = {v: k for k, v in CALLABLES.items()}
        self.added_copy = []
        self.nclasses = 0
        self.defined = []
        self.br = {}
        self.rref = {}
        self.cnt = {}
        for c in ("A", "B"):
            b = broker.Broker(TubRef("peer-" + c))
            b.setTub(self.tub)
            t = Sink()
            t.b = b
            b.transport = t
            b.connectionMade()
            self.wrap_broker(b, c)
            self.br[c] = b
            # "the peer once sent us a reference to its object #1": what ReferenceUnslicer.receiveClose does
            self.rref[c] = b.getTrackerForYourReference(self.INIT_YOURS, None).getRef()
            self.cnt[c] = [0]
        del self.log[:]

    def _dial(self, url):
        from twisted.internet import defer
        url = url if isinstance(url, str) else str(url)
        g = int(url.rsplit("gift-", 1)[1]) if "gift-" in url else None
        self.dials.append(g)
        if self.dial_ok.get(g, False):
            return defer.succeed(GiftStandIn())
        return defer.fail(failure.Failure(ConnectionDone("stubbed dial failed")))

    def classify(self, x):
        """what a value handed to application code IS (never compares addresses across runs: world ids only)"""
        from foolscap.referenceable import RemoteReferenceOnly
        if id(x) in self.wid_of and self.objs.get(self.wid_of[id(x)]) is x:
            return ["local", self.wid_of[id(x)]]
        if isinstance(x, broker.Broker):
            return ["broker"] + [c for c in ("A", "B") if self.br[c] is x]
        if isinstance(x, RemoteReferenceOnly):
            return ["proxy"] + [c for c in ("A", "B") if self.br[c] is x.tracker.broker] + [x.tracker.clid]
        if isinstance(x, RCBase):
            return ["copy", x.CLS]
        if isinstance(x, GiftStandIn):
            return ["gift"]
        if hasattr(x, "__self__") and (getattr(x.__self__, "_wid", None), getattr(x, "__name__", None)) in self.cb_wid:
            return ["local", self.cb_wid[(x.__self__._wid, x.__name__)]]
        return ["data"]

    def yours(self, c):
        return sorted(k for k in self.br[c].yourReferenceByCLID if k != self.INIT_YOURS)

    def _swiss(self, bits):
        s = "sw%d" % self.swiss
        self.swiss += 1
        return s

    def next_swiss(self):
        return "sw%d" % self.swiss

    def wrap_broker(self, b, c):
        log = self.log
        for name, f in inspect.getmembers(type(b), inspect.isfunction):
            if name.startswith("__") or name == "doRemoteCall":     # doRemoteCall is the dispatcher itself
                continue
            bound = getattr(b, name)

            def w(*a, _bound=bound, _name=name, **k):
                if sys._getframe(1).f_code.co_name in ("doRemoteCall", "_doCall"):
                    log.append(("broker", c, _name, sorted(repr(list(v) if isinstance(v, bytes) else v) for v in list(a) + list(k.values()))))
                return _bound(*a, **k)
            setattr(b, name, w)

    def close(self):
        for n in self.added_copy:
            copyable.CopyableRegistry.pop(n, None)
            copyable.debug_CopyableFactories.pop(n, None)
            copyable.debug_RemoteCopyClasses.pop(n, None)
        with quiet():
            for c in ("A", "B"):
                if not self.br[c].disconnected:
                    self.br[c].transport.loseConnection()
            self.tub.stopService()
            E.turn()
            # safe point: automatic cyclic collection is off during a check (finalizers of dead RemoteReferences schedule
            # eventual-sends on the virtual clock from wherever the collector happens to run); collect here, between histories
            import gc
            gc.collect(1)     # the young generations hold what this history created (automatic collection is off)
            E.turn()

    def declare(self, wid, iname, how):
        """declare (or withdraw) a RemoteInterface on the INSTANCE, the zope way"""
        import zope.interface as zi
        obj = self.objs[wid]
        current = [ri for ri, _ in IFACES.values() if ri in set(zi.directlyProvidedBy(obj))]
        if iname is None:
            if how == "nolonger":
                for ri in current:
                    zi.noLongerProvides(obj, ri)
            else:
                zi.directlyProvides(obj)
        else:
            ri = IFACES[iname][0]
            if how == "also" and not current:
                zi.alsoProvides(obj, ri)
            else:
                zi.directlyProvides(obj, ri)

    def decls(self):
        """instance-level declarations now: wid -> method names"""
        out = {}
        for wid in DECLARABLE:
            names, level = declared_iface(self.objs[wid])
            if names is not None:
                out[wid] = names
        return out

    def register_private(self, name, cls, which, how):
        """an application class registered for pass-by-copy in a PRIVATE registry, in one of the four documented ways"""
        reg = self.priv[which]
        self.added_copy.append(name)          # cleaned up from the global registry afterwards, should it leak there
        klass = RCS[cls]

        def factory(state, klass=klass):
            obj = klass()
            obj.setCopyableState(state)
            return obj
        try:
            if how == "class":
                type("Dyn_" + name.replace(".", "_"), (klass,), dict(copytype=name, copyableRegistry=reg))
            elif how == "copy":
                copyable.registerRemoteCopy(name, klass, registry=reg)
            elif how == "factory":
                copyable.registerRemoteCopyFactory(name, factory, registry=reg)
            else:
                copyable.registerRemoteCopyUnslicerFactory(name, lambda: copyable.RemoteCopyUnslicer(factory, None), registry=reg)
        except AssertionError:
            pass

    def define_class(self, ct, ttc, cls, bases, which):
        """the application DEFINES a class (a `class` statement, i.e. the metaclass RemoteCopyClass.__init__ runs for RemoteCopy
        subclasses): ct = ["absent"] | ["none"] | ["str", s] is what the body says about copytype, ttc its typeToCopy (or None),
        bases "rc" (RemoteCopy subclass) | "both" (Copyable and RemoteCopy) | "copyable" (Copyable only), which = None (no
        copyableRegistry attribute) or the index of a private registry.  A definition that raises defines nothing."""
        d = {}
        if ct[0] == "none":
            d["copytype"] = None
        elif ct[0] == "str":
            d["copytype"] = ct[1]
            self.added_copy.append(ct[1])
        if ttc is not None:
            d["typeToCopy"] = ttc
            self.added_copy.append(ttc)
        if which is not None:
            d["copyableRegistry"] = self.priv[which]
        if bases == "rc":
            bs = (RCS[cls],)
        elif bases == "both":
            bs = (copyable.Copyable, RCS[cls])
        else:
            bs = (CopyOnly,)
            d["CLS"] = cls
        self.nclasses += 1
        name = "AppClass%d" % self.nclasses
        self.added_copy += [name, __name__ + "." + name]
        try:
            k = type(name, bs, d)
            k.__module__ = __name__
            self.defined.append(k)
        except Exception:        # RuntimeError (no copytype), AssertionError (name taken), ...: a failed definition defines nothing
            pass

    # ---- snapshots
    def exports(self, c):
        return {clid: (self.wid_of.get(id(t.obj), "?"), t.refcount) for clid, t in self.br[c].myReferenceByCLID.items()}

    def names(self):
        return {n: self.wid_of.get(id(o), "?") for n, o in self.tub.nameToReference.items()}

    def rnames(self):
        return {self.wid_of.get(id(o), "?"): n for o, n in self.tub.referenceToName.items()}

    def snapshot(self):
        return dict(A=self.exports("A"), B=self.exports("B"), aliveA=not self.br["A"].disconnected,
                    aliveB=not self.br["B"].disconnected, names=self.names(), rnames=self.rnames(),
                    nextA=self.peek_next("A"), nextB=self.peek_next("B"), decl=self.decls(),
                    yoursA=self.yours("A"), yoursB=self.yours("B"))

    def peek_next(self, c):
        # itertools.count repr is "count(n)"
        return int(repr(self.br[c].nextCLID)[6:-1])

    # ---- one event
    def do(self, ev):
        """-> observation: out ('Enter'|'Reject'|'Aborted'|'Dead'|'Local'), entered [(kind, wid, attr)], inst [cls],
        sent [(clid, url)] per connection, snapshot after, escaped exception (must be None)"""
        del self.log[:]
        del self.dials[:]
        self.dial_ok = {}
        if ev[0] == "Msg":
            self.dial_ok = {a[1]: bool(a[2]) for a in ev[5] if a[0] == "T"}
        for c in ("A", "B"):
            self.br[c].transport.take()
        kind = ev[0]
        out = "Local"
        exc = None
        with quiet():
            try:
                if kind == "Register":
                    try:
                        self.tub.registerReference(self.objs[ev[2]], name=ev[1])
                    except Exception as e:
                        exc = None
                elif kind == "Unregister":
                    try:
                        self.tub.unregisterReference(self.objs[ev[1]])
                    except KeyError:
                        pass
                elif kind == "RegisterCopy":
                    try:
                        copyable.registerRemoteCopy(ev[1], RCS[ev[2]])
                        self.added_copy.append(ev[1])
                    except AssertionError:
                        pass
                elif kind == "RegisterCopyPriv":
                    self.register_private(ev[1], ev[2], ev[3], ev[4])
                elif kind == "DefineClass":
                    self.define_class(ev[1], ev[2], ev[3], ev[4], ev[5])
                elif kind == "Declare":
                    self.declare(ev[1], ev[2], ev[3])
                elif kind == "Serve":
                    if not self.handler_on:
                        self.tub.registerNameLookupHandler(self.handler)
                        self.handler_on = True
                    self.served[ev[1]] = ev[2]
                elif kind == "Revoke":
                    self.served.pop(ev[1], None)
                elif kind == "HandlerOff":
                    if self.handler_on:
                        self.tub.unregisterNameLookupHandler(self.handler)
                        self.handler_on = False
                    self.served.clear()
                elif kind == "Grant":
                    c = ev[1]
                    try:
                        d = self.rref[c].callRemote("take", self.objs[ev[2]])
                        d.addErrback(lambda f: None)
                    except Exception:
                        pass
                    E.turn()
                elif kind == "Drop":
                    self.br[ev[1]].transport.loseConnection()
                    E.turn()
                elif kind == "Burst":
                    # several calls in ONE dataReceived (all parsed before any is delivered), then the reactor turns
                    c = ev[1]
                    b = self.br[c]
                    if b.disconnected:
                        out = "Dead"
                    else:
                        data = b"".join(enc_call(self.cnt[c], m[0], m[1], m[2], m[3], kw=(len(m) > 4 and m[4])) for m in ev[2])
                        b.dataReceived(data)
                        E.turn()
                        out = None
                elif kind in ("Msg", "Top"):
                    c = ev[1]
                    b = self.br[c]
                    if b.disconnected:
                        out = "Dead"
                    else:
                        if kind == "Msg":
                            data = enc_call(self.cnt[c], ev[2], ev[3], ev[4], ev[5], kw=(len(ev) > 6 and ev[6]))
                        else:
                            data = enc_top(self.cnt[c], ev[2])
                        b.dataReceived(data)
                        E.turn()
                        out = None
                else:
                    raise ValueError(ev)
            except Exception as e:   # nothing may escape dataReceived / the application-level calls above
                import traceback
                exc = traceback.format_exc()
        entered = []
        inst = []
        argv = None
        raw = []          # parallel to `entered`: the log entries themselves
        for l in self.log:
            if l[0] in ("enter", "broker", "init"):
                raw.append(l)
            if l[0] == "enter":
                if argv is None:
                    argv = l[3]
                if (l[1], l[2]) in self.cb_wid:
                    entered.append(("callable", self.cb_wid[(l[1], l[2])], ""))
                else:
                    entered.append(("obj", l[1], l[2]))
            elif l[0] == "broker":
                entered.append(("broker", l[1], l[2]))
            elif l[0] == "inst":
                inst.append(l[1])
            elif l[0] == "init":
                entered.append(("obj", l[1], "__init__"))
        if out is None:
            c = ev[1]
            if self.br[c].disconnected:
                out = "Aborted"
            elif kind == "Burst":
                out = "Burst"
            elif entered:
                out = "Enter"
            else:
                out = "Reject"
        sent = {}
        written = {}
        for c in ("A", "B"):
            w = self.br[c].transport.take()
            written[c] = w
            try:
                sent[c] = myrefs_in(w)
            except Exception:
                sent[c] = [("unparsable", None)]
        snap = self.snapshot()
        per = None
        if kind == "Burst":
            try:
                ans = answers_in(written[ev[1]])
            except Exception:
                ans = {}
            # attribute the entries (FIFO) to the calls: an answered call was entered; a call answered with an error was either
            # refused, or one of the broker's methods was entered and raised (recognised by its name and arguments)
            ents = [(e, r_) for e, r_ in zip(entered, raw) if not (e[0] == "broker" and e[2] == "doRemoteCall")]
            per, per_entry, j = [], [], 0
            for m in ev[2]:
                a = ans.get(m[0])
                took = None
                if a == "answer":
                    took = j if j < len(ents) else None
                elif a == "error" and j < len(ents) and ents[j][0][0] == "broker" and m[1] == 0:
                    e_, r_ = ents[j]
                    try:
                        same = e_[2] == PREFIX + bytes(m[2]).decode("utf-8")
                    except UnicodeDecodeError:
                        same = False
                    vals = sorted(repr(list(x[1]) if x[0] == "B" else x[1]) for x in m[3] if x[0] in ("I", "B"))
                    if same and len(vals) == len(m[3]) and vals == r_[3]:
                        took = j
                if took is not None:
                    j += 1
                per.append("Enter" if took is not None or a == "answer" else "Reject" if a == "error" else "None")
                per_entry.append(None if took is None else ents[took][0])
            if j != len(ents):
                per_entry.append(("unattributed", ents[j:]))
        return dict(out=out, entered=entered, inst=inst, sent=sent, snap=snap, exc=exc, argv=argv, dials=list(self.dials),
                    answered={c: len(written[c]) > 0 for c in written}, per=per, per_entry=per_entry if kind == "Burst" else None)


def world_description(sysm):
    """what the model needs to know about the application objects, read from the live objects WITHOUT calling
    Referenceable.getInterface (which memoises): attributes, and the RemoteInterface the object's CLASS declares"""
    import zope.interface as zi
    w = {}
    for wid, o in sysm.objs.items():
        if wid in CALLABLES:
            w[wid] = dict(kind="KCallable", attrs=[], iface=None)
        else:
            impl_ = set(zi.implementedBy(type(o)))
            found = [names for n, (ri, names) in sorted(IFACES.items()) if ri in impl_]
            assert len(found) <= 1
            w[wid] = dict(kind="KObj", attrs=sorted(set(dir(o))), iface=(list(found[0]) if found else None))
    return w


# ------------------------------------------------------------------ "unguessable": a peer-side prediction attack on the names
def _untemper(y):
    """inverse of the Mersenne Twister output tempering (MT19937, as in CPython's random module)"""
    y ^= y >> 18
    y ^= (y << 15) & 0xefc60000
    t = y
    for _ in range(5):
        t = y ^ ((t << 7) & 0x9d2c5680)
    y = t & 0xffffffff
    t = y
    for _ in range(3):
        t = y ^ (t >> 11)
    return t & 0xffffffff


# how 20 name bytes may have been cut from consecutive 32-bit outputs: name bytes -> the 5 words in the order they were drawn,
# and back.  (getrandbits(160) fills the least significant word first; randbytes(20) is its little-endian image; five
# getrandbits(32) may have been concatenated most-significant-first in either byte order.)
def _w_bits_be(b):
    v = int.from_bytes(b, "big")
    return [(v >> (32 * k)) & 0xffffffff for k in range(5)]


def _w_bits_le(b):
    v = int.from_bytes(b, "little")
    return [(v >> (32 * k)) & 0xffffffff for k in range(5)]


LAYOUTS = {
    "getrandbits(160) big-endian": (_w_bits_be, lambda ws: sum(w << (32 * k) for k, w in enumerate(ws)).to_bytes(20, "big")),
    "randbytes(20)": (_w_bits_le, lambda ws: sum(w << (32 * k) for k, w in enumerate(ws)).to_bytes(20, "little")),
    "5 x getrandbits(32) big-endian words": (lambda b: [int.from_bytes(b[4 * k:4 * k + 4], "big") for k in range(5)],
                                             lambda ws: b"".join(w.to_bytes(4, "big") for w in ws)),
    "5 x getrandbits(32) little-endian words": (lambda b: [int.from_bytes(b[4 * k:4 * k + 4], "little") for k in range(5)],
                                                lambda ws: b"".join(w.to_bytes(4, "little") for w in ws)),
}


def predict_next_name(names):
    """what a peer can do with the names it was legitimately given: treat them as consecutive outputs of the stdlib
    Mersenne Twister under each layout, recover the 624-word state from the first 624 words, validate it on the remaining
    observed words and, if it validates, compute the name the generator will produce next.
    -> (predicted name or None, layout, number of validated words)"""
    import base64, random
    raw = []
    for n in names:
        try:
            b = base64.b32decode(n.upper() + "=" * (-len(n) % 8))
        except Exception:
            return None, "names are not base32", 0
        if len(b) != 20:
            return None, "names are not 160 bits", 0
        raw.append(b)
    best = (None, "no layout reproduces the observed names", 0)
    for lname, (to_words, from_words) in LAYOUTS.items():
        words = [w for b in raw for w in to_words(b)]
        if len(words) < 624 + 5:
            return None, "too few names observed", 0
        g = random.Random()
        g.setstate((3, tuple(_untemper(w) for w in words[:624]) + (624,), None))
        rest = words[624:]
        got = [g.getrandbits(32) for _ in rest]
        if got == rest:
            nxt = [g.getrandbits(32) for _ in range(5)]
            name = base64.b32encode(from_words(nxt)).decode().lower().rstrip("=")
            return name, lname, len(rest)
    return best


class Ticket(Referenceable):
    def remote_ping(self):
        return "pong"


class Vault(Referenceable):
    def __init__(self, log):
        self.log = log

    def remote_open(self):
        self.log.append("opened")
        return "the crown jewels"


def swissnum_attack(n_names=126):
    """One real Tub with its REAL name generator.  The peer (raw tokens) is legitimately sent n_names fresh Referenceables and
    reads their names off the my-reference sequences; then the application registers a Vault and tells nobody; the peer
    predicts the Vault's name and asks for it.  -> dict(predicted, layout, validated, vault_name, resolved, opened, names)"""
    global _pem
    E.reset_clock()
    if _pem is None:
        _pem = pems_sorted(1)[0][1]
    net = Net()
    tub = make_tub(net, "s", _pem)
    b = broker.Broker(TubRef("peer-X"))
    b.setTub(tub)
    t = Sink()
    t.b = b
    b.transport = t
    b.connectionMade()
    rref = b.getTrackerForYourReference(1, None).getRef()
    log = []
    names = []
    tickets = []
    out = dict(predicted=None, layout=None, validated=0, resolved=False, opened=False, names=0)
    with quiet():
        try:
            for i in range(n_names):
                tk = Ticket()
                tickets.append(tk)
                rref.callRemote("take", tk).addErrback(lambda f: None)
                E.turn()
                for clid, url in myrefs_in(t.take()):
                    if url:
                        names.append(url.split("/", 3)[3])
            out["names"] = len(names)
            vault = Vault(log)
            furl = tub.registerReference(vault)            # told to nobody
            out["vault_name_prefix"] = furl.split("/", 3)[3][:4]
            predicted, layout, validated = predict_next_name(names)
            out.update(predicted=predicted, layout=layout, validated=validated)
            guess = predicted
            if guess is None and names:
                # no state could be recovered: still send the peer's best effort (the last name seen, incremented) so that the
                # evidence shows a failing lookup rather than no attempt
                guess = names[-1][:-1] + ("a" if names[-1][-1] != "a" else "b")
            out["guess"] = guess
            cnt = [0]
            before = set(b.myReferenceByCLID)
            b.dataReceived(enc_call(cnt, 1, 0, list(b"getReferenceByName"), [["B", list(guess.encode())]]))
            E.turn()
            t.take()
            new = set(b.myReferenceByCLID) - before
            if new:
                out["resolved"] = True
                clid = sorted(new)[0]
                b.dataReceived(enc_call(cnt, 2, clid, list(b"open"), []))
                E.turn()
                out["opened"] = bool(log)
        finally:
            try:
                if not b.disconnected:
                    b.transport.loseConnection()
                tub.stopService()
                E.turn()
            except Exception:
                pass
    return out


def swissnum_follows_stdlib_prng():
    """white-box companion: does the Tub's name depend on the state of the process-wide `random` generator?  Two names drawn
    from the same saved state are equal only if they are a function of that state."""
    import random
    from foolscap import pb
    st = random.getstate()
    try:
        a = pb.generateSwissnumber(160)
        random.setstate(st)
        b_ = pb.generateSwissnumber(160)
    finally:
        random.setstate(st)
    return a == b_, a
