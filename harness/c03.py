"""C03 -- every callRemote resolves exactly once, whatever happens to the connection."""
import glob, json, os
from harness import common
from harness.common import coq_list

REQ = ["Verif.lib.PyLite", "Verif.gen.RequestsGen", "Verif.lib.Requests"]

MIXES = [
    ["ok", "boom", "late", "unsendable_arg", "badresult", "oneway", "big"],          # the design-round probe
    ["ok", "result_violation", "local_reject", "typed_ok", "nomethod"],
    ["stall", "ok", "oneway", "boom"],
    ["late", "late", "ok"],
    ["oneway_unsendable", "ok", "unsendable_arg", "ok"],
    ["big", "badresult", "boom", "oneway", "late", "result_violation"],
    ["mixed_dict", "ok"],
    ["obj_tuple_short", "ok", "obj_bytes_short", "obj_list_short", "typed_ok"],   # whole-object result checks
]


def run(ctx):
    # Cyclic garbage collection can run a failed Deferred's __del__ at any allocation; that logs through twisted's log,
    # foolscap's log bridge answers with eventually() -> Clock.callLater, and if this happens while task.Clock is sorting
    # its call list the virtual clock raises "list modified during sort".  Collect only at safe points instead.
    import gc
    gc.disable()
    try:
        run_(ctx)
    finally:
        gc.enable()
        gc.collect()


def safe_point(counter=[0]):
    import gc
    counter[0] += 1
    if counter[0] % 200 == 0:
        gc.collect()


def run_(ctx):
    ctx.rule = ("a case = (call mix, bytes delivered caller->callee before the cut, bytes delivered callee->caller, chunk "
                "sizes or split schedules, way the connection ends, reason class of the ending, other callables / a second connection using the "
                "shared eventual queue, what happens to stalled/late work afterwards) on two real Brokers, or a "
                "the same with traffic in the other direction (the peer's one-way / two-way / late / failing calls on an object of "
                "the calling Broker: never delivered / all but 3 bytes / completely parsed in the reactor turn in which the "
                "connection ends / run / a run batch plus a queued batch), or the connection ended by foolscap's own "
                "inactivity timer (connectionTimedOut called directly, or disconnectTimeout [+ keepaliveTimeout] set and the "
                "virtual clock run past it while the peer is silent: then DeadReferenceError whatever reason foolscap picks), or any "
                "ending with keepaliveTimeout / disconnectTimeout (each alone, both) set on the calling Broker and the virtual clock "
                "advanced before the ending and between its two steps (garbage/shutdown/timeout ... connectionLost), or a "
                "random abstract op sequence executed through the real callRemote/getRequest/complete/fail/finish, or three real "
                "Tubs with a call whose argument is a third-party reference followed by 0..5 calls that arrive while it waits; "
                "distinct = distinct case tuple; non-trivial = at least one two-way request was in the table when the "
                "connection ended, or the op sequence fired at least one Deferred")
    ctx.assumptions = [
        "Twisted's Deferred and maybeDeferred behave as documented (a callback added to a fired Deferred runs at once); the "
        "eventual-send queue is modelled from the translated shape of eventual.py (FIFO append, batch snapshot, per-event "
        "try/except); entries queued by foolscap itself for other purposes (doNextCall, tub bookkeeping) are not in the model",
        "logging inside PendingRequest.fail/complete (PLog) has no effect on the request and does not raise",
        "the receive path from bytes to complete()/fail() IS modelled (lib/AnswerRecv.v over the generic tokenizer lib/Recv.v) and "
        "compared with the real Broker on the recorded byte streams; what the result constraint and the unslicers BELOW an "
        "answer / error decide for a token (accept / Violation / BananaError / result not ready) is an oracle: the theorems hold "
        "for every oracle, the correspondence instantiates it with the taster tables read from the real constraint objects and "
        "'children accept what a well-behaved peer sends' (garbage injected in the middle of a token is therefore outside the "
        "byte correspondence; it stays in the direct oracle); the incoming vocabulary table is constant after setup "
        "(set-vocab/add-vocab sequences are treated like any other top-level sequence); top-level sequences other than answer/"
        "error (inbound calls) are modelled only as far as nesting, Violations propagating to the root and fatal errors go",
        "the send side (RootSlicer.sendQueue, a slicer paused on a Deferred, sendFailed) is not a separate machine in Coq: its "
        "effect on a request is the operation Fail h o / nothing, which the theorems allow at any point of any history; the "
        "direct oracle exercises it (stalled / failing streaming slicer with calls queued behind it, lost in that window)",
        "transports are in-memory; TLS and real sockets are not involved",
        "both correspondences compare WHAT IS DELIVERED to every Deferred by class (c03_impl.delivered: callback / the remote "
        "failure = CopiedFailure or RemoteException / local Violation / DeadReferenceError / anything else) with the model's "
        "outcome; OViolation, OSendFail and OLocal are all a foolscap.tokens.Violation on the real Deferred and differ only by "
        "the path that produced them, which is what the recorded operation label says (a local Violation reported by either "
        "unslicer after its request id was read is AnswerViolation rid, also inside an error sequence)",
    ]
    ok, log = ctx.coq_build(["props/C03.vo"])
    before = len(ctx.failures)
    from harness import c03_impl as impl
    traces = []          # (key, ops, obs, replay)
    corpus(ctx, impl, traces)
    edge_streams(ctx, impl, traces)
    wire_sweep(ctx, impl, traces)
    api_sequences(ctx, impl, traces)
    tub_level(ctx, impl)
    model_ok = ok
    if not ok:
        model_ok, _ = ctx.coq_build(["lib/Requests.vo"])
    if model_ok:
        correspond(ctx, traces)
        bytes_ok = ok or ctx.coq_build(["lib/AnswerRecv.vo"])[0]
        if bytes_ok:
            correspond_bytes(ctx)
        else:
            ctx.note("byte-level model does not build: byte correspondence skipped")
    else:
        ctx.note("model does not build: correspondence skipped")
    if not ok and len(ctx.failures) == before:
        ctx.fail("proof-broken", "theorem closure props/C03.vo no longer builds against the regenerated gen/RequestsGen.v:\n"
                 + log[-2500:], replay=dict(log=log[-6000:]), has_input=False)
    elif not ok:
        ctx.note("proof broken AND a failing input was found (reported above)")


# ------------------------------------------------------------------ direct oracle on real Brokers
def one(ctx, impl, traces, tag, cfg, counter=[0]):
    safe_point()
    # the byte-level history is recorded for every full run / corpus entry and for every k-th other scenario
    counter[0] += 1
    impl.RECORD_JOINT = tag in ("full", "corpus") or counter[0] % ctx.n(6, 12) == 0
    try:
        with impl.quiet():
            r = impl.scenario(cfg["calls"], cfg["cutA"], cfg["cutB"], cfg.get("chunkA", 7), cfg.get("chunkB", 7),
                              cfg.get("loss", "lost"), cfg.get("stall", "after"), tuple(cfg.get("after", ("ok", "oneway"))),
                              cfg.get("reason"), tuple(cfg["probe"]) if cfg.get("probe") else None,
                              tuple(tuple(b) for b in cfg.get("bystanders", ())), cfg.get("other"), cfg.get("reverse"), cfg.get("timers"))
    except Exception as e:
        import traceback
        ctx.fail("oracle/exception-escaped", "an exception escaped dataReceived/connectionLost/callRemote: %r on %r" % (e, cfg),
                 replay=dict(cfg=cfg, tb=traceback.format_exc()))
        return None
    bad = impl.judge(r)
    if not bad and (tag == "full" or (tag == "corpus" and cfg["cutA"] >= 10 ** 9 and cfg["cutB"] >= 10 ** 9)):
        bad = impl.judge_full(cfg["calls"], r)
    if not bad and cfg.get("probe") and cfg.get("whole_reference", True):
        bad = chunk_independent(impl, cfg, r)
    if bad:
        ctx.fail("oracle/" + bad[0], "%s; scenario %r" % (bad[1], cfg), replay=dict(cfg=cfg, fires=r["fires"], waiting=r["waiting"]))
    drop = [e for e in r["errors"] if e.startswith("protocol violation")]
    if drop:
        ctx.fail("oracle/protocol-violation-not-dropped", "%s; scenario %r" % (drop[0], cfg), replay=dict(cfg=cfg))
    if len(drop) < len(r["errors"]):
        ctx.fail("harness/recorder", "recorder inconsistency: %r on %r" % ([e for e in r["errors"] if e not in drop][:3], cfg),
                 replay=dict(cfg=cfg), has_input=False)
    # non-trivial: some request was pending when the connection ended
    pend = False
    for op, snap in r["trace"]:
        if op[0] == "Finish":
            pend = pend or bool(snap[3]) or any(not f for f in snap[1])
            break
    ctx.case([tag, cfg], nontrivial=pend)
    ctx.hist("loss_mode", cfg.get("loss", "lost"))
    for op, _ in r["trace"]:
        ctx.hist("op_kind", op[0])
    for f in r["fires"]:
        ctx.hist("outcome", impl.ONAME.get(f[0], "?") if f else "not-fired(one-way)")
    add_trace(traces, r["trace"], cfg)
    if any(it[0] == "data" for it in r["joint"]) and not (cfg.get("loss") == "garbage-then-lost" and 0 < cfg["cutB"] < r["totalB"]):
        # (garbage in the middle of a token is completed by the garbage: what the unslicers below the answer make of that
        # is outside the concrete oracle of the correspondence)
        JOINT.append((r["joint"], r["tasters"], r["max_index"], r["vocab"], cfg, r["registries"]))
    return r


JOINT = []


_WHOLE = {}


def chunk_independent(impl, cfg, r):
    """what every caller has seen while the connection is still up, after ALL bytes of both directions were delivered (and a
    further call was made and answered), must not depend on how the byte streams were cut into packets: compare with the
    same history delivered in one piece per direction"""
    if not r["delivered_all"]:
        return None
    key = json.dumps([cfg["calls"], cfg.get("stall", "after"), cfg["probe"]])
    if key not in _WHOLE:
        with impl.quiet():
            w = impl.scenario(cfg["calls"], 10 ** 9, 10 ** 9, 10 ** 9, 10 ** 9, "lost", cfg.get("stall", "after"), (), None,
                              tuple(cfg["probe"]))
        _WHOLE[key] = (w["pre_fires"], w["pre_types"])
    wf, wt = _WHOLE[key]
    if (r["pre_fires"], r["pre_types"]) != (wf, wt):
        diff = [i for i in range(len(wf)) if i >= len(r["pre_fires"]) or (r["pre_fires"][i], r["pre_types"][i]) != (wf[i], wt[i])]
        h = diff[0]
        return ("chunking-changes-outcome",
                "with the connection still up and every byte delivered, call #%d (%s) has outcome %r when the streams arrive in the "
                "chunks chunkA=%r chunkB=%r, but %r when each direction arrives in one piece (calls that differ: %r)"
                % (h, (list(cfg["calls"]) + list(cfg["probe"]))[h], show(r["pre_fires"], r["pre_types"], h),
                   cfg.get("chunkA"), cfg.get("chunkB"), show(wf, wt, h), diff))
    return None


def show(fires, types, h):
    if h >= len(fires) or not fires[h]:
        return "not fired"
    return "+".join("callback" if c == 1 else "errback(%s)" % t for c, t in zip(fires[h], types[h]))


def add_trace(traces, trace, cfg):
    ops = tuple(tuple(op) for op, _ in trace)
    obs = tuple(flat(s) for _, s in trace)
    traces.append(((ops, obs), cfg))


def flat(s):
    table, fires, disc, evq, raised = s
    out = list(table) + [-1]
    for f in fires:
        out += list(f) + [-2]
    out += [-1, 1 if disc else 0] + list(evq) + [-1, raised]
    return tuple(out)


def edge_streams(ctx, impl, traces):
    """handcrafted answer streams that reach the rare clauses of the receive path; direct oracle (exactly once after the loss,
    nothing escapes dataReceived) and always part of the byte correspondence"""
    for name in sorted(impl.EDGE_STREAMS):
        for chunk in ([10 ** 9, 1] if ctx.tier != "thorough" else [10 ** 9, 1, 2, 3, 5]):
            cfg = dict(edge_stream=name, chunk=chunk, cutA=10 ** 9, cutB=10 ** 9)
            impl.RECORD_JOINT = True
            try:
                with impl.quiet():
                    r = impl.edge_scenario(name, chunk)
            except Exception as e:
                import traceback
                ctx.fail("oracle/exception-escaped", "an exception escaped dataReceived/connectionLost on the handcrafted stream %r: %r"
                         % (cfg, e), replay=dict(cfg=cfg, bytes=bytes(impl.EDGE_STREAMS[name]).hex(), tb=traceback.format_exc()))
                continue
            bad = impl.judge(r)
            if bad:
                ctx.fail("oracle/" + bad[0], "%s; handcrafted answer stream %r = %s" % (bad[1], cfg, bytes(impl.EDGE_STREAMS[name]).hex()),
                         replay=dict(cfg=cfg, bytes=bytes(impl.EDGE_STREAMS[name]).hex(), fires=r["fires"]))
            if r["errors"]:
                ctx.fail("harness/recorder", "recorder inconsistency: %r on %r" % (r["errors"][:3], cfg), replay=dict(cfg=cfg), has_input=False)
            ctx.case(["edge", name, chunk], nontrivial=True)
            ctx.hist("edge_stream", name)
            add_trace(traces, r["trace"], cfg)
            JOINT.append((r["joint"], r["tasters"], r["max_index"], r["vocab"], cfg, r["registries"]))


def corpus(ctx, impl, traces):
    d = os.path.join(common.VERIF, "corpus", "C03")
    for p in sorted(glob.glob(os.path.join(d, "*.json"))):
        cfg = json.load(open(p))
        cfg.pop("comment", None)
        one(ctx, impl, traces, "corpus", cfg)
        ctx.hist("corpus", os.path.basename(p))


def offsets(ctx, total, marks, k):
    """token boundaries +-1 and a seeded sample of the rest"""
    s = {0, total}
    near = set()
    for m in marks:
        for d in (-1, 0, 1):
            if 0 <= m + d <= total:
                near.add(m + d)
    near = sorted(near)
    if len(near) > k:
        near = ctx.rng.sample(near, k)
    s.update(near)
    for i in range(k // 2):
        s.add(ctx.rng.randint(0, total))
    return sorted(s)


def wire_sweep(ctx, impl, traces):
    thorough = ctx.tier == "thorough"
    first = True
    for mi, mix in enumerate(MIXES):
        for stall in (["after", "before", "fail-before", "fail-after"] if "stall" in mix else ["after"]):
            base = dict(calls=mix, cutA=10 ** 9, cutB=10 ** 9, stall=stall)
            r = one(ctx, impl, traces, "full", base)
            if r is None:
                continue
            tA, tB = r["totalA"], r["totalB"]
            if first:
                ctx.sample(dict(kind="full-run", cfg=base, bytes_caller_to_callee=tA, bytes_callee_to_caller=tB,
                                trace=[list(op) for op, _ in r["trace"]], fires=r["fires"]))
                first = False
            if thorough and mi < 2:
                # exhaustive: every byte offset of both directions for the probe mix and the schema mix
                cutsA = list(range(tA + 1))
                cutsB_all = list(range(tB + 1))
            elif thorough:
                cutsA = offsets(ctx, tA, r["marksA"], 400)
                cutsB_all = offsets(ctx, tB, r["marksB"], 400)
            else:
                cutsA = offsets(ctx, tA, r["marksA"], ctx.n(80, 0))
                cutsB_all = offsets(ctx, tB, r["marksB"], ctx.n(60, 0))
            # (1) cut the caller->callee direction everywhere, callee->caller at a few positions
            for cutA in cutsA:
                for cutB in ([0, tB] if not thorough else [0, tB // 3, tB]):
                    cfg = dict(base, cutA=cutA, cutB=cutB, loss=ctx.rng.choice(impl.LOSS_MODES),
                               chunkA=ctx.rng.choice([1, 3, 7, 50]), chunkB=ctx.rng.choice([2, 3, 7, 50]),
                               reason=ctx.rng.choice(REASON_NAMES))
                    one(ctx, impl, traces, "cutA", cfg)
            # (2) everything sent, answers cut everywhere
            for cutB in cutsB_all:
                cfg = dict(base, cutB=cutB, loss=ctx.rng.choice(impl.LOSS_MODES),
                           chunkA=ctx.rng.choice([1, 7, 50]), chunkB=ctx.rng.choice([1, 2, 7, 50, 50]),
                           reason=ctx.rng.choice(REASON_NAMES))
                one(ctx, impl, traces, "cutB", cfg)
            # (3) every way of ending the connection at a few positions
            for loss in impl.LOSS_MODES:
                for cutA, cutB in ((tA, 0), (tA, tB // 2), (tA // 2, tB // 4), (tA, tB)):
                    cfg = dict(base, cutA=cutA, cutB=cutB, loss=loss, chunkA=5, chunkB=5)
                    one(ctx, impl, traces, "loss", cfg)
    ctx.sample(dict(kind="cut", cfg=cfg))
    reason_sweep(ctx, impl, traces)
    chunk_sweep(ctx, impl, traces)
    queue_sweep(ctx, impl, traces)
    reverse_sweep(ctx, impl, traces)
    timer_sweep(ctx, impl, traces)


# Tub options keepaliveTimeout / disconnectTimeout of the calling Broker: each alone, both, either order of magnitude
TIMER_OPTIONS = [(10, None), (None, 30), (10, 30), (20, 15)]
# (pre, mid): seconds the virtual clock advances before the ending begins / between its two steps (how long the transport
# takes to close after foolscap asked for it)
TIMER_FIXED = [([], [11, 11]), ([11], [0.5, 25]), ([3, 3], [40]), ([35, 35], [])]
TIMER_AMOUNTS = [0, 0.5, 3, 9.5, 11, 16, 21, 29, 31, 45, 70]
# fixed witnesses (r8s1: keepalive timer fires while the connection is abandoned, then the transport reports the loss)
TIMER_WITNESSES = [
    dict(calls=["late"], cutA=10 ** 9, cutB=0, loss="garbage-then-lost", chunkA=50, chunkB=50,
         timers=dict(ka=10, dt=None, pre=[], mid=[11, 11])),
    dict(calls=["late", "ok"], cutA=0, cutB=0, loss="garbage-then-lost", chunkA=50, chunkB=50, reason="ConnectionLost",
         timers=dict(ka=10, dt=None, pre=[11], mid=[11])),
    dict(calls=["late"], cutA=10 ** 9, cutB=0, loss="shutdown-then-lost", chunkA=50, chunkB=50,
         timers=dict(ka=10, dt=None, pre=[], mid=[11, 11])),
    dict(calls=["late"], cutA=10 ** 9, cutB=0, loss="lost", chunkA=50, chunkB=50, timers=dict(ka=10, dt=30, pre=[11, 11], mid=[])),
]


def timer_sweep(ctx, impl, traces):
    """loss histories with the inactivity options set on the calling Broker (keepaliveTimeout alone, disconnectTimeout alone,
    both) and time passing between the events: before the ending begins, and between the two steps of every two-step ending
    (garbage that abandons the connection ... connectionLost; shutdown ... connectionLost; connectionTimedOut ...
    connectionLost; the two reports of lost-twice), so that foolscap's own timers fire while the Broker is in every
    intermediate state.  The rule is the property's: nothing escapes, after the loss no request is pending, each fired once.
    Quick: the fixed witnesses, every (options, ending) pair with a rotating fixed time pattern, a seeded sample of the rest;
    thorough: the full fixed product x states of the outstanding calls, and more samples"""
    thorough = ctx.tier == "thorough"
    losses = [l for l in impl.LOSS_MODES if l not in ("silence", "silence-ping")]
    for cfg in TIMER_WITNESSES:
        one(ctx, impl, traces, "timers", dict(cfg))
        ctx.hist("timer_options", "ka=%r dt=%r" % (cfg["timers"]["ka"], cfg["timers"]["dt"]))
    n = 0
    cuts = [(10 ** 9, 0), (0, 0), (10 ** 9, 10 ** 9)]
    for ka, dt in TIMER_OPTIONS:
        for loss in losses:
            for pi, (pre, mid) in enumerate(TIMER_FIXED):
                n += 1
                if not thorough and pi != n % len(TIMER_FIXED) and pi != 0:
                    continue
                for cut in (cuts if thorough else [cuts[n % 2]]):
                    cfg = dict(calls=["late", "ok"] if n % 3 else ["late"], cutA=cut[0], cutB=cut[1], loss=loss, chunkA=50, chunkB=50,
                               timers=dict(ka=ka, dt=dt, pre=list(pre), mid=list(mid)))
                    one(ctx, impl, traces, "timers", cfg)
                    ctx.hist("timer_options", "ka=%r dt=%r" % (ka, dt))
    for i in range(ctx.n(60, 1500)):
        ka, dt = ctx.rng.choice(TIMER_OPTIONS)
        cut = ctx.rng.choice(cuts)
        cfg = dict(calls=ctx.rng.choice([["late", "ok"], ["late"], ["late", "ok", "boom", "oneway", "late"], []]),
                   cutA=cut[0], cutB=cut[1], loss=ctx.rng.choice(losses), chunkA=50, chunkB=50, reason=ctx.rng.choice(REASON_NAMES),
                   timers=dict(ka=ka, dt=dt, pre=[ctx.rng.choice(TIMER_AMOUNTS) for _ in range(ctx.rng.randint(0, 3))],
                               mid=[ctx.rng.choice(TIMER_AMOUNTS) for _ in range(ctx.rng.randint(0, 3))]))
        one(ctx, impl, traces, "timers", cfg)
        ctx.hist("timer_options", "ka=%r dt=%r" % (ka, dt))
    ctx.sample(dict(kind="timers", cfg=cfg))


REVERSE_CALLS = [["oneway"], ["ok"], ["oneway", "ok", "late", "oneway"], ["late", "boom"], ["big", "oneway", "nomethod"],
                 ["oneway_unsendable", "oneway"]]


def reverse_sweep(ctx, impl, traces):
    """the calling Broker is a callee too: the peer's calls (one-way, two-way, late, failing) on one of ITS objects, in every
    state when the connection ends -- never delivered / all but 3 bytes delivered / completely parsed in the very reactor
    turn in which the connection ends (waiting in inboundDeliveryQueue) / run (late ones hanging) / a run batch plus a
    queued batch -- x 0..2 own calls outstanding x every way of ending the connection.  Quick: every (peer calls, state)
    pair with "lost" and one rotating other ending (fixed, not drawn); thorough: the full product and cuts of both directions"""
    thorough = ctx.tier == "thorough"
    mixes = [["late", "ok"], ["late"], []] if thorough else [["late", "ok"], ["late"]]
    n = 0
    for mix in mixes:
        for rc in REVERSE_CALLS:
            for deliver in impl.REVERSE_DELIVER:
                n += 1
                losses = impl.LOSS_MODES if thorough else ["lost", impl.LOSS_MODES[1 + n % (len(impl.LOSS_MODES) - 1)]]
                for loss in losses:
                    for cut in ([(10 ** 9, 0), (10 ** 9, 10 ** 9), (0, 0), (30, 0), (10 ** 9, 20)] if thorough else [(10 ** 9, 0)]):
                        cfg = dict(calls=mix, cutA=cut[0], cutB=cut[1], loss=loss, chunkA=50, chunkB=50,
                                   reverse=dict(calls=rc, deliver=deliver))
                        one(ctx, impl, traces, "reverse", cfg)
                        ctx.hist("reverse_state", deliver)
    ctx.sample(dict(kind="reverse", cfg=cfg))


def queue_sweep(ctx, impl, traces):
    """the eventual-send queue is shared by everything in the process: other callables -- raising or not -- queued just
    before / after the loss or as notifyOnDisconnect handlers, and a second connection (with its own outstanding calls and
    handler) lost in the same reactor turn before or after the recorded one"""
    mixes = [["late", "ok"], ["late", "ok", "boom", "oneway", "late"], ["late"], []]
    kinds = ["raise", "ok"]
    n = 0
    for mix in mixes:
        for loss in ("lost", "shutdown-then-lost", "lost-twice", "shutdown-other-then-data"):
            for cut in ((10 ** 9, 0), (0, 0), (10 ** 9, 10 ** 9)):
                combos = []
                for k in kinds:
                    combos.append(dict(bystanders=[["before-loss", k]]))
                    combos.append(dict(bystanders=[["watcher", k], ["after-loss", "ok"]]))
                    for order in ("first", "second"):
                        combos.append(dict(other=dict(calls=["late", "ok"], watcher=k, order=order)))
                        combos.append(dict(other=dict(calls=["late"], watcher=k, order=order), bystanders=[["watcher", k]]))
                combos.append(dict(bystanders=[["before-loss", "raise"], ["before-loss", "ok"], ["watcher", "raise"],
                                               ["after-loss", "raise"]], other=dict(calls=["late", "ok"], watcher="raise", order="first")))
                if ctx.tier != "thorough":
                    combos = ctx.rng.sample(combos, 5)
                for extra in combos:
                    cfg = dict(calls=mix, cutA=cut[0], cutB=cut[1], loss=loss, chunkA=50, chunkB=50, **extra)
                    one(ctx, impl, traces, "queue", cfg)
                    n += 1
                    ctx.hist("queue_bystander", ",".join(sorted(set([b[1] + "@" + b[0] for b in extra.get("bystanders", [])] +
                                                                    (["other-connection-" + extra["other"]["watcher"]] if extra.get("other") else [])))))
    ctx.sample(dict(kind="queue", cfg=cfg))


CHUNK_MIXES = [
    ["bytes_rejected", "ok", "float_rejected", "typed_ok", "longint_rejected", "arg_rejected", "big", "list_rejected", "ok"],
    ["bytes_rejected", "ok", "late", "typed_ok"],
    ["arg_rejected", "ok", "arg_rejected", "big", "oneway", "ok"],
    ["result_violation", "typed_ok", "bytes_rejected", "boom", "nomethod", "ok"],
    ["badresult", "ok", "unsendable_arg", "big", "longint_rejected", "float_rejected", "ok"],
]


def chunk_sweep(ctx, impl, traces):
    """chunking independence while the connection is up: every mix contains tokens the receiver rejects (STRING / FLOAT /
    LONGINT bodies, whole sequences; on the caller's and on the callee's side) followed by ordinary calls; both directions are
    cut into two pieces at every offset (thorough) / at token boundaries -3..+3 and a sample (quick), into three pieces, and into
    fixed sizes; afterwards a probe call must still be answered"""
    thorough = ctx.tier == "thorough"
    for mix in CHUNK_MIXES:
        base = dict(calls=mix, cutA=10 ** 9, cutB=10 ** 9, probe=["ok"], after=[], loss="lost")
        r0 = one(ctx, impl, traces, "full", dict(base, chunkA=10 ** 9, chunkB=10 ** 9))
        if r0 is None:
            continue
        tA, tB = r0["totalA"], r0["totalB"]
        for d, tot, marks in (("chunkA", tA, r0["marksA"]), ("chunkB", tB, r0["marksB"])):
            other = "chunkB" if d == "chunkA" else "chunkA"
            if thorough:
                pos = list(range(1, tot))
            else:
                near = sorted({m + k for m in marks for k in (-3, -2, -1, 0, 1, 2, 3) if 0 < m + k < tot})
                pos = sorted(set(ctx.rng.sample(near, min(len(near), 70)) + [ctx.rng.randint(1, tot - 1) for _ in range(25)]))
            for p in pos:
                one(ctx, impl, traces, "chunk2", dict(base, **{d: [p], other: 10 ** 9}))
                ctx.hist("chunking", "two pieces")
            for i in range(ctx.n(25, 300)):
                a, b = sorted(ctx.rng.sample(range(1, tot), 2))
                one(ctx, impl, traces, "chunk3", dict(base, **{d: [a, b - a], other: ctx.rng.choice([10 ** 9, 5, 17])}))
                ctx.hist("chunking", "three pieces")
            for size in (1, 2, 3, 5, 11, 64):
                one(ctx, impl, traces, "chunkN", dict(base, **{d: size, other: ctx.rng.choice([10 ** 9, 1, 7])}))
                ctx.hist("chunking", "fixed size")
    ctx.sample(dict(kind="chunking", cfg=dict(base, chunkB=[17])))


REASON_MIXES = [[], ["late"], ["ok"], ["late", "ok", "boom", "oneway", "late"], ["ok", "result_violation", "late", "big"],
                ["stall", "ok", "late"]]


def reason_sweep(ctx, impl, traces):
    """every reason a connection can end with (each class named by LOST_CONNECTION_ERRORS, every stock and ad-hoc proper
    subclass, unrelated exceptions) x 0..n calls outstanding in each state: written but not delivered (cutA=0), delivered and
    hanging at the callee (cutB=0), answer in flight (cut inside the answers), everything answered but the late ones"""
    for mix in REASON_MIXES:
        base = dict(calls=mix, cutA=10 ** 9, cutB=10 ** 9)
        with impl.quiet():
            r0 = impl.scenario(mix, 10 ** 9, 10 ** 9)
        tA, tB = r0["totalA"], r0["totalB"]
        states = [("unsent", 0, 0), ("hanging", tA, 0), ("in-flight", tA, max(0, tB // 2 + 1)), ("half-sent", tA // 2 + 1, tB),
                  ("answered", tA, tB)]
        for name in REASON_NAMES:
            for st, cutA, cutB in states:
                modes = ["lost", "shutdown-then-lost", "lost-A-only", "lost-twice", "shutdown-other-then-data", "garbage-then-lost"]
                if ctx.tier != "thorough":
                    modes = [modes[0], ctx.rng.choice(modes[1:])]
                for loss in modes:
                    cfg = dict(base, cutA=cutA, cutB=cutB, loss=loss, reason=name, chunkA=9, chunkB=9)
                    one(ctx, impl, traces, "reason", cfg)
                    ctx.hist("reason_kind", impl.REASONS[name][1])
                    ctx.hist("outstanding_state", st)
    ctx.sample(dict(kind="reason", cfg=cfg, family=REASON_NAMES))


# ------------------------------------------------------------------ random abstract op sequences on the real objects
from harness.c03_impl import REASON_NAMES


def gen_ops(rng, n):
    ops = []
    ncalls = 0
    nid = 1
    for i in range(n):
        x = rng.random()
        if x < 0.30 or ncalls == 0:
            k = rng.choice(["KTwoWay", "KTwoWay", "KTwoWay", "KOneWay", "KLocalReject"])
            ops.append(("Call", k))
            ncalls += 1
            nid += 1
        elif x < 0.45:
            ops.append((rng.choice(["Answer", "Error", "AnswerViolation"]), rng.randint(0, nid)))
        elif x < 0.58:
            ops.append(("Complete", rng.randint(0, ncalls - 1)))
        elif x < 0.72:
            ops.append(("Fail", rng.randint(0, ncalls - 1), rng.choice([2, 4, 5, 7])))
        elif x < 0.78:
            ops.append(("Finish", rng.choice(REASON_NAMES)))
        elif x < 0.86:
            ops.append(("Enqueue", rng.random() < 0.6))
        else:
            ops.append(("Turn",))
    return ops


def api_sequences(ctx, impl, traces):
    n = ctx.n(600, 4000)
    for i in range(n):
        ops = gen_ops(ctx.rng, ctx.rng.randint(3, 30))
        safe_point()
        try:
            with impl.quiet():
                r = impl.api_sequence(ops)
        except Exception as e:
            import traceback
            ctx.fail("oracle/api-exception", "exception escaped while executing %r: %r" % (ops, e),
                     replay=dict(ops=ops, tb=traceback.format_exc()))
            continue
        if r["errors"]:
            ctx.fail("harness/recorder", "recorder inconsistency: %r on %r" % (r["errors"][:3], ops), replay=dict(ops=ops), has_input=False)
        bad = impl.judge_reason(r)
        if bad and not any(x["sig"] == "oracle/api-" + bad[0] for x in ctx.failures):
            def wrong(cand):
                try:
                    with impl.quiet():
                        b2 = impl.judge_reason(impl.api_sequence(cand))
                    return bool(b2) and b2[0] == bad[0]
                except Exception:
                    return False
            small = common.shrink_list(ops, wrong)
            with impl.quiet():
                b3 = impl.judge_reason(impl.api_sequence(small))
            ctx.fail("oracle/api-" + bad[0], "%s; op sequence %r" % ((b3 or bad)[1], small), replay=dict(ops=small, unshrunk=ops))
        if any(len(f) > 1 for f in r["fires"]) and not any(x["sig"] == "oracle/api-fired-twice" for x in ctx.failures):
            def twice(cand):
                try:
                    with impl.quiet():
                        rr = impl.api_sequence(cand)
                    return any(len(f) > 1 for f in rr["fires"])
                except Exception:
                    return False
            small = common.shrink_list(ops, twice)
            with impl.quiet():
                rs = impl.api_sequence(small)
            ctx.fail("oracle/api-fired-twice", "a Deferred was fired more than once (fire counts per call %r) under the op sequence %r"
                     % ([len(f) for f in rs["fires"]], small), replay=dict(ops=small, fires=rs["fires"], unshrunk=ops))
        ctx.case(["api", ops], nontrivial=any(r["fires"]))
        ctx.hist("api_len", len(ops) // 5 * 5)
        if r["raised"]:
            ctx.hist("api_keyerror_from_late_complete", "sequences")
        add_trace(traces, r["trace"], dict(api_ops=[list(o) for o in ops]))
    ctx.sample(dict(kind="api-sequence", ops=[list(o) for o in ops], recorded=[list(op) for op, _ in r["trace"]]))


# ------------------------------------------------------------------ real Tubs: shutdown / replacement / logRemoteFailures
def tub_level(ctx, impl):
    impl.tub_level(ctx)


# ------------------------------------------------------------------ correspondence with the Coq model
def coq_op(op, impl):
    k = op[0]
    if k == "Call":
        return "Call %s" % op[1]
    if k in ("Answer", "Error", "AnswerViolation"):
        return "%s %s" % (k, common.coq_Z(op[1]))
    if k == "Complete":
        return "Complete %d%%nat" % op[1]
    if k == "Fail":
        return "Fail %d%%nat %s" % (op[1], impl.ONAME[op[2]])
    if k == "Finish":
        return {"listed": "Finish (RListed %s)", "sub": "Finish (RSubclass %s)", "unrelated": "Finish RUnrelated%s"}[op[1]] % (op[2] or "")
    if k == "Turn":
        return "Turn"
    if k == "Enqueue":
        return "Enqueue %s" % ("true" if op[1] else "false")
    raise KeyError(op)


BODY = """
Local Open Scope Z_scope.
(* the class of what is delivered to the caller (harness/c03_impl.py `delivered`): ocode, except that OViolation / OSendFail /
   OLocal are all a foolscap.tokens.Violation on the real Deferred *)
Definition coarse (o : outcome) : Z :=
  match o with OResult => 1 | ORemoteError => 2 | OViolation | OSendFail | OLocal => 3 | ODeadRef => 4 | OOther => 7 end.
Definition flat (s : st) : list Z :=
  map fst (table s) ++ [-1] ++ flat_map (fun c => map coarse (c_fires c) ++ [-2]) (calls s)
  ++ [-1; if disconnected s then 1 else 0] ++ map qcode (evq s) ++ [-1; Z.of_nat (raised s)].
Fixpoint check (s : st) (ops : list op) (obs : list (list Z)) (i : Z) {struct ops} : Z :=
  match ops, obs with
  | x :: ops', o :: obs' => let s' := step s x in if list_eqb (flat s') o then check s' ops' obs' (i + 1) else i
  | _, _ => -1
  end.
"""


def correspond(ctx, traces):
    from harness import c03_impl as impl
    uniq = {}
    for key, cfg in traces:
        ctx.traces += 1
        if key not in uniq:
            uniq[key] = cfg
    keys = list(uniq)
    ctx.extra["correspondence_traces"] = len(traces)
    ctx.extra["correspondence_distinct_abstract_traces"] = len(keys)
    ctx.extra["correspondence_steps"] = sum(len(k[0]) for k in keys)
    nbad = 0
    shard = 250
    for si in range(0, len(keys), shard):
        part = keys[si:si + shard]
        rows = []
        for ops, obs in part:
            rows.append("(%s, %s)" % (coq_list([coq_op(o, impl) for o in ops]),
                                      coq_list(["[" + ";".join(str(x) for x in o) + "]" for o in obs])))
        body = BODY + "Definition traces : list (list op * list (list Z)) := " + coq_list(rows) + \
            ".\nEval vm_compute in map (fun t => check init (fst t) (snd t) 0) traces.\n"
        try:
            (vals,) = ctx.coq_eval("C03_traces_%d" % (si // shard), body, requires=REQ)
        except common.CoqEvalError as e:
            ctx.fail("correspondence-broken", "the model could not be evaluated: " + str(e)[-1500:], has_input=False)
            return
        for (ops, obs), v in zip(part, vals):
            if v != -1:
                nbad += 1
                if nbad <= 3:
                    ctx.fail("correspondence/request-table", "model and implementation disagree at step %d (%r) of the trace "
                             "recorded for %r: implementation snapshot %r" % (v, ops[v], uniq[(ops, obs)], obs[v]),
                             replay=dict(cfg=uniq[(ops, obs)], ops=[list(o) for o in ops], step=v, impl_snapshot=list(obs[v])),
                             has_input=False)
    ctx.extra["correspondence_disagreements"] = nbad


# ------------------------------------------------------------------ correspondence of the byte-level receive model
BODY_BYTES = """
Require Import Coq.Numbers.Cyclic.Int63.Uint63.
Local Open Scope Z_scope.
(* bytes are written as 7-byte big-endian words (primitive integers parse fast), decoded with primitive operations *)
Definition bitZ (b : int) (k : int) (v : Z) : Z := if Uint63.eqb (Uint63.land (Uint63.lsr b k) 1%uint63) 1%uint63 then v else 0.
Definition byte_at (w : int) (sh : int) : Z :=
  let b := Uint63.land (Uint63.lsr w sh) 255%uint63 in
  bitZ b 0%uint63 1 + bitZ b 1%uint63 2 + bitZ b 2%uint63 4 + bitZ b 3%uint63 8 + bitZ b 4%uint63 16 + bitZ b 5%uint63 32
  + bitZ b 6%uint63 64 + bitZ b 7%uint63 128.
Definition bytes7 (w : int) : list Z :=
  [byte_at w 48%uint63; byte_at w 40%uint63; byte_at w 32%uint63; byte_at w 24%uint63; byte_at w 16%uint63; byte_at w 8%uint63;
   byte_at w 0%uint63].
Definition unpack (len : Z) (ws : list int) : list Z := firstn (Z.to_nat len) (flat_map bytes7 ws).
(* the class of what is delivered to the caller (harness/c03_impl.py `delivered`): ocode, except that OViolation / OSendFail /
   OLocal are all a foolscap.tokens.Violation on the real Deferred *)
Definition coarse (o : outcome) : Z :=
  match o with OResult => 1 | ORemoteError => 2 | OViolation | OSendFail | OLocal => 3 | ODeadRef => 4 | OOther => 7 end.
Definition flat (s : st) : list Z :=
  map fst (table s) ++ [-1] ++ flat_map (fun c => map coarse (c_fires c) ++ [-2]) (calls s)
  ++ [-1; if disconnected s then 1 else 0] ++ map qcode (evq s) ++ [-1; Z.of_nat (raised s)].
(* an item of a recorded history: an operation, or a run of chunks (bytes, chunk lengths) *)
Inductive item := O (x : op) | R (n : Z) (ws : list int) (lens : list Z).
Definition fl16 (s : rstate (actx coracle)) : list Z := map (fun z => z + 16) (flat (jst coracle s)).
(* feed the chunks one by one; after every chunk but the last the request state must still be `prev` and the abandoned flag
   `quiet`; returns the final state, or None *)
Fixpoint feed_run (s : rstate (actx coracle)) (bytes : list Z) (lens : list Z) (prev : list Z) (quiet : bool) {struct lens}
  : option (rstate (actx coracle)) :=
  match lens with
  | [] => Some s
  | [l] => Some (fst (jstep coracle c_taste c_after s (JData bytes)))
  | l :: lens' =>
    let s' := fst (jstep coracle c_taste c_after s (JData (firstn (Z.to_nat l) bytes))) in
    if list_eqb (fl16 s') prev && Bool.eqb (jdead coracle s') quiet
    then feed_run s' (skipn (Z.to_nat l) bytes) lens' prev quiet else None
  end.
(* expected observation: (n, words, d): the flat snapshot shifted by 16, packed (n = -1: unchanged); d = 1 the connection is
   abandoned / 0 it is not / 2 not observed *)
Fixpoint jcheck (s : rstate (actx coracle)) (js : list item) (obs : list (Z * list int * Z)) (prev : list Z) (i : Z) {struct js} : Z :=
  match js, obs with
  | j :: js', (n, ws, d) :: obs' =>
    let want := if n <? 0 then prev else unpack n ws in
    match (match j with
           | O x => Some (fst (jstep coracle c_taste c_after s (JOp x)))
           | R m w lens => feed_run s (unpack m w) lens prev (10 <=? d)
           end) with
    | None => i
    | Some s' =>
      let dd := d mod 10 in
      if list_eqb (fl16 s') want && ((dd =? 2) || Bool.eqb (jdead coracle s') (dd =? 1))
      then jcheck s' js' obs' want (i + 1) else i
    end
  | _, _ => -1
  end.
Definition copyable := [99; 111; 112; 121; 97; 98; 108; 101].
Definition go (tasters : list (option taster)) (maxidx maxcop : Z) (voc : list (Z * list Z)) (js : list item) (obs : list (Z * list int * Z)) : Z :=
  jcheck (jinit coracle {| co_tasters := tasters; co_max_index := maxidx; co_copyable := copyable; co_max_copyable := maxcop; co_second := false;
                           co_known := known_opentypes; co_copyables := known_copyables |} voc) js obs [] 0.
"""


def pack(b):
    """bytes -> 'n [w1;w2;..]%uint63' (7 bytes per word, big-endian, zero padded)"""
    ws = [str(int.from_bytes(b[i:i + 7].ljust(7, b"\0"), "big")) for i in range(0, len(b), 7)]
    return "%d [%s]%%uint63" % (len(b), ";".join(ws))


REQ_BYTES = REQ + ["Verif.lib.Token", "Verif.lib.Recv", "Verif.lib.AnswerRecv"]


def coq_taster(t):
    if t is None:
        return "None"
    return "(Some %s)" % coq_list(["(%d, %s)" % (ty, "None" if lim is None else "(Some %d)" % lim) for ty, lim in t])


REGS = [([], [])]


def correspond_bytes(ctx):
    """the byte-level receive model (lib/AnswerRecv.v) against the real Broker: the caller's history with every dataReceived
    as one item (the bytes), the operations that happen OUTSIDE dataReceived as they were recorded; what the bytes do to the
    request table and to the Deferreds is computed by the model and compared after every item.  Consecutive chunks after
    which the implementation's snapshot did not change are written as one run (bytes + chunk lengths): the model is fed
    chunk by chunk and must not change either."""
    from harness import c03_impl as impl
    total = len(JOINT)
    limit = ctx.n(250, 4000)
    rows = JOINT
    if len(rows) > limit:
        edges = [r for r in rows if "edge_stream" in r[4]]
        keep = edges + [r for r in rows if "edge_stream" not in r[4] and r[4].get("cutA", 0) >= 10 ** 9 and r[4].get("cutB", 0) >= 10 ** 9][:limit // 4]
        rest = [r for r in rows if not any(r is k for k in keep)]
        rows = keep + ctx.rng.sample(rest, limit - len(keep))
    seen = set()
    rows_all = []
    for joint, tasters, (maxidx, maxcop), vocab, cfg, regs in rows:
        key = (tuple((it[0], it[1]) for it in joint), json.dumps(tasters))
        if key in seen:
            continue
        seen.add(key)
        rows_all.append((joint, tasters, maxidx, maxcop, vocab, cfg))
        REGS[0] = regs
    ctx.extra["byte_correspondence_histories_available"] = total
    ctx.extra["byte_correspondence_histories"] = len(rows_all)
    ctx.extra["byte_correspondence_bytes"] = sum(len(it[1]) for r in rows_all for it in r[0] if it[0] == "data")
    ctx.extra["byte_correspondence_chunks"] = sum(1 for r in rows_all for it in r[0] if it[0] == "data")
    nbad = 0
    shard = 200
    flat_cache = {}

    def enc_of(snap):
        k = id(snap)
        if k not in flat_cache:
            fl = flat(snap)
            flat_cache[k] = (bytes(x + 16 for x in fl) if all(-16 <= x < 240 for x in fl) else None, snap)
        return flat_cache[k][0]
    for si in range(0, len(rows_all), shard):
        part = rows_all[si:si + shard]
        lines = []
        index_maps = []
        for joint, tasters, maxidx, maxcop, vocab, cfg in part:
            js, obs, imap = [], [], []
            prev = None
            unchanged = "-1, []"
            i = 0
            ok_enc = True
            while i < len(joint):
                it = joint[i]
                enc = enc_of(it[2])
                if enc is None:
                    ok_enc = False
                    break
                if it[0] == "op":
                    js.append("O (%s)" % coq_op(it[1], impl))
                    obs.append("(%s, 2)" % (unchanged if enc == prev else pack(enc).replace(" [", ", [", 1)))
                    imap.append(i)
                    prev = enc
                    i += 1
                    continue
                # a run of data chunks: all but the last leave snapshot and abandoned-flag as they were before the run
                j = i
                lens = []
                data = b""
                while True:
                    lens.append(len(joint[j][1]))
                    data += joint[j][1]
                    e_j = enc_of(joint[j][2])
                    last = (j + 1 >= len(joint) or joint[j + 1][0] != "data" or e_j != prev or joint[j][3] != joint[i][3]
                            or e_j is None or (j > i and joint[j][3] != joint[j - 1][3]))
                    if e_j != prev or last:
                        break
                    j += 1
                # chunks i..j; chunks before j had snapshot == prev; abandoned flag of the run = that of chunk j, and the
                # earlier ones must equal the flag before the run unless they equal chunk j's (checked by the model as "quiet")
                quiet_flag = joint[i][3] if j > i else joint[j][3]
                if any(joint[k][3] != quiet_flag for k in range(i, j)):
                    # abandoned changed inside the quiet part: split the run there (rare); fall back to single chunks
                    j = i
                    lens = [len(joint[i][1])]
                    data = joint[i][1]
                e_j = enc_of(joint[j][2])
                if e_j is None:
                    ok_enc = False
                    break
                js.append("R %s %s" % (pack(data), "[" + ";".join(str(x) for x in lens) + "]"))
                obs.append("(%s, %d)" % (unchanged if e_j == prev else pack(e_j).replace(" [", ", [", 1),
                                         (1 if joint[j][3] else 0) + (10 if quiet_flag else 0)))
                imap.append(j)
                prev = e_j
                i = j + 1
            if not ok_enc:
                lines.append("Eval vm_compute in (-1)%Z.")
                index_maps.append([])
                ctx.hist("byte_correspondence", "skipped: snapshot value out of the compact range")
                continue
            index_maps.append(imap)
            voc = coq_list(["(%d, %s)" % (k, coq_list([str(b) for b in v])) for k, v in sorted(vocab.items())])
            lines.append("Eval vm_compute in go %s %d %d %s %s %s." % (coq_list([coq_taster(t) for t in tasters]), maxidx, maxcop, voc,
                                                                      coq_list(js), coq_list(obs)))
        try:
            regs = ("Definition known_opentypes : list (list Z) := %s.\nDefinition known_copyables : list (list Z) := %s.\n"
                    % (coq_list([coq_list([str(b) for b in k]) for k in REGS[0][0]]),
                       coq_list([coq_list([str(b) for b in k]) for k in REGS[0][1]])))
            body = BODY_BYTES.replace("Definition copyable :=", regs + "Definition copyable :=")
            vals = ctx.coq_eval("C03_bytes_%d" % (si // shard), body + "\n".join(lines) + "\n", requires=REQ_BYTES)
        except common.CoqEvalError as e:
            ctx.fail("correspondence-broken", "the byte-level model could not be evaluated: " + str(e)[-1500:], has_input=False)
            return
        for (joint, tasters, maxidx, maxcop, vocab, cfg), imap, v in zip(part, index_maps, vals):
            ctx.traces += 1
            if v != -1:
                nbad += 1
                if nbad <= 3:
                    it = joint[imap[v]] if v < len(imap) else joint[-1]
                    ctx.fail("correspondence/bytes-to-requests",
                             "byte-level model and implementation disagree at item %d (%s) of the history recorded for %r: "
                             "implementation snapshot %r" % (imap[v] if v < len(imap) else -1,
                                                             ("the run of dataReceived calls ending with %d bytes %s.." % (len(it[1]), it[1][:24].hex()))
                                                             if it[0] == "data" else repr(it[1]), cfg, flat(it[2])),
                             replay=dict(cfg=cfg, item=v, items=[[i[0], i[1].hex() if i[0] == "data" else list(i[1])] for i in joint]),
                             has_input=False)
    ctx.extra["byte_correspondence_disagreements"] = nbad
