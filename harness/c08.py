"""C08 -- references keep their identity across the wire."""
from harness import common


def run(ctx):
    ctx.rule = ("same history generator as C09 (two real Brokers, message-granular delivery, explicit proxy drops), observed at "
                "Python `is`-identity of what remote_ methods receive: every delivered reference is classified against the "
                "proxies the receiver still holds; proxies sent home / called through must reach the original object; a case "
                "is one history; non-trivial = a reference was delivered while a proxy for the same object was held; plus the "
                "bound-method witness (D15), three- and four-Tub gift scenarios, all interleavings (depth 6 / 8) around a decref in "
                "flight, and a reconnection family (two successive connections between the same Tubs, stale proxies sent home / "
                "called / used after the second connection exists); several gifts (from one or two owners) inside one list / tuple / "
                "set / dict / argument list / nested container, the carrying message cut at every byte position (quick: residue "
                "classes) and the introductions completing A-first / D-first; AsyncAND on every fired/pending mixture up to 4 inputs; three-party "
                "histories on four real Tubs with message-granular delivery (4 fixed witnesses + random: exports from two owners with "
                "colliding clids, gives of 1-3 proxies per call, the giver's application dropping at any point, every link direction "
                "delivered separately incl. the giver's release traffic) compared after every action with the model lib/Gifts.v; "
                "ONE gift-bearing value in SEVERAL places of one call (fixed list: 7 kinds of value -- bare proxy, tuple, frozenset, "
                "tuple in tuple / in frozenset, tuple of list, list -- x 15 shapes -- positional / keyword arguments, list / tuple / "
                "dict / set members, argument + member -- x gifts from one / two owners; whole and cut, three fixed witnesses of the "
                "cut between a back-reference's INT and CLOSE), structure, one-proxy-per-original and call target checked at "
                "invocation; one placeholder Deferred subscribed by every sequence of 1-3 real unslicers, compared with Refs.fire; regift family (three real Tubs: the holder drops its only proxy and re-receives the object with the decref / its "
                "answer under way at every position, then gives the re-received proxy to a third Tub; 8 fixed witnesses + random scripts)")
    ctx.assumptions = [
        "CPython collects a proxy on the last `del` (+gc.collect()): DropProxy is an explicit action; modelled, not verified",
        "FIFO byte streams both ways, one queue item per top-level banana object; eventual-queue FIFO order relied upon",
        "third-party gifts: three-party model lib/Gifts.v (gift table, acknowledgement, owner's name table) compared step by step with "
        "four real Tubs; in it the owner<->giver and owner<->recipient connections are abstracted by the conclusions of the two-party "
        "theorems (an object lives exactly while a proxy / an answer in flight designates it: pessimistic about the owner's release), "
        "lookups and answers may be reordered (superset of FIFO); Tub.getReference's connection establishment is not modelled "
        "(all connections exist beforehand; establishment during an introduction is exercised by the three-Tub scenarios only)",
        "the serialisation of calls/answers (banana, slicers) is exercised by the histories but not modelled",
    ]
    ok, log = ctx.coq_build(["props/C08.vo"])
    from harness import refs_impl as R
    before = len(ctx.failures)
    # regression witness for D15 (fixed)
    for sig, text in R.d15_witness():
        ctx.fail(sig, text, replay=dict(witness="bound method sent, proxy collected, sent again (notes/e6.py)"))
    ctx.case(["d15-bound-method"], nontrivial=True)
    from harness import c08_impl
    from harness.implenv import quiet
    # known finding: the holder's tracker re-created from a non-first my-reference has no FURL (model: C08_live_proxy_without_url_refuted,
    # C08_all_introductions_faithful_refuted, C08_gift_of_recreated_proxy_refuted), replayed on three real Tubs
    with quiet():
        try:
            wproblems, reached = c08_impl.urlless_witness()
        except Exception:
            import traceback
            wproblems, reached = [("oracle/gift-exception", "the url-less witness raised: %s" % traceback.format_exc()[-800:])], False
    ctx.case(["urlless-recreated-tracker"], nontrivial=bool(reached))
    ctx.hist("urlless_witness", "state-reached" if reached else "state-not-reached")
    for sig, text in wproblems:
        ctx.fail(sig, text, replay=dict(witness="Send x; RecvOH; DropProxy 0; HandleRefLost; Send x; RecvHO; RecvOH; DropProxy 1; HandleRefLost; "
                                                "RecvOH; Send x; RecvOH; then the holder gives its proxy to a third Tub"))
    if not reached and not wproblems:
        ctx.note("the url-less witness no longer reaches a tracker without FURL on the implementation (the model says it does: "
                 "C08_live_proxy_without_url_refuted)")
    # the model's do_register takes a name over like Tub._assignName (C08_introduction_refuted_by_name_takeover): same on real Tubs?
    with quiet():
        try:
            who = c08_impl.name_takeover_witness()
        except Exception:
            import traceback
            who = "raised: " + traceback.format_exc()[-600:]
    ctx.case(["name-takeover"], nontrivial=True)
    ctx.traces += 1
    if who != "new":
        ctx.fail("correspondence/name-takeover", "the model (Gifts.do_register, name_takeover_ops) says that after a second object is "
                 "registered under a name in use, a gift of the first object's proxy yields a proxy of the SECOND object; on real Tubs: %s" % who,
                 replay=dict(witness="registerReference(old, 'service'); B obtains it; registerReference(new, 'service'); B gives its proxy to C",
                             got=who), has_input=False)
    results = R.check_refs(ctx, "C08", "redelivery-while-held")
    c08_impl.gifts(ctx)
    c08_impl.regift(ctx)
    c08_impl.multi_gifts(ctx)
    c08_impl.reconnect(ctx, "C08")
    model_ok = ok
    if not ok:
        model_ok, _ = ctx.coq_build(["lib/Refs.vo", "lib/Gifts.vo"])
    if model_ok:
        R.correspond(ctx, "C08", results)
        c08_impl.wire_correspondence(ctx)
    from harness import gifts_impl
    gifts_impl.check_gifts(ctx, "C08", model_ok)
    c08_impl.asyncand_check(ctx, model_ok)
    c08_impl.placeholder_check(ctx, model_ok)
    # a failing input that is a listed known finding does not explain a broken proof
    known = common.load_known()
    fresh = [f for f in ctx.failures[before:] if not (f["has_input"] and known.get(("C08", f["sig"]), {}).get("status") == "known")]
    if not ok and not [f for f in fresh if f["has_input"]]:
        ctx.fail("proof-broken", "the Coq development for C08 no longer builds against the regenerated gen/RefsGen.v "
                 "(theorem closure props/C08.vo):\n" + log[-2500:], replay=dict(log=log[-6000:]), has_input=False)
    elif not ok:
        ctx.note("proof broken as well: " + log[-600:])
