"""C09 -- distributed reference counts neither release early nor leak."""
from harness import common


def run(ctx):
    ctx.rule = ("histories of actions (owner sends 1-3 references in one call, possibly in a call the receiver discards; "
                "next O->H / H->O message delivered; proxy dropped with or without running the eventual queue; proxy sent "
                "home / called through; connection lost) chosen at random among the enabled ones on two real Brokers with "
                "message-granular delivery, 7 profiles (1, 2, 4 objects; discards; loss; bound methods; and `turns`: the owner sends "
                "again 0..3 eventual-send generations after an H->O message -- decref, call through a proxy, proxy sent home -- was "
                "handed to its Broker, i.e. between the reactor turns its handling takes), plus corpus witnesses; a case is one "
                "history; non-trivial = it contains a re-send of a reference while a release of it is unanswered; after connection loss "
                "the histories go on sending / calling through the stale proxies (callRemote and callRemoteOnly with by-reference "
                "arguments, also from notifyOnDisconnect handlers) and the dead Brokers' tables must stay empty; plus ALL "
                "interleavings (depth 6 quick / 8 thorough) of re-send, delivery, release and answer around a decref in flight (and, depth "
                "4 / 6, with the re-send placed 0, 1 or 2 turns into the delivery of the decref), and "
                "a reconnection family on real Tubs (tables of the dead Broker pair after reconnection); and a Tub talking to itself "
                "over broker.LoopbackTransport, shut down (5 ways) after every number of eventual-send generations while calls, "
                "answers and callbacks carrying references are in flight in both directions; three parties: the gifter forgets its "
                "proxy after every number of delivery steps of a third-party introduction (3 gift shapes x 3 link priorities), the "
                "owner holding the object only through its tables; and message-granular three-party histories on four real Tubs "
                "(fixed witnesses + random) compared after every action with the model lib/Gifts.v (gift table, live proxies of "
                "giver and recipient)")
    ctx.assumptions = [
        "CPython collects a proxy on the last `del` (+gc.collect()): DropProxy is an explicit action; modelled, not verified",
        "FIFO byte streams both ways, one queue item per top-level banana object (Broker.send is wrapped on the two instances "
        "to delimit messages); Twisted Deferred/eventual-queue FIFO order is relied upon (HandleRefLost pops the oldest)",
        "two-party model: one connection, one direction (O exports, H imports); three-party model lib/Gifts.v: the giver's gift table, "
        "the recipient's acknowledgement and the owners' name tables, with the owner<->giver / owner<->recipient connections abstracted "
        "by the conclusions of the two-party theorems (pessimistic: the owner's object dies the moment the giver's last proxy dies)",
        "the serialisation of calls/answers (banana, slicers) is exercised by the histories but not modelled",
    ]
    ok, log = ctx.coq_build(["props/C09.vo"])
    from harness import refs_impl as R
    before = len(ctx.failures)
    results = R.check_refs(ctx, "C09", "resend-races-release")
    from harness import c08_impl
    c08_impl.reconnect(ctx, "C09")
    from harness import c09_impl
    c09_impl.loopback(ctx)
    c09_impl.gift_drops(ctx)
    model_ok = ok
    if not ok:
        model_ok, _ = ctx.coq_build(["lib/Refs.vo", "lib/Gifts.vo", "lib/Conn.vo"])
    if model_ok:
        R.correspond(ctx, "C09", results)
    from harness import gifts_impl
    gifts_impl.check_gifts(ctx, "C09", model_ok)
    c09_impl.conn_tables(ctx, model_ok)
    # a failing input that is a listed known finding does not explain a broken proof
    known = common.load_known()
    fresh = [f for f in ctx.failures[before:] if not (f["has_input"] and known.get(("C09", f["sig"]), {}).get("status") == "known")]
    if not ok and not [f for f in fresh if f["has_input"]]:
        ctx.fail("proof-broken", "the Coq development for C09 no longer builds against the regenerated gen/RefsGen.v "
                 "(theorem closure props/C09.vo):\n" + log[-2500:], replay=dict(log=log[-6000:]), has_input=False)
    elif not ok:
        ctx.note("proof broken as well: " + log[-600:])
