"""C07/C11: the real `foolscap.banana.Banana` receive path driven with *policy unslicers*:
small IUnslicer implementations whose behaviour (accept / Violation / BananaError at each
callback) is selected by the opentype, so that every branch of handleData / handleOpen /
handleToken / handleClose / handleViolation can be reached and compared, callback by
callback, with the Coq model lib/BananaRecv.v.  Also the real RootUnslicer (standard
unslicers) for the chunk-independence oracle."""
from zope.interface import implementer
from foolscap import banana, tokens
from foolscap.tokens import Violation, BananaError, STRING, VOCAB, INT, NEG, LONGINT, LONGNEG, FLOAT, OPEN

import contextlib, io


@contextlib.contextmanager
def E_quiet():
    """foolscap prints on some error paths; keep stdout clean, and swallow twisted's log.err output"""
    from twisted.python import log as twlog
    obs = lambda ev: None
    try:
        twlog.startLoggingWithObserver(obs, setStdout=False)
    except Exception:
        pass
    with contextlib.redirect_stdout(io.StringIO()), contextlib.redirect_stderr(io.StringIO()):
        yield


VOCAB_TABLE = {0: b"L", 1: b"I", 2: b"hello", 7: b"P"}
INDEX_MAX = 3          # longest index token accepted by openerCheckToken


class FakeTransport:
    def __init__(self, log):
        self.log = log
        self.disconnecting = False

    def write(self, data):
        self.log.append(("write", bytes(data)))

    def loseConnection(self, *a):
        self.log.append(("lose",))

    def getPeer(self):
        return None

    def getHost(self):
        return None


def canon(o):
    """canonical, json-able form of a delivered object"""
    if isinstance(o, bool):
        return ["bool", o]
    if isinstance(o, int):
        return ["i", o]
    if isinstance(o, float):
        import struct
        return ["f", list(struct.pack("!d", o))]
    if isinstance(o, bytes):
        return ["s", list(o)]
    if isinstance(o, tuple) and o and o[0] == "L":
        return ["L", o[1], [canon(x) for x in o[2]]]
    return ["?", repr(o)]


@implementer(tokens.IUnslicer)
class PU(object):
    """policy unslicer.  kind: one letter; param: integer from the opentype's digits"""
    openCount = None
    protocol = None
    parent = None

    def __init__(self, kind, param, log):
        self.kind = kind
        self.param = param
        self.log = log
        self.items = []

    def describe(self):
        return self.kind

    def setConstraint(self, c):
        pass

    def setObject(self, counter, obj):
        pass

    def getObject(self, counter):
        return None

    # ---- token-level checks (pure unless they raise)
    def checkToken(self, typebyte, size):
        k = self.kind
        if k == "B":
            raise BananaError("strict taster")
        if k == "I" and typebyte not in (INT, NEG):
            raise Violation("ints only")
        if k == "S" and typebyte in (STRING, LONGINT, LONGNEG) and size > self.param:
            raise Violation("too large")
        if k == "N" and len(self.items) >= self.param:
            raise Violation("full")
        if k == "Q" and typebyte == FLOAT:
            raise Violation("no floats")

    def openerCheckToken(self, typebyte, size, opentype):
        if typebyte == STRING:
            if size > INDEX_MAX:
                raise Violation("index token too long")
        elif typebyte == VOCAB:
            return
        else:
            raise Violation("index token not STRING or VOCAB")

    # ---- structure
    def doOpen(self, opentype):
        # opentype: tuple of native strings
        head = opentype[0]
        kind, digits = head[:1], head[1:]
        if kind == "2":
            if len(opentype) < 2:
                return None              # wants one more index token
            kind, digits = "L", ""
        if kind not in "LISNCXTFPBQ" or kind == "" or (digits and not digits.isdigit()):
            self.log.append(("doOpen-violation", self.kind))
            raise Violation("unknown opentype")
        if self.kind == "I":
            self.log.append(("doOpen-violation", self.kind))
            raise Violation("ints only: no sub-objects")
        child = PU(kind, int(digits) if digits else 0, self.log)
        return child

    def start(self, count):
        self.log.append(("start", self.kind, count))
        if self.kind == "T":
            raise Violation("bad start")

    def receiveChild(self, obj, ready_deferred=None):
        if self.kind == "C" and len(self.items) == self.param:
            self.log.append(("child-violation", self.kind, len(self.items)))
            raise Violation("bad child")
        self.items.append(obj)

    def receiveClose(self):
        if self.kind == "X":
            self.log.append(("close-violation",))
            raise Violation("bad close")
        return ("L", self.kind, tuple(self.items)), None

    def finish(self):
        self.log.append(("finish", self.kind))
        if self.kind == "F":
            raise Violation("bad finish")

    def reportViolation(self, f):
        if self.kind == "P":
            self.log.append(("absorb", self.kind))
            return None
        return f


class PolicyRoot(PU):
    """root: delivers top-level objects, absorbs violations; `rootmode` restricts top-level tokens"""
    rootmode = "any"

    def __init__(self, protocol):
        PU.__init__(self, "R", 0, protocol.vlog)
        self.protocol = protocol
        self.rootmode = protocol.rootmode

    def checkToken(self, typebyte, size):
        m = self.rootmode
        if m == "ints" and typebyte not in (INT, NEG, OPEN):
            raise Violation("root: ints only")
        if m == "nofloat" and typebyte == FLOAT:
            raise Violation("root: no floats")
        if m.startswith("size") and typebyte in (STRING, LONGINT, LONGNEG) and size > int(m[4:]):
            raise Violation("root: too large")

    def doOpen(self, opentype):
        head = opentype[0]
        kind, digits = head[:1], head[1:]
        if kind == "2":
            if len(opentype) < 2:
                return None
            kind, digits = "L", ""
        if kind not in "LISNCXTFPBQ" or kind == "" or (digits and not digits.isdigit()):
            self.log.append(("doOpen-violation", self.kind))
            raise Violation("unknown opentype")
        return PU(kind, int(digits) if digits else 0, self.log)

    def start(self, count):
        pass

    def receiveChild(self, obj, ready_deferred=None):
        self.log.append(("deliver", canon(obj)))

    def reportViolation(self, f):
        self.log.append(("violation",))
        return None

    def finish(self):
        pass


class PolicyBanana(banana.Banana):
    unslicerClass = PolicyRoot
    logReceiveErrors = False

    def __init__(self, rootmode="any"):
        self.vlog = []
        self.rootmode = rootmode
        banana.Banana.__init__(self)
        self.transport = FakeTransport(self.vlog)
        self.initUnslicer()
        self.replaceIncomingVocabulary(dict(VOCAB_TABLE))

    def reportReceiveError(self, f):
        self.vlog.append(("receive-error", f.type.__name__))


def run_policy(stream, chunks, rootmode="any"):
    """feed `stream` split at the given chunk sizes; returns (events, per-chunk state snapshots, escaped exception)"""
    p = PolicyBanana(rootmode)
    snaps = []
    pos = 0
    escaped = None
    for n in chunks:
        data = stream[pos:pos + n]
        pos += n
        try:
            p.dataReceived(data)
        except Exception as e:      # must never happen
            escaped = "%s: %s" % (type(e).__name__, e)
            break
        snaps.append(dict(buf=len(p.buffer), skip=p.skipBytes, discard=p.discardCount, depth=len(p.receiveStack),
                          inopen=bool(p.inOpen), dead=bool(p.connectionAbandoned)))
    return events_of(p.vlog), snaps, escaped


def events_of(vlog):
    """canonical event list: error messages are reduced to the fact that an ERROR token was written"""
    out = []
    pending_write = b""
    for e in vlog:
        if e[0] == "write":
            pending_write += e[1]
            continue
        if pending_write:
            out += classify_write(pending_write)
            pending_write = b""
        out.append(list(e))
    if pending_write:
        out += classify_write(pending_write)
    return out


def classify_write(data):
    """bytes written by the receiver are PONG tokens and at most one final ERROR token"""
    out = []
    pos = 0
    while pos < len(data):
        j = pos
        while j < len(data) and data[j] < 0x80:
            j += 1
        if j >= len(data):
            out.append(["write", list(data[pos:])])
            break
        ty = data[j:j + 1]
        n = banana.b1282int(data[pos:j]) if j > pos else 0
        if ty == tokens.PONG:
            out.append(["pong", n])
            pos = j + 1
        elif ty == tokens.ERROR:
            out.append(["error-sent"])
            break
        else:
            out.append(["write", list(data[pos:])])
            break
    return out


# ------------------------------------------------------------------ real RootUnslicer
class RealBanana(banana.Banana):
    logReceiveErrors = False

    def __init__(self):
        self.vlog = []
        banana.Banana.__init__(self)
        self.transport = FakeTransport(self.vlog)
        self.initUnslicer()

    def receivedObject(self, obj):
        self.vlog.append(("deliver", deep_canon(obj)))

    def reportViolation(self, why):
        self.vlog.append(("violation",))
        return None

    def reportReceiveError(self, f):
        self.vlog.append(("receive-error", f.type.__name__))


def deep_canon(o, seen=None):
    seen = seen or {}
    if id(o) in seen:
        return ["ref", seen[id(o)]]
    if isinstance(o, bool):
        return ["bool", o]
    if isinstance(o, int):
        return ["i", o]
    if isinstance(o, float):
        import struct
        return ["f", list(struct.pack("!d", o))]
    if isinstance(o, bytes):
        return ["s", list(o)]
    if isinstance(o, str):
        return ["u", o]
    if o is None:
        return ["none"]
    if isinstance(o, (list, tuple)):
        seen[id(o)] = len(seen)
        return [type(o).__name__, [deep_canon(x, seen) for x in o]]
    if isinstance(o, (set, frozenset)):
        return [type(o).__name__, sorted((deep_canon(x, seen) for x in o), key=repr)]
    if isinstance(o, dict):
        seen[id(o)] = len(seen)
        return ["dict", sorted(([deep_canon(k, seen), deep_canon(v, seen)] for k, v in o.items()), key=repr)]
    return ["?", type(o).__name__, repr(o)[:80]]


class RealStorageBanana(RealBanana):
    """the receiving half of foolscap.storage: its root unslicer keeps the table that `reference` sequences are resolved in"""
    from foolscap import storage as _storage
    unslicerClass = _storage.StorageRootUnslicer

    def receiveChild(self, obj, ready_deferred):
        from foolscap.slicers.vocab import ReplaceVocabularyTable, AddToVocabularyTable
        if obj in (ReplaceVocabularyTable, AddToVocabularyTable):
            return                      # the unslicer has already changed the table (RootUnslicer.receiveChild does the same)
        if ready_deferred is None:
            self.receivedObject(obj)
        else:
            ready_deferred.addBoth(lambda res: self.receivedObject(obj))


class StdBanana(RealBanana):
    """RootUnslicer + standard unslicers; delivered objects are logged in the code layout of lib/Unsl.v's uval_code"""

    def receivedObject(self, obj):
        from harness.c07_std import ucode
        self.vlog.append(("deliver", ucode(obj)))

    def reportReceiveError(self, f):
        self.errmsg = "%s: %s" % (f.type.__name__, str(f.value)[:200])
        self.vlog.append(("receive-error", f.type.__name__))


def run_real(stream, chunks, cls=None):
    p = (cls or RealBanana)()
    pos = 0
    escaped = None
    for n in chunks:
        data = stream[pos:pos + n]
        pos += n
        try:
            p.dataReceived(data)
        except Exception as e:
            escaped = "%s: %s" % (type(e).__name__, e)
            break
    return events_of(p.vlog), dict(buf=len(p.buffer), skip=p.skipBytes, discard=p.discardCount,
                                   depth=len(p.receiveStack), dead=bool(p.connectionAbandoned)), escaped
